"""
fv/common.py — shared machinery for every property check.

  Ctx            one check run: seed/PRNG, Lean build, axiom audit, driver process,
                 failure bookkeeping, known-finding matching, replay + evidence writing.
  Driver         line-protocol client of lean/.lake/build/bin/fvdriver.

Exit codes used by fv.main:  0 held, 1 violation, 2 infrastructure failure.
"""
import hashlib
import json
import os
import random
import re
import subprocess
import sys
import time
import traceback
from pathlib import Path

VERIF = Path(__file__).resolve().parents[1]
LEAN = VERIF / "lean"
REPO = Path(os.environ.get("FUNSOR_REPO", "/repo"))
BIN_DIR = LEAN / ".lake" / "build" / "bin"


def driver_bin(prop):
    return BIN_DIR / f"drv_{prop.lower()}"
ALLOWED_AXIOMS = {"propext", "Classical.choice", "Quot.sound"}
FORBIDDEN = re.compile(
    r"\bsorry\b|\badmit\b|^\s*axiom\s|native_decide|bv_decide|implemented_by|\bunsafe\s|maxHeartbeats\s+0\b"
)

TRUSTED_BASE = [
    "Lean 4.33.0 kernel (theorems elaborated by `lake build`; axioms audited via Lean.collectAxioms: subset of propext, Classical.choice, Quot.sound)",
    "Mathlib v4.33.0 as a library where a Props/Proofs file imports one of its modules",
    "no sorry/admit/axiom/native_decide/bv_decide/implemented_by/unsafe in any Lean source (grepped every run)",
    "the correspondence harness (fv/harness) and its generators: what they do not generate is not tied to the code",
    "numpy/opt_einsum/LAPACK primitives are modelled by their index-level specification, not verified",
]


def _env():
    e = dict(os.environ)
    e.pop("PYTHONPATH", None)
    return e


def run_cmd(cmd, cwd=None, timeout=3600):
    p = subprocess.run(cmd, cwd=cwd, stdout=subprocess.PIPE, stderr=subprocess.STDOUT,
                       text=True, timeout=timeout, env=_env())
    out = "\n".join(l for l in p.stdout.splitlines() if "conda.cli.condarc" not in l)
    return p.returncode, out


# --------------------------------------------------------------------------------------
# S-expression helpers (Python side of the wire format)
# --------------------------------------------------------------------------------------

class Q(str):
    """A quoted string on the wire."""


def sx(x):
    """Serialise nested python data to the S-expression wire format.
    str -> bare atom, Q -> quoted, int/bool/Fraction/float(special) -> atom, list/tuple -> list."""
    from fractions import Fraction
    if isinstance(x, Q):
        return '"' + str(x) + '"'
    if isinstance(x, bool):
        return "true" if x else "false"
    if isinstance(x, str):
        return x
    if isinstance(x, int):
        return str(x)
    if isinstance(x, Fraction):
        return str(x.numerator) if x.denominator == 1 else f"{x.numerator}/{x.denominator}"
    if isinstance(x, float):
        if x != x:
            return "nan"
        if x == float("inf"):
            return "inf"
        if x == float("-inf"):
            return "-inf"
        f = Fraction(x)
        return str(f.numerator) if f.denominator == 1 else f"{f.numerator}/{f.denominator}"
    if isinstance(x, (list, tuple)):
        return "(" + " ".join(sx(y) for y in x) + ")"
    try:
        import numpy as np
        if isinstance(x, np.generic):
            return sx(x.item())
    except ImportError:
        pass
    raise TypeError(f"cannot serialise {type(x)}: {x!r}")


def parse_sx(s):
    """Parse one S-expression string into nested lists / str atoms (Q for quoted)."""
    toks = re.findall(r'\(|\)|"[^"]*"|[^\s()"]+', s)
    pos = 0

    def rd():
        nonlocal pos
        t = toks[pos]
        pos += 1
        if t == "(":
            out = []
            while toks[pos] != ")":
                out.append(rd())
            pos += 1
            return out
        if t.startswith('"'):
            return Q(t[1:-1])
        return t
    out = []
    while pos < len(toks):
        out.append(rd())
    return out[0] if len(out) == 1 else out


def atom_to_num(a):
    """Wire atom -> Fraction | float special."""
    from fractions import Fraction
    if a == "inf":
        return float("inf")
    if a == "-inf":
        return float("-inf")
    if a == "nan":
        return float("nan")
    if a == "true":
        return Fraction(1)
    if a == "false":
        return Fraction(0)
    return Fraction(a)


# --------------------------------------------------------------------------------------
# Driver
# --------------------------------------------------------------------------------------

class Driver:
    """Batch client: `ask(lines)` pipes all request lines to a fresh fvdriver process and
    returns the answer lines (same length).  A fresh process per batch keeps it simple and
    deterministic; start-up is a few milliseconds for the native binary."""

    def __init__(self, binary):
        self.binary = Path(binary)
        self.requests = 0

    def available(self):
        return self.binary.exists()

    def ask(self, lines, timeout=1800):
        lines = list(lines)
        if not lines:
            return []
        for l in lines:
            if "\n" in l:
                raise ValueError("newline in request")
        inp = "\n".join(lines) + "\n"
        p = subprocess.run([str(self.binary)], input=inp, stdout=subprocess.PIPE,
                           stderr=subprocess.PIPE, text=True, timeout=timeout, env=_env())
        out = p.stdout.splitlines()
        if len(out) != len(lines):
            raise RuntimeError(
                f"driver returned {len(out)} lines for {len(lines)} requests (rc={p.returncode}): "
                f"{p.stderr[-2000:]}")
        self.requests += len(lines)
        return out

    def ask1(self, line):
        return self.ask([line])[0]


# --------------------------------------------------------------------------------------
# Known findings
# --------------------------------------------------------------------------------------

def load_known_findings():
    f = VERIF / "known_findings.json"
    if not f.exists():
        return []
    return json.loads(f.read_text()).get("findings", [])


# --------------------------------------------------------------------------------------
# Ctx
# --------------------------------------------------------------------------------------

class Failure:
    def __init__(self, kind, name, witness=None, python=None, expected=None, got=None,
                 finding_id=None, detail=None):
        self.kind = kind            # "input" | "obligation" | "correspondence"
        self.name = name            # theorem / correspondence / stream name
        self.witness = witness
        self.python = python
        self.expected = expected
        self.got = got
        self.finding_id = finding_id  # id of a known_findings.json entry this reproduces (dedicated stream only)
        self.detail = detail


class Ctx:
    def __init__(self, prop, tier="quick", seed=None):
        self.prop = prop
        self.tier = tier
        if seed is None:
            seed = int(os.environ.get("VERIF_SEED", "0") or 0)
        self.seed = seed
        self.rng = random.Random(f"{prop}-{seed}")
        self.t0 = time.time()
        self.failures = []
        self.known_hits = []       # (finding_id, what)
        self.stale_findings = []
        self.infra_errors = []
        self.coverage = {}
        self.assumptions = []
        self.samples = []
        self.evaluations = 0
        self.nontrivial_keys = set()
        self.rule = ""
        self.exhaustive = False
        self.distribution = {}
        self.theorems = []         # [(name, [axioms])]
        self.build_ok = None
        self.build_log = ""
        self.audit_ok = None
        self.driver = Driver(driver_bin(prop))
        self.findings = [f for f in load_known_findings()
                         if f.get("property") == prop or prop in f.get("properties", [])]
        self.extra = {}

    # ---- generators -------------------------------------------------------------
    def count(self, key, n=1):
        self.distribution[key] = self.distribution.get(key, 0) + n

    def case(self, sample=None, nontrivial_key=None):
        """Record one evaluated case; `nontrivial_key` (hashable/str) marks it distinct+non-trivial."""
        self.evaluations += 1
        if nontrivial_key is not None:
            if not isinstance(nontrivial_key, str):
                nontrivial_key = repr(nontrivial_key)
            self.nontrivial_keys.add(hashlib.blake2b(nontrivial_key.encode(), digest_size=8).digest())
        if sample is not None and len(self.samples) < 6:
            self.samples.append(sample)

    # ---- Lean -------------------------------------------------------------------
    def lake_build(self, targets, timeout=3600):
        rc, out = run_cmd(["lake", "build"] + list(targets), cwd=LEAN, timeout=timeout)
        return rc == 0, out

    def build(self, with_props=True):
        """Build the native driver and this property's Props modules (which elaborates every
        theorem of the property, including obligations over regenerated Gen/ tables)."""
        ok_d, log_d = self.lake_build([f"drv_{self.prop.lower()}"])
        self.driver_ok = ok_d and self.driver.binary.exists()
        targets = self.props_modules() + ["FunsorVerif.Audit"]
        ok_p, log_p = (True, "")
        if with_props:
            ok_p, log_p = self.lake_build(targets)
        self.build_ok = ok_d and ok_p
        self.build_log = (log_d + "\n" + log_p)[-20000:]
        self.props_ok = ok_p
        return self.build_ok

    def props_modules(self):
        mods = []
        base = LEAN / "FunsorVerif" / "Props"
        f = base / f"{self.prop}.lean"
        if f.exists():
            mods.append(f"FunsorVerif.Props.{self.prop}")
        d = base / self.prop
        if d.is_dir():
            for g in sorted(d.glob("*.lean")):
                mods.append(f"FunsorVerif.Props.{self.prop}.{g.stem}")
        return mods

    def broken_modules(self):
        """Modules named in build errors (best effort)."""
        return sorted(set(re.findall(r"error: (\S+\.lean):\d+", self.build_log)
                          + re.findall(r"✖ \[\d+/\d+\] Building (\S+)", self.build_log)))

    def import_cone(self):
        """Lean source files this property's theorems and driver depend on (transitive `import FunsorVerif.*`)."""
        roots = [LEAN / "Main" / f"{self.prop}.lean"]
        for m in self.props_modules():
            roots.append(LEAN / (m.replace(".", "/") + ".lean"))
        seen, todo = set(), [r for r in roots if r.exists()]
        while todo:
            f = todo.pop()
            if f in seen:
                continue
            seen.add(f)
            for m in re.findall(r"^\s*import\s+(FunsorVerif(?:\.[A-Za-z0-9_]+)+)", f.read_text(), flags=re.M):
                g = LEAN / (m.replace(".", "/") + ".lean")
                if g.exists():
                    todo.append(g)
        return sorted(seen)

    def grep_forbidden(self):
        hits = []
        for f in self.import_cone():
            if f.name == "Audit.lean":
                continue
            txt = f.read_text()
            # strip block comments and line comments
            txt2 = re.sub(r"/-.*?-/", lambda m: "\n" * m.group(0).count("\n"), txt, flags=re.S)
            for i, line in enumerate(txt2.splitlines(), 1):
                line = line.split("--")[0]
                if FORBIDDEN.search(line):
                    hits.append(f"{f.relative_to(LEAN)}:{i}: {line.strip()}")
        return hits

    def audit(self):
        """Axiom audit of every theorem in the property's Props modules + forbidden-token grep."""
        mods = self.props_modules()
        adir = LEAN / ".lake" / "audit"
        adir.mkdir(parents=True, exist_ok=True)
        af = adir / f"Audit{self.prop}.lean"
        src = "import FunsorVerif.Audit\n" + "".join(f"import {m}\n" for m in mods)
        src += f'#audit_module "FunsorVerif.Props.{self.prop}"\n'
        af.write_text(src)
        rc, out = run_cmd(["lake", "env", "lean", str(af)], cwd=LEAN, timeout=1800)
        thms = []
        for line in out.splitlines():
            m = re.match(r"THEOREM (\S+) AXIOMS ?(.*)$", line)
            if m:
                # exact module match: Props.C1 must not pick up Props.C10 (prefix) — filter by namespace below
                thms.append((m.group(1), m.group(2).split()))
        self.theorems = thms
        bad = [(n, a) for n, a in thms if not set(a) <= ALLOWED_AXIOMS]
        hits = self.grep_forbidden()
        self.audit_ok = (rc == 0) and not bad and not hits and len(thms) > 0
        self.audit_detail = {"rc": rc, "bad_axioms": bad, "forbidden_tokens": hits,
                             "output_tail": out[-1500:] if rc != 0 else ""}
        return self.audit_ok

    def leanchecker(self):
        mods = self.props_modules()
        rc, out = run_cmd(["lake", "env", "leanchecker"] + mods, cwd=LEAN, timeout=3600)
        self.extra["leanchecker"] = {"rc": rc, "tail": out[-500:]}
        return rc == 0

    # ---- failures ---------------------------------------------------------------
    def fail(self, kind, name, **kw):
        self.failures.append(Failure(kind, name, **kw))

    def known(self, finding_id, reproduced, what=None):
        """Dedicated stream for an open known finding reports here."""
        ent = next((f for f in self.findings if f["id"] == finding_id), None)
        if ent is None or not str(ent.get("status", "open")).startswith("open"):
            # not (or no longer) listed as open: a reproduction is a plain violation
            return False
        if reproduced:
            self.known_hits.append((finding_id, what or ent.get("what", "")))
        else:
            self.stale_findings.append(finding_id)
        return True

    def is_open(self, finding_id):
        ent = next((f for f in self.findings if f["id"] == finding_id), None)
        return ent is not None and str(ent.get("status", "open")).startswith("open")

    # ---- finish -----------------------------------------------------------------
    def write_replay(self, fl, idx):
        rdir = VERIF / "replays"
        rdir.mkdir(exist_ok=True)
        path = rdir / f"{self.prop}-{self.seed}-{idx}.json"
        doc = {
            "property": self.prop, "seed": self.seed, "tier": self.tier,
            "kind": "input" if fl.witness is not None else "obligation",
            "broken": fl.name, "witness": fl.witness, "python": fl.python,
            "expected": fl.expected, "got": fl.got, "detail": fl.detail,
        }
        path.write_text(json.dumps(doc, indent=1, default=str))
        return path

    def finish(self):
        wall = time.time() - self.t0
        lines = []
        n_viol = 0
        for fid, what in self.known_hits:
            lines.append(f"KNOWN-FINDING: property={self.prop} {fid}: {what}")
        for fid in self.stale_findings:
            lines.append(f"NOTE: known finding {fid} did not reproduce on this tree (stale entry?)")
        # de-duplicate failures by name; prefer ones with a witness
        by_name = {}
        for fl in self.failures:
            cur = by_name.get(fl.name)
            if cur is None or (cur.witness is None and fl.witness is not None):
                by_name[fl.name] = fl
        for idx, fl in enumerate(by_name.values()):
            path = self.write_replay(fl, idx)
            rel = os.path.relpath(path, VERIF)
            suffix = "" if fl.witness is not None else " no-failing-input-found"
            lines.append(f"VIOLATION property={self.prop} replay={rel}{suffix}")
            n_viol += 1
        n_obl = len(self.theorems)
        discharged = sum(1 for n, a in self.theorems if set(a) <= ALLOWED_AXIOMS) if self.props_ok_safe() else 0
        cov = {
            "obligations": max(n_obl, 1),
            "discharged": discharged if n_obl else 0,
            "checker_cmd": f"cd lean && lake build {' '.join(self.props_modules())} && lake env lean .lake/audit/Audit{self.prop}.lean",
            "trusted_base": TRUSTED_BASE + self.assumptions,
            "theorems": [{"name": n, "axioms": a} for n, a in self.theorems],
            "evaluations": self.evaluations,
            "distinct_nontrivial": len(self.nontrivial_keys),
            "rule": self.rule,
            "samples": self.samples if self.samples else [f"{n}" for n, _ in self.theorems[:5]],
            "exhaustive": self.exhaustive,
            "distribution": dict(sorted(self.distribution.items())),
            "driver_requests": self.driver.requests,
            "build_ok": bool(self.build_ok), "audit_ok": bool(self.audit_ok),
            "known_findings_reproduced": [f for f, _ in self.known_hits],
        }
        cov.update(self.coverage)
        cov.update(self.extra)
        ev = {
            "property_id": self.prop, "tier": self.tier, "seed": self.seed, "level": "proof",
            "coverage": cov, "assumptions": self.assumptions, "wall_s": round(wall, 2),
            "violations": n_viol,
        }
        edir = VERIF / "evidence"
        edir.mkdir(exist_ok=True)
        (edir / f"{self.prop}.json").write_text(json.dumps(ev, indent=1, default=str) + "\n")
        for l in lines:
            print(l)
        if self.infra_errors and not n_viol:
            for e in self.infra_errors:
                print(f"INFRA-ERROR: {e}", file=sys.stderr)
            return 2
        print(f"{self.prop} {self.tier} seed={self.seed}: theorems={n_obl} discharged={cov['discharged']} "
              f"cases={self.evaluations} nontrivial={len(self.nontrivial_keys)} "
              f"violations={n_viol} known={len(self.known_hits)} wall={wall:.1f}s")
        return 1 if n_viol else 0

    def props_ok_safe(self):
        return bool(getattr(self, "props_ok", False))


def import_funsor():
    """Import funsor from /repo's working tree (numpy backend)."""
    if str(REPO) not in sys.path:
        sys.path.insert(0, str(REPO))
    os.environ.setdefault("FUNSOR_BACKEND", "numpy")
    import funsor
    assert Path(funsor.__file__).resolve().parents[1] == REPO.resolve(), funsor.__file__
    return funsor
