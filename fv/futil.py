"""
fv/futil.py — helpers shared by the harnesses for observing real funsor objects.
Everything here only *reads* public attributes (.inputs, .output, .data).
"""
import itertools
import math
from collections import OrderedDict
from fractions import Fraction

import numpy as np

from .common import import_funsor

funsor = import_funsor()
from funsor.tensor import Tensor  # noqa: E402
from funsor.terms import Number, Funsor, Variable  # noqa: E402
from funsor.domains import Bint, Real, Reals  # noqa: E402
import funsor.ops as ops  # noqa: E402


def table(f, order):
    """Values of a ground funsor over the named integer inputs in `order` = [(name, size)…]
    as an ndarray of shape sizes + f.output.shape.  Inputs of `f` must be a subset of `order`
    (missing ones are broadcast).  Returns None if `f` is not a Tensor/Number (declined)."""
    if isinstance(f, Number):
        data = np.asarray(f.data)
        return np.broadcast_to(data, tuple(s for _, s in order)).copy()
    if not isinstance(f, Tensor):
        return None
    names = [n for n, _ in order]
    for k in f.inputs:
        if k not in names:
            raise KeyError(f"unexpected input {k!r} in result (have {list(f.inputs)}, expected subset of {names})")
    data = np.asarray(f.data)
    nb = len(f.inputs)
    ev = data.shape[nb:]
    # permute existing batch dims into `order` order
    have = list(f.inputs)
    perm = [have.index(n) for n in names if n in have]
    data = data.transpose(perm + list(range(nb, data.ndim)))
    # insert size-1 dims for missing names
    shape = []
    it = iter(data.shape[:nb])
    for n, s in order:
        if n in have:
            d = next(it)
            if d != s:
                raise ValueError(f"input {n}: size {d} != expected {s}")
            shape.append(d)
        else:
            shape.append(1)
    data = data.reshape(tuple(shape) + tuple(ev))
    return np.broadcast_to(data, tuple(s for _, s in order) + tuple(ev)).copy()


def exact(x):
    """numpy scalar -> Fraction | float special (inf/-inf/nan)."""
    x = x.item() if hasattr(x, "item") else x
    if isinstance(x, bool):
        return Fraction(int(x))
    if isinstance(x, int):
        return Fraction(x)
    if x != x or x in (float("inf"), float("-inf")):
        return float(x)
    return Fraction(x)


def same_num(a, b, tol=0.0):
    """Compare two exact-or-special numbers; NaN equals NaN (both are 'not a value')."""
    af = isinstance(a, float)
    bf = isinstance(b, float)
    if af or bf:
        if af and bf:
            return (a != a and b != b) or a == b
        if tol and not (af and (a != a or math.isinf(a))) and not (bf and (b != b or math.isinf(b))):
            return abs(float(a) - float(b)) <= tol * max(1.0, abs(float(a)), abs(float(b)))
        return False
    if tol:
        return abs(float(a) - float(b)) <= tol * max(1.0, abs(float(a)), abs(float(b)))
    return a == b


SEMIRINGS = {
    # name: (sum_op, prod_op, wire semiring, data kind)
    "add-mul": (ops.add, ops.mul, "add-mul", "nonneg-int"),
    "logaddexp-add": (ops.logaddexp, ops.add, "add-mul", "log"),
    "max-add": (ops.max, ops.add, "max-add", "int-ninf"),
    "min-add": (ops.min, ops.add, "min-add", "int-pinf"),
    "max-mul": (ops.max, ops.mul, "max-mul", "nonneg-int"),
}


def gen_data(rng, shape, kind):
    """Random data of a 'kind' that is exact in float64 (and in the log semiring: log of a dyadic)."""
    n = int(np.prod(shape)) if shape else 1
    if kind == "nonneg-int":
        vals = [rng.choice([0, 1, 1, 2, 3]) for _ in range(n)]
        return np.array(vals, dtype=np.float64).reshape(shape)
    if kind == "int-ninf":
        vals = [rng.choice([-2, -1, 0, 1, 2, 3, float("-inf")]) for _ in range(n)]
        return np.array(vals, dtype=np.float64).reshape(shape)
    if kind == "int-pinf":
        vals = [rng.choice([-2, -1, 0, 1, 2, 3, float("inf")]) for _ in range(n)]
        return np.array(vals, dtype=np.float64).reshape(shape)
    if kind == "log":
        lin = [rng.choice([0.0, 0.25, 0.5, 1.0, 1.0, 2.0, 3.0]) for _ in range(n)]
        with np.errstate(divide="ignore"):
            return np.log(np.array(lin, dtype=np.float64)).reshape(shape)
    if kind == "int":
        vals = [rng.choice([-2, -1, 0, 1, 2, 3]) for _ in range(n)]
        return np.array(vals, dtype=np.float64).reshape(shape)
    if kind == "bool":
        vals = [rng.choice([0, 1]) for _ in range(n)]
        return np.array(vals, dtype=np.float64).reshape(shape)
    raise ValueError(kind)


def linear_view(arr, kind):
    """Map impl data to the model's carrier (log semiring -> linear space)."""
    if kind == "log":
        return np.exp(arr)
    return arr


def points(sizes):
    return itertools.product(*[range(s) for s in sizes])
