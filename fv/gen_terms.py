"""
fv/gen_terms.py — seeded, type-directed generator of funsor expressions ("recipes").

A recipe is a nested tuple describing how to build an expression through funsor's PUBLIC API;
`build(recipe)` constructs it under whatever interpretation is active (eager → the evaluated
result; reflect/lazy → the syntax tree, which fv.ser.to_wire serialises for the Lean `denote`).

    ctx   = {"i": 2, "j": 3, …}          named bounded-integer inputs (all free inputs are among them)
    gen_expr(rng, ctx, depth, kind)      kind ∈ {"real", "bint"}: output dtype of the generated expression
                                         returns (recipe, free) with free ⊆ ctx the inputs it may mention

Data are small integers (exact in float64).  Every random choice comes from `rng`.
"""
from collections import OrderedDict

import numpy as np

from . import futil
from .futil import funsor, Tensor, Number, Variable, Bint, Real, Reals, ops
from funsor.terms import Slice, Stack, Cat, Lambda, Independent

BIN_REAL = ["add", "add", "sub", "mul", "mul", "max", "min"]
BIN_CMP = ["eq", "ne", "lt", "le", "gt", "ge"]
RED_OPS = ["add", "add", "mul", "max", "min"]
OPS = {"add": ops.add, "sub": ops.sub, "mul": ops.mul, "max": ops.max, "min": ops.min,
       "eq": ops.eq, "ne": ops.ne, "lt": ops.lt, "le": ops.le, "gt": ops.gt, "ge": ops.ge,
       "and": ops.and_, "or": ops.or_, "xor": ops.xor, "neg": ops.neg, "abs": ops.abs,
       "logaddexp": ops.logaddexp, "floordiv": ops.floordiv, "mod": ops.mod, "truediv": ops.truediv}


def _subset(rng, names, p=0.6):
    out = [n for n in names if rng.random() < p]
    rng.shuffle(out)
    return out


def gen_tensor(rng, ctx, kind="real", names=None, event_shape=()):
    names = _subset(rng, list(ctx)) if names is None else list(names)
    shape = tuple(ctx[n] for n in names) + tuple(event_shape)
    n = int(np.prod(shape)) if shape else 1
    if kind == "real":
        vals = [rng.choice([-2, -1, 0, 0, 1, 1, 2, 3]) for _ in range(n)]
        dtype = "real"
    else:
        size = kind if isinstance(kind, int) else rng.choice([2, 3, 4])
        vals = [rng.randrange(size) for _ in range(n)]
        dtype = size
    data = np.array(vals, dtype=np.float64 if dtype == "real" else np.int64).reshape(shape)
    return ("tensor", tuple((nm, ctx[nm]) for nm in names), dtype, tuple(event_shape), data)


def gen_leaf(rng, ctx, kind):
    r = rng.random()
    if kind == "real":
        if r < 0.75 or not ctx:
            t = gen_tensor(rng, ctx, "real")
            return t, set(n for n, _ in t[1])
        return ("num", float(rng.choice([-1, 0, 1, 2, 3])), "real"), set()
    # bint-valued leaf of size `kind`
    size = kind
    cands = [n for n, s in ctx.items() if s == size]
    if cands and r < 0.5:
        n = rng.choice(cands)
        return ("var", n, size), {n}
    if r < 0.85:
        t = gen_tensor(rng, ctx, size)
        return t, set(n for n, _ in t[1])
    return ("num", rng.randrange(size), size), set()


def gen_expr(rng, ctx, depth, kind="real"):
    """Returns (recipe, free_names)."""
    if depth <= 0 or rng.random() < 0.15:
        return gen_leaf(rng, ctx, kind)
    if kind != "real":
        # integer-valued expressions: leaves, Stack of leaves, substitution into a leaf
        c = rng.random()
        if c < 0.6:
            return gen_leaf(rng, ctx, kind)
        if c < 0.8 and ctx:
            name = rng.choice(list(ctx))
            parts = [gen_leaf(rng, {k: v for k, v in ctx.items() if k != name}, kind) for _ in range(ctx[name])]
            return ("stack", name, tuple(p[0] for p in parts)), set().union({name}, *[p[1] for p in parts])
        return gen_leaf(rng, ctx, kind)
    c = rng.random()
    if c < 0.28:
        a, fa = gen_expr(rng, ctx, depth - 1, "real")
        b, fb = gen_expr(rng, ctx, depth - 1, "real")
        return ("binary", rng.choice(BIN_REAL), a, b), fa | fb
    if c < 0.36:
        a, fa = gen_expr(rng, ctx, depth - 1, "real")
        return ("unary", rng.choice(["neg", "abs"]), a), fa
    if c < 0.56:
        a, fa = gen_expr(rng, ctx, depth - 1, "real")
        op = rng.choice(RED_OPS)
        present = sorted(fa)
        rv = [n for n in present if rng.random() < 0.6]
        absent = [n for n in ctx if n not in fa and rng.random() < 0.15]
        if not rv and not absent:
            if present:
                rv = [rng.choice(present)]
            elif ctx:
                absent = [rng.choice(list(ctx))]
            else:
                return a, fa
        return ("reduce", op, a, tuple(rv), tuple((n, ctx[n]) for n in absent)), fa - set(rv)
    if c < 0.80:
        a, fa = gen_expr(rng, ctx, depth - 1, "real")
        if not fa:
            return a, fa
        keys = _subset(rng, sorted(fa), 0.5) or [rng.choice(sorted(fa))]
        subs = []
        free = set(fa) - set(keys)
        for k in keys:
            size = ctx[k]
            r = rng.random()
            if r < 0.25:
                subs.append((k, ("num", rng.randrange(size), size)))
            elif r < 0.55:
                # rename: fresh, colliding with a surviving input, swap, repeated
                cands = [n for n, s in ctx.items() if s == size and n != k]
                if cands:
                    n = rng.choice(cands)
                    subs.append((k, ("var", n, size)))
                    free.add(n)
                else:
                    subs.append((k, ("num", rng.randrange(size), size)))
            elif r < 0.8:
                v, fv_ = gen_expr(rng, ctx, min(depth - 1, 1), size)
                subs.append((k, v))
                free |= fv_
            else:
                # slice of the full range with a name of matching size is rarely available; use a
                # strided slice bound to a context name whose size equals the slice length
                start = rng.randrange(size)
                step = rng.choice([1, 1, 2])
                length = max(0, (size - start + step - 1) // step)
                cands = [n for n, s in ctx.items() if s == length and n not in free and n not in keys]
                if length > 0 and cands:
                    n = rng.choice(cands)
                    subs.append((k, ("slice", n, start, size, step, size)))
                    free.add(n)
                else:
                    subs.append((k, ("num", rng.randrange(size), size)))
        return ("subs", a, tuple(subs)), free
    if c < 0.88 and ctx:
        name = rng.choice(list(ctx))
        sub = {k: v for k, v in ctx.items() if k != name}
        parts = [gen_expr(rng, sub, depth - 1, "real") for _ in range(ctx[name])]
        return ("stack", name, tuple(p[0] for p in parts)), set().union({name}, *[p[1] for p in parts])
    if c < 0.94 and ctx:
        # Cat along `name`: parts carry `name` with sizes summing to ctx[name]
        name = rng.choice(list(ctx))
        total = ctx[name]
        if total < 2:
            return gen_leaf(rng, ctx, "real")
        cut = rng.randrange(1, total)
        parts = []
        free = {name}
        for sz in (cut, total - cut):
            c2 = dict(ctx)
            c2[name] = sz
            p, fp = gen_expr(rng, c2, depth - 1, "real")
            if name not in fp:
                # force dependence on `name` so the part has the input
                t = gen_tensor(rng, c2, "real", names=[name])
                p, fp = ("binary", "add", p, t), fp | {name}
            parts.append(p)
            free |= fp
        return ("cat", name, tuple(parts)), free
    if ctx:
        # Lambda over a name followed by indexing with an integer-valued expression (round trip through arrays)
        name = rng.choice(list(ctx))
        body, fb = gen_expr(rng, ctx, depth - 1, "real")
        idx, fi = gen_leaf(rng, ctx, ctx[name])
        return ("lamget", name, ctx[name], body, idx), (fb - {name}) | fi
    return gen_leaf(rng, ctx, kind)


def build(r):
    """Construct the funsor described by recipe `r` under the active interpretation."""
    tag = r[0]
    if tag == "tensor":
        _, ins, dtype, ev, data = r
        return Tensor(data, OrderedDict((n, Bint[s]) for n, s in ins), dtype)
    if tag == "num":
        return Number(r[1], r[2])
    if tag == "var":
        return Variable(r[1], Bint[r[2]] if isinstance(r[2], int) else r[2])
    if tag == "binary":
        return OPS[r[1]](build(r[2]), build(r[3]))
    if tag == "unary":
        return OPS[r[1]](build(r[2]))
    if tag == "reduce":
        _, op, a, rv, absent = r
        vs = frozenset(rv) | frozenset(Variable(n, Bint[s]) for n, s in absent)
        return build(a).reduce(OPS[op], vs)
    if tag == "subs":
        a = build(r[1])
        return a(**{k: build(v) for k, v in r[2]})
    if tag == "slice":
        return Slice(r[1], r[2], r[3], r[4], r[5])
    if tag == "stack":
        return Stack(r[1], tuple(build(p) for p in r[2]))
    if tag == "cat":
        return Cat(r[1], tuple(build(p) for p in r[2]))
    if tag == "lamget":
        _, name, size, body, idx = r
        lam = Lambda(Variable(name, Bint[size]), build(body))
        return lam[build(idx)]
    raise ValueError(tag)


def describe(r, maxlen=400):
    """Compact printable form of a recipe (arrays as lists)."""
    def go(x):
        if isinstance(x, np.ndarray):
            return x.tolist()
        if isinstance(x, tuple):
            return [go(y) for y in x]
        return x
    return go(r)


def recipe_size(r):
    if isinstance(r, tuple):
        return 1 + sum(recipe_size(x) for x in r if isinstance(x, tuple))
    return 0


def python_of(r):
    """Self-contained python expression (string) that rebuilds the recipe with funsor's API."""
    tag = r[0]
    if tag == "tensor":
        _, ins, dtype, ev, data = r
        dt = "np.float64" if dtype == "real" else "np.int64"
        return (f"Tensor(np.array({data.tolist()}, dtype={dt}), OrderedDict([" +
                ", ".join(f"({n!r}, Bint[{s}])" for n, s in ins) + f"]), {dtype!r})")
    if tag == "num":
        return f"Number({r[1]!r}, {r[2]!r})"
    if tag == "var":
        return f"Variable({r[1]!r}, Bint[{r[2]}])"
    if tag == "binary":
        return f"ops.{_pyop(r[1])}({python_of(r[2])}, {python_of(r[3])})"
    if tag == "unary":
        return f"ops.{_pyop(r[1])}({python_of(r[2])})"
    if tag == "reduce":
        _, op, a, rv, absent = r
        vs = "frozenset([" + ", ".join([repr(n) for n in rv] + [f"Variable({n!r}, Bint[{s}])" for n, s in absent]) + "])"
        return f"({python_of(a)}).reduce(ops.{_pyop(op)}, {vs})"
    if tag == "subs":
        return f"({python_of(r[1])})(**{{" + ", ".join(f"{k!r}: {python_of(v)}" for k, v in r[2]) + "})"
    if tag == "slice":
        return f"Slice({r[1]!r}, {r[2]}, {r[3]}, {r[4]}, {r[5]})"
    if tag == "stack":
        return f"Stack({r[1]!r}, (" + ", ".join(python_of(p) for p in r[2]) + ",))"
    if tag == "cat":
        return f"Cat({r[1]!r}, (" + ", ".join(python_of(p) for p in r[2]) + ",))"
    if tag == "lamget":
        _, name, size, body, idx = r
        return f"Lambda(Variable({name!r}, Bint[{size}]), {python_of(body)})[{python_of(idx)}]"
    raise ValueError(tag)


def _pyop(n):
    return {"and": "and_", "or": "or_"}.get(n, n)


PY_HEADER = """import numpy as np
from collections import OrderedDict
import funsor
from funsor.domains import Bint, Real, Reals
from funsor.tensor import Tensor
from funsor.terms import Number, Variable, Slice, Stack, Cat, Lambda
import funsor.ops as ops
"""


# ---------------------------------------------------------------------------------------------
# Shrinking (delta debugging on recipes)
# ---------------------------------------------------------------------------------------------

def _children(r):
    """[(path, child_recipe, kind)] for the direct sub-recipes of r."""
    tag = r[0]
    out = []
    if tag in ("binary",):
        out += [((2,), r[2], "real"), ((3,), r[3], "real")]
    elif tag == "unary":
        out += [((2,), r[2], "real")]
    elif tag == "reduce":
        out += [((2,), r[2], "real")]
    elif tag == "subs":
        out += [((1,), r[1], "real")]
        for i, (k, v) in enumerate(r[2]):
            out.append(((2, i, 1), v, "int"))
    elif tag in ("stack", "cat"):
        for i, p in enumerate(r[2]):
            out.append(((2, i), p, "real"))
    elif tag == "lamget":
        out += [((3,), r[3], "real"), ((4,), r[4], "int")]
    return out


def _replace(r, path, new):
    if not path:
        return new
    i = path[0]
    lst = list(r)
    lst[i] = _replace(r[i], path[1:], new)
    return tuple(lst)


def _variants(r):
    """Smaller recipes derived from r (one step)."""
    for path, child, kind in _children(r):
        if kind == "real":
            yield child                                   # hoist a child
    for path, child, kind in _children(r):
        if kind == "real" and child[0] not in ("num",):
            yield _replace(r, path, ("num", 1.0, "real"))  # replace a child by a constant
        for v in _variants(child):                         # shrink inside
            yield _replace(r, path, v)
    tag = r[0]
    if tag == "subs" and len(r[2]) > 1:
        for i in range(len(r[2])):
            yield ("subs", r[1], tuple(x for j, x in enumerate(r[2]) if j != i))
    if tag == "reduce":
        _, op, a, rv, absent = r
        if len(rv) + len(absent) > 1:
            for i in range(len(rv)):
                yield ("reduce", op, a, tuple(x for j, x in enumerate(rv) if j != i), absent)
            for i in range(len(absent)):
                yield ("reduce", op, a, rv, tuple(x for j, x in enumerate(absent) if j != i))


def shrink(recipe, fails, budget=400):
    """Greedy shrinking: `fails(recipe) -> bool` must be True for the input."""
    cur = recipe
    improved = True
    while improved and budget > 0:
        improved = False
        for v in _variants(cur):
            budget -= 1
            if budget <= 0:
                break
            try:
                if recipe_size(v) < recipe_size(cur) and fails(v):
                    cur = v
                    improved = True
                    break
            except Exception:
                continue
    return cur
