"""
fv/gen_terms.py — seeded, type-directed generator of funsor expressions ("recipes").

A recipe is a nested tuple describing how to build an expression through funsor's PUBLIC API;
`build(recipe)` constructs it under whatever interpretation is active (eager → the evaluated
result; reflect/lazy → the syntax tree, which fv.ser.to_wire serialises for the Lean `denote`).

    ctx   = {"i": 2, "j": 3, …}          named bounded-integer inputs (all free inputs are among them)
    gen_expr(rng, ctx, depth, kind)      kind ∈ {"real", "bint"}: output dtype of the generated expression
                                         returns (recipe, free) with free ⊆ ctx the inputs it may mention

Data are small integers (exact in float64).  Every random choice comes from `rng`.
"""
from collections import OrderedDict

import numpy as np

from . import futil
from .futil import funsor, Tensor, Number, Variable, Bint, Real, Reals, ops
from funsor.terms import Slice, Stack, Cat, Lambda, Independent

BIN_REAL = ["add", "add", "sub", "mul", "mul", "max", "min"]
BIN_CMP = ["eq", "ne", "lt", "le", "gt", "ge"]
RED_OPS = ["add", "add", "mul", "max", "min"]
OPS = {"add": ops.add, "sub": ops.sub, "mul": ops.mul, "max": ops.max, "min": ops.min,
       "eq": ops.eq, "ne": ops.ne, "lt": ops.lt, "le": ops.le, "gt": ops.gt, "ge": ops.ge,
       "and": ops.and_, "or": ops.or_, "xor": ops.xor, "neg": ops.neg, "abs": ops.abs,
       "logaddexp": ops.logaddexp, "floordiv": ops.floordiv, "mod": ops.mod, "truediv": ops.truediv}


def _subset(rng, names, p=0.6):
    out = [n for n in names if rng.random() < p]
    rng.shuffle(out)
    return out


def gen_tensor(rng, ctx, kind="real", names=None, event_shape=()):
    names = _subset(rng, list(ctx)) if names is None else list(names)
    shape = tuple(ctx[n] for n in names) + tuple(event_shape)
    n = int(np.prod(shape)) if shape else 1
    if kind == "real":
        vals = [rng.choice([-2, -1, 0, 0, 1, 1, 2, 3]) for _ in range(n)]
        dtype = "real"
    else:
        size = kind if isinstance(kind, int) else rng.choice([2, 3, 4])
        vals = [rng.randrange(size) for _ in range(n)]
        dtype = size
    data = np.array(vals, dtype=np.float64 if dtype == "real" else np.int64).reshape(shape)
    return ("tensor", tuple((nm, ctx[nm]) for nm in names), dtype, tuple(event_shape), data)


def gen_leaf(rng, ctx, kind):
    r = rng.random()
    if kind == "real":
        if r < 0.75 or not ctx:
            t = gen_tensor(rng, ctx, "real")
            return t, set(n for n, _ in t[1])
        return ("num", float(rng.choice([-1, 0, 1, 2, 3])), "real"), set()
    # bint-valued leaf of size `kind`
    size = kind
    cands = [n for n, s in ctx.items() if s == size]
    if cands and r < 0.5:
        n = rng.choice(cands)
        return ("var", n, size), {n}
    if r < 0.85:
        t = gen_tensor(rng, ctx, size)
        return t, set(n for n, _ in t[1])
    return ("num", rng.randrange(size), size), set()


def gen_expr(rng, ctx, depth, kind="real", ext=None):
    """Returns (recipe, free_names).  `ext` (opt-in, default off: existing seeds generate the same
    cases) switches to the extended generator `gen_ext` (array outputs, booleans, einsum, …)."""
    if ext:
        return gen_ext(rng, ctx, depth, kind, ext if isinstance(ext, dict) else {})
    if depth <= 0 or rng.random() < 0.15:
        return gen_leaf(rng, ctx, kind)
    if kind != "real":
        # integer-valued expressions: leaves, Stack of leaves, substitution into a leaf
        c = rng.random()
        if c < 0.6:
            return gen_leaf(rng, ctx, kind)
        if c < 0.8 and ctx:
            name = rng.choice(list(ctx))
            parts = [gen_leaf(rng, {k: v for k, v in ctx.items() if k != name}, kind) for _ in range(ctx[name])]
            return ("stack", name, tuple(p[0] for p in parts)), set().union({name}, *[p[1] for p in parts])
        return gen_leaf(rng, ctx, kind)
    c = rng.random()
    if c < 0.28:
        a, fa = gen_expr(rng, ctx, depth - 1, "real")
        b, fb = gen_expr(rng, ctx, depth - 1, "real")
        return ("binary", rng.choice(BIN_REAL), a, b), fa | fb
    if c < 0.36:
        a, fa = gen_expr(rng, ctx, depth - 1, "real")
        return ("unary", rng.choice(["neg", "abs"]), a), fa
    if c < 0.56:
        a, fa = gen_expr(rng, ctx, depth - 1, "real")
        op = rng.choice(RED_OPS)
        present = sorted(fa)
        rv = [n for n in present if rng.random() < 0.6]
        absent = [n for n in ctx if n not in fa and rng.random() < 0.15]
        if not rv and not absent:
            if present:
                rv = [rng.choice(present)]
            elif ctx:
                absent = [rng.choice(list(ctx))]
            else:
                return a, fa
        return ("reduce", op, a, tuple(rv), tuple((n, ctx[n]) for n in absent)), fa - set(rv)
    if c < 0.80:
        a, fa = gen_expr(rng, ctx, depth - 1, "real")
        if not fa:
            return a, fa
        keys = _subset(rng, sorted(fa), 0.5) or [rng.choice(sorted(fa))]
        subs = []
        free = set(fa) - set(keys)
        for k in keys:
            size = ctx[k]
            r = rng.random()
            if r < 0.25:
                subs.append((k, ("num", rng.randrange(size), size)))
            elif r < 0.55:
                # rename: fresh, colliding with a surviving input, swap, repeated
                cands = [n for n, s in ctx.items() if s == size and n != k]
                if cands:
                    n = rng.choice(cands)
                    subs.append((k, ("var", n, size)))
                    free.add(n)
                else:
                    subs.append((k, ("num", rng.randrange(size), size)))
            elif r < 0.8:
                v, fv_ = gen_expr(rng, ctx, min(depth - 1, 1), size)
                subs.append((k, v))
                free |= fv_
            else:
                # slice of the full range with a name of matching size is rarely available; use a
                # strided slice bound to a context name whose size equals the slice length
                start = rng.randrange(size)
                step = rng.choice([1, 1, 2])
                length = max(0, (size - start + step - 1) // step)
                cands = [n for n, s in ctx.items() if s == length and n not in free and n not in keys]
                if length > 0 and cands:
                    n = rng.choice(cands)
                    subs.append((k, ("slice", n, start, size, step, size)))
                    free.add(n)
                else:
                    subs.append((k, ("num", rng.randrange(size), size)))
        return ("subs", a, tuple(subs)), free
    if c < 0.88 and ctx:
        name = rng.choice(list(ctx))
        sub = {k: v for k, v in ctx.items() if k != name}
        parts = [gen_expr(rng, sub, depth - 1, "real") for _ in range(ctx[name])]
        return ("stack", name, tuple(p[0] for p in parts)), set().union({name}, *[p[1] for p in parts])
    if c < 0.94 and ctx:
        # Cat along `name`: parts carry `name` with sizes summing to ctx[name]
        name = rng.choice(list(ctx))
        total = ctx[name]
        if total < 2:
            return gen_leaf(rng, ctx, "real")
        cut = rng.randrange(1, total)
        parts = []
        free = {name}
        for sz in (cut, total - cut):
            c2 = dict(ctx)
            c2[name] = sz
            p, fp = gen_expr(rng, c2, depth - 1, "real")
            if name not in fp:
                # force dependence on `name` so the part has the input
                t = gen_tensor(rng, c2, "real", names=[name])
                p, fp = ("binary", "add", p, t), fp | {name}
            parts.append(p)
            free |= fp
        return ("cat", name, tuple(parts)), free
    if ctx:
        # Lambda over a name followed by indexing with an integer-valued expression (round trip through arrays)
        name = rng.choice(list(ctx))
        body, fb = gen_expr(rng, ctx, depth - 1, "real")
        idx, fi = gen_leaf(rng, ctx, ctx[name])
        return ("lamget", name, ctx[name], body, idx), (fb - {name}) | fi
    return gen_leaf(rng, ctx, kind)


def build(r):
    """Construct the funsor described by recipe `r` under the active interpretation."""
    tag = r[0]
    if tag == "tensor":
        _, ins, dtype, ev, data = r
        return Tensor(data, OrderedDict((n, Bint[s]) for n, s in ins), dtype)
    if tag == "num":
        return Number(r[1], r[2])
    if tag == "var":
        return Variable(r[1], Bint[r[2]] if isinstance(r[2], int) else r[2])
    if tag == "binary":
        return OPS[r[1]](build(r[2]), build(r[3]))
    if tag == "unary":
        return OPS[r[1]](build(r[2]))
    if tag == "reduce":
        _, op, a, rv, absent = r
        vs = frozenset(rv) | frozenset(Variable(n, Bint[s]) for n, s in absent)
        return build(a).reduce(OPS[op], vs)
    if tag == "subs":
        a = build(r[1])
        return a(**{k: build(v) for k, v in r[2]})
    if tag == "slice":
        return Slice(r[1], r[2], r[3], r[4], r[5])
    if tag == "stack":
        return Stack(r[1], tuple(build(p) for p in r[2]))
    if tag == "cat":
        return Cat(r[1], tuple(build(p) for p in r[2]))
    if tag == "lamget":
        _, name, size, body, idx = r
        lam = Lambda(Variable(name, Bint[size]), build(body))
        return lam[build(idx)]
    if tag in _EXT_BUILD:
        return _EXT_BUILD[tag](r)
    raise ValueError(tag)


def describe(r, maxlen=400):
    """Compact printable form of a recipe (arrays as lists)."""
    def go(x):
        if isinstance(x, np.ndarray):
            return x.tolist()
        if isinstance(x, tuple):
            return [go(y) for y in x]
        return x
    return go(r)


def recipe_size(r):
    if isinstance(r, tuple):
        return 1 + sum(recipe_size(x) for x in r if isinstance(x, tuple))
    return 0


def python_of(r):
    """Self-contained python expression (string) that rebuilds the recipe with funsor's API."""
    tag = r[0]
    if tag == "tensor":
        _, ins, dtype, ev, data = r
        dt = "np.float64" if dtype == "real" else "np.int64"
        return (f"Tensor(np.array({data.tolist()}, dtype={dt}), OrderedDict([" +
                ", ".join(f"({n!r}, Bint[{s}])" for n, s in ins) + f"]), {dtype!r})")
    if tag == "num":
        return f"Number({r[1]!r}, {r[2]!r})"
    if tag == "var":
        return f"Variable({r[1]!r}, Bint[{r[2]}])"
    if tag == "binary":
        return f"ops.{_pyop(r[1])}({python_of(r[2])}, {python_of(r[3])})"
    if tag == "unary":
        return f"ops.{_pyop(r[1])}({python_of(r[2])})"
    if tag == "reduce":
        _, op, a, rv, absent = r
        vs = "frozenset([" + ", ".join([repr(n) for n in rv] + [f"Variable({n!r}, Bint[{s}])" for n, s in absent]) + "])"
        return f"({python_of(a)}).reduce(ops.{_pyop(op)}, {vs})"
    if tag == "subs":
        return f"({python_of(r[1])})(**{{" + ", ".join(f"{k!r}: {python_of(v)}" for k, v in r[2]) + "})"
    if tag == "slice":
        return f"Slice({r[1]!r}, {r[2]}, {r[3]}, {r[4]}, {r[5]})"
    if tag == "stack":
        return f"Stack({r[1]!r}, (" + ", ".join(python_of(p) for p in r[2]) + ",))"
    if tag == "cat":
        return f"Cat({r[1]!r}, (" + ", ".join(python_of(p) for p in r[2]) + ",))"
    if tag == "lamget":
        _, name, size, body, idx = r
        return f"Lambda(Variable({name!r}, Bint[{size}]), {python_of(body)})[{python_of(idx)}]"
    if tag in _EXT_PY:
        return _EXT_PY[tag](r)
    raise ValueError(tag)


def _pyop(n):
    return {"and": "and_", "or": "or_"}.get(n, n)


PY_HEADER = """import numpy as np
from collections import OrderedDict
import funsor
from funsor.domains import Bint, Real, Reals
from funsor.tensor import Tensor
from funsor.terms import Number, Variable, Slice, Stack, Cat, Lambda
import funsor.ops as ops
"""


# ---------------------------------------------------------------------------------------------
# Shrinking (delta debugging on recipes)
# ---------------------------------------------------------------------------------------------

def _children(r):
    """[(path, child_recipe, kind)] for the direct sub-recipes of r."""
    tag = r[0]
    out = []
    if tag in ("binary",):
        out += [((2,), r[2], "real"), ((3,), r[3], "real")]
    elif tag == "unary":
        out += [((2,), r[2], "real")]
    elif tag == "reduce":
        out += [((2,), r[2], "real")]
    elif tag == "subs":
        out += [((1,), r[1], "real")]
        for i, (k, v) in enumerate(r[2]):
            out.append(((2, i, 1), v, "int"))
    elif tag in ("stack", "cat"):
        for i, p in enumerate(r[2]):
            out.append(((2, i), p, "real"))
    elif tag == "lamget":
        out += [((3,), r[3], "real"), ((4,), r[4], "int")]
    elif tag in _EXT_CHILDREN:
        out += _EXT_CHILDREN[tag](r)
    return out


def _replace(r, path, new):
    if not path:
        return new
    i = path[0]
    lst = list(r)
    lst[i] = _replace(r[i], path[1:], new)
    return tuple(lst)


def _variants(r):
    """Smaller recipes derived from r (one step)."""
    for path, child, kind in _children(r):
        if kind == "real":
            yield child                                   # hoist a child
    for path, child, kind in _children(r):
        if kind == "real" and child[0] not in ("num",):
            yield _replace(r, path, ("num", 1.0, "real"))  # replace a child by a constant
        for v in _variants(child):                         # shrink inside
            yield _replace(r, path, v)
    tag = r[0]
    if tag == "subs" and len(r[2]) > 1:
        for i in range(len(r[2])):
            yield ("subs", r[1], tuple(x for j, x in enumerate(r[2]) if j != i))
    if tag == "reduce":
        _, op, a, rv, absent = r
        if len(rv) + len(absent) > 1:
            for i in range(len(rv)):
                yield ("reduce", op, a, tuple(x for j, x in enumerate(rv) if j != i), absent)
            for i in range(len(absent)):
                yield ("reduce", op, a, rv, tuple(x for j, x in enumerate(absent) if j != i))


def shrink(recipe, fails, budget=400):
    """Greedy shrinking: `fails(recipe) -> bool` must be True for the input."""
    cur = recipe
    improved = True
    while improved and budget > 0:
        improved = False
        for v in _variants(cur):
            budget -= 1
            if budget <= 0:
                break
            try:
                if recipe_size(v) < recipe_size(cur) and fails(v):
                    cur = v
                    improved = True
                    break
            except Exception:
                continue
    return cur


# ---------------------------------------------------------------------------------------------
# Extended (opt-in) recipe kinds — added for C01; nothing above changes behaviour unless a caller
# passes `ext=...` to gen_expr or builds one of the new tags.
#
#   ("cmp", op, a, b)              comparison of two real scalars            -> bool (Bint[2])
#   ("boolbin", op, a, b)          and / or / xor of booleans                -> bool
#   ("not", a)                     ~a on a boolean                           -> bool
#   ("rvar", name, shape)          Variable(name, Reals[shape]) (lazy part)  -> real / array
#   ("lambda", name, size, body)   Lambda without an immediate getitem       -> array
#   ("opstack", parts)             ops.stack(parts, 0)   (Finitary)          -> array
#   ("opcat", parts)               ops.cat(parts, 0)     (Finitary)          -> array
#   ("einsum", equation, operands) ops.einsum(operands, equation) (Finitary) -> array / real
#   ("red", op, axis, keepdims, a) ops.sum/prod/amax/amin/all/any over output axes
#   ("reshape", shape, a)          a.reshape(shape)
#   ("getslice", index, a)         a[index]  (ints / slices; index stored as ("i", k) | ("s", a, b, c))
#   ("getitem", a, idx)            a[idx] with an integer-valued funsor idx
#   ("independent", fn, rv, bv, dv) Independent(fn, rv, bv, dv)
#   ("matmul", a, b)               ops.matmul(a, b) on the output axes
#   ("unaryf", f, a)               ops.<f>(a) for a transcendental f (exp log sigmoid sqrt tanh …): uninterpreted in Lean
#   ("getsugar", a, items)         a[items]: `:` / Ellipsis / int / name / funsor items (getitem at any offset)
# Kinds: "real", "bool", ("array", shape), or an int (Bint size).
# ---------------------------------------------------------------------------------------------

OPS.update({"invert": ops.invert})
RED_OUT = {"sum": ops.sum, "prod": ops.prod, "amax": ops.amax, "amin": ops.amin, "all": ops.all, "any": ops.any,
           "mean": ops.mean, "logsumexp": ops.logsumexp,
           "std": lambda x, axis=None, keepdims=False: ops.std(x, axis, 0, keepdims),
           "var": lambda x, axis=None, keepdims=False: ops.var(x, axis, 0, keepdims)}


def _index_of(ix):
    out = []
    for it in ix:
        if it[0] == "i":
            out.append(it[1])
        else:
            out.append(slice(it[1], it[2], it[3]))
    return tuple(out)


def _sugar_index(items):
    """x[...] index tuple: ("s",) = `:`, ("e",) = Ellipsis, ("i", k) = int, ("n", name) = str name,
    ("r", recipe) = integer-valued funsor.  A funsor/name item at position p after q slices becomes
    Binary(GetitemOp(offset=q), ·, ·) on the partially indexed result."""
    out = []
    for it in items:
        if it[0] == "s":
            out.append(slice(None))
        elif it[0] == "e":
            out.append(Ellipsis)
        elif it[0] == "none":
            out.append(None)
        elif it[0] == "sl":
            out.append(slice(it[1], it[2], it[3]))
        elif it[0] in ("i", "n"):
            out.append(it[1])
        else:
            out.append(build(it[1]))
    return tuple(out)


def _py_sugar_index(items):
    parts = []
    for it in items:
        parts.append("slice(None)" if it[0] == "s" else "Ellipsis" if it[0] == "e" else "None" if it[0] == "none"
                     else f"slice({it[1]}, {it[2]}, {it[3]})" if it[0] == "sl" else repr(it[1])
                     if it[0] in ("i", "n") else python_of(it[1]))
    return "(" + ", ".join(parts) + ",)"


def _b_nreduce(r):
    """("nreduce", op, a, own_names, foreign ((name, size)…)): a.reduce(ops.<op>, frozenset of Variable OBJECTS) —
    the funsor's own inputs and variables it does not mention, for the non-associative ops mean / var / std."""
    x = build(r[2])
    vs = frozenset([Variable(n, x.inputs[n]) for n in r[3]] + [Variable(n, Bint[s]) for n, s in r[4]])
    return x.reduce(getattr(ops, r[1]), vs)


def _b_rvar(r):
    shape = tuple(r[2])
    return Variable(r[1], Reals[shape] if shape else Real)


_EXT_BUILD = {
    "cmp": lambda r: OPS[r[1]](build(r[2]), build(r[3])),
    "boolbin": lambda r: OPS[r[1]](build(r[2]), build(r[3])),
    "not": lambda r: ops.invert(build(r[1])),
    "rvar": _b_rvar,
    "lambda": lambda r: Lambda(Variable(r[1], Bint[r[2]]), build(r[3])),
    "opstack": lambda r: ops.stack(tuple(build(p) for p in r[1]), 0),
    "opcat": lambda r: ops.cat(tuple(build(p) for p in r[1]), 0),
    "einsum": lambda r: ops.einsum(tuple(build(p) for p in r[2]), r[1]),
    "red": lambda r: RED_OUT[r[1]](build(r[4]), r[2], r[3]),
    "reshape": lambda r: build(r[2]).reshape(tuple(r[1])),
    "getslice": lambda r: build(r[2])[_index_of(r[1])],
    "getitem": lambda r: build(r[1])[build(r[2])],
    "independent": lambda r: Independent(build(r[1]), r[2], r[3], r[4]),
    "getsugar": lambda r: build(r[1])[_sugar_index(r[2])],
    "unaryf": lambda r: getattr(ops, r[1])(build(r[2])),
    "nreduce": lambda r: _b_nreduce(r),
    "matmul": lambda r: ops.matmul(build(r[1]), build(r[2])),
}


def _py_index(ix):
    parts = []
    for it in ix:
        parts.append(str(it[1]) if it[0] == "i" else f"slice({it[1]}, {it[2]}, {it[3]})")
    return "(" + ", ".join(parts) + ",)"


_EXT_PY = {
    "cmp": lambda r: f"ops.{r[1]}({python_of(r[2])}, {python_of(r[3])})",
    "boolbin": lambda r: f"ops.{_pyop(r[1])}({python_of(r[2])}, {python_of(r[3])})",
    "not": lambda r: f"ops.invert({python_of(r[1])})",
    "rvar": lambda r: f"Variable({r[1]!r}, Reals[{tuple(r[2])!r}])" if r[2] else f"Variable({r[1]!r}, Real)",
    "lambda": lambda r: f"Lambda(Variable({r[1]!r}, Bint[{r[2]}]), {python_of(r[3])})",
    "opstack": lambda r: "ops.stack((" + ", ".join(python_of(p) for p in r[1]) + ",), 0)",
    "opcat": lambda r: "ops.cat((" + ", ".join(python_of(p) for p in r[1]) + ",), 0)",
    "einsum": lambda r: "ops.einsum((" + ", ".join(python_of(p) for p in r[2]) + f",), {r[1]!r})",
    "red": lambda r: (f"ops.{r[1]}({python_of(r[4])}, {r[2]!r}, 0, {r[3]!r})" if r[1] in ("std", "var")
                      else f"ops.{r[1]}({python_of(r[4])}, {r[2]!r}, {r[3]!r})"),
    "reshape": lambda r: f"({python_of(r[2])}).reshape({tuple(r[1])!r})",
    "getslice": lambda r: f"({python_of(r[2])})[{_py_index(r[1])}]",
    "getitem": lambda r: f"({python_of(r[1])})[{python_of(r[2])}]",
    "independent": lambda r: f"Independent({python_of(r[1])}, {r[2]!r}, {r[3]!r}, {r[4]!r})",
    "getsugar": lambda r: f"({python_of(r[1])})[{_py_sugar_index(r[2])}]",
    "unaryf": lambda r: f"ops.{r[1]}({python_of(r[2])})",
    "matmul": lambda r: f"ops.matmul({python_of(r[1])}, {python_of(r[2])})",
    "nreduce": lambda r: (f"(lambda x_: x_.reduce(ops.{r[1]}, frozenset([Variable(n, x_.inputs[n]) for n in {list(r[3])!r}] + "
                          f"[Variable(n, Bint[s]) for n, s in {[tuple(p) for p in r[4]]!r}])))({python_of(r[2])})"),
}

_EXT_CHILDREN = {
    "cmp": lambda r: [((2,), r[2], "real"), ((3,), r[3], "real")],
    "boolbin": lambda r: [((2,), r[2], "bool"), ((3,), r[3], "bool")],
    "not": lambda r: [((1,), r[1], "bool")],
    "rvar": lambda r: [],
    "lambda": lambda r: [((3,), r[3], "other")],
    "opstack": lambda r: [((1, i), p, "other") for i, p in enumerate(r[1])],
    "opcat": lambda r: [((1, i), p, "other") for i, p in enumerate(r[1])],
    "einsum": lambda r: [((2, i), p, "other") for i, p in enumerate(r[2])],
    "red": lambda r: [((4,), r[4], "other")],
    "reshape": lambda r: [((2,), r[2], "other")],
    "getslice": lambda r: [((2,), r[2], "other")],
    "getitem": lambda r: [((1,), r[1], "other"), ((2,), r[2], "int")],
    "independent": lambda r: [((1,), r[1], "other")],
    "unaryf": lambda r: [((2,), r[2], "other")],
    "nreduce": lambda r: [((2,), r[2], "other")],
    "matmul": lambda r: [((1,), r[1], "other"), ((2,), r[2], "other")],
    "getsugar": lambda r: [((1,), r[1], "other")] + [((2, i, 1), it[1], "int") for i, it in enumerate(r[2]) if it[0] == "r"],
}

PY_HEADER += "from funsor.terms import Independent\n"


def _prod(shape):
    n = 1
    for d in shape:
        n *= d
    return n


def _gen_shape(rng, maxrank=2):
    rank = rng.choice([1, 1, 2, 2, 3][:maxrank + 2])
    return tuple(rng.choice([1, 2, 2, 3]) for _ in range(min(rank, maxrank)))


def _bool_tensor(rng, ctx):
    # a genuinely boolean tensor (numpy bool data): comparison of a real tensor with a constant
    t = gen_tensor(rng, ctx, "real")
    return ("cmp", rng.choice(["gt", "ge", "eq"]), t, ("num", float(rng.choice([0, 1])), "real")), set(n for n, _ in t[1])


def _gen_slice_value(rng, ctx, size, free, keys):
    """A Slice (or a Slice composed with a Slice: Slice-into-Slice substitution) selecting positions of an input
    of size `size`, bound to a context name whose size equals the number of selected positions.
    Returns (recipe, name) or None."""
    for _ in range(16):
        m = rng.choice(list(ctx))
        if m in free or m in keys:
            continue
        L = ctx[m]
        if rng.random() < 0.5:
            start, step = rng.randrange(size), rng.choice([1, 1, 2])
            if len(range(start, size, step)) == L:
                return ("slice", m, start, size, step, size), m
            continue
        # outer slice over a temporary name of size L1, inner slice maps m (size L) into it
        s2, st2 = rng.choice([0, 0, 1]), rng.choice([1, 2])
        L1 = s2 + (L - 1) * st2 + 1 + rng.choice([0, 0, 1])
        if len(range(s2, L1, st2)) != L:
            continue
        start, step = rng.choice([0, 1]), rng.choice([1, 2])
        stop = start + (L1 - 1) * step + 1
        if stop > size or len(range(start, stop, step)) != L1:
            continue
        return ("subs", ("slice", "s_", start, stop, step, size), (("s_", ("slice", m, s2, L1, st2, L1)),)), m
    return None


def _gen_getsugar(rng, ctx, depth, shape, opts):
    """a[:, …, idx(, …)] producing event shape `shape`: index ONE output dim (any offset) of an array of rank
    len(shape)+1 — sizes drawn so that neighbouring dims are often EQUAL (square shapes hide a wrongly permuted
    axis) — by a number / context variable / fresh name / index tensor; written with `:` or Ellipsis."""
    off = rng.randrange(0, len(shape) + 1)
    near = [d for d in shape] or [2, 3]
    n = rng.choice(near + near + [1, 2, 3])
    src = tuple(shape[:off]) + (n,) + tuple(shape[off:])
    a, fa = gen_ext(rng, ctx, depth - 1, ("array", src), opts)
    r2 = rng.random()
    if r2 < 0.25:
        # a fresh index name; the name encodes the size so that two occurrences in one recipe never give the
        # same input name two different domains (that would be an ill-typed expression)
        g = f"g{n}"
        item, fi = ("n", g), {g}
        if g in fa:
            return None
    else:
        idx, fi = gen_leaf(rng, ctx, n)
        item = ("r", idx)
    if off > 0 and off == len(src) - 1 and rng.random() < 0.4:
        items = (("e",), item)
    else:
        items = tuple(("s",) for _ in range(off)) + (item,)
        if rng.random() < 0.2 and off < len(src) - 1:
            items = items + (("e",),)
    return ("getsugar", a, items), fa | fi


def gen_ext(rng, ctx, depth, kind="real", opts=None):
    """Extended generator (see the table above).  Returns (recipe, free_names)."""
    opts = opts or {}
    rvars = opts.get("rvars", {})

    def rec(d, k, c=None):
        return gen_ext(rng, ctx if c is None else c, d, k, opts)

    if isinstance(kind, int):
        return gen_expr(rng, ctx, min(depth, 1), kind)
    if kind == "bool":
        c = rng.random()
        if depth <= 0 or c < 0.15:
            return _bool_tensor(rng, ctx)
        if c < 0.55:
            a, fa = rec(depth - 1, "real")
            b, fb = rec(depth - 1, "real")
            return ("cmp", rng.choice(BIN_CMP), a, b), fa | fb
        if c < 0.8:
            a, fa = rec(depth - 1, "bool")
            b, fb = rec(depth - 1, "bool")
            return ("boolbin", rng.choice(["and", "or", "xor"]), a, b), fa | fb
        if c < 0.9:
            a, fa = rec(depth - 1, "bool")
            return ("not", a), fa
        a, fa = rec(depth - 1, "bool")
        present = sorted(fa)
        if not present:
            return a, fa
        rv = [n for n in present if rng.random() < 0.6] or [rng.choice(present)]
        absent = [n for n in ctx if n not in fa and rng.random() < 0.15]
        return ("reduce", rng.choice(["and", "or"]), a, tuple(rv), tuple((n, ctx[n]) for n in absent)), fa - set(rv)
    if isinstance(kind, tuple) and kind[0] == "array":
        shape = tuple(kind[1])
        if not shape:
            return rec(depth, "real")
        c = rng.random()
        if depth > 0 and len(shape) <= 2 and rng.random() < 0.10:
            g = _gen_getsugar(rng, ctx, depth, shape, opts)
            if g is not None:
                return g
        if depth <= 0 or c < 0.18:
            avail = [(n, sh) for n, sh in rvars.items() if tuple(sh) == shape]
            if avail and rng.random() < 0.4:
                n, sh = rng.choice(avail)
                return ("rvar", n, tuple(sh)), {n}
            t = gen_tensor(rng, ctx, "real", event_shape=shape)
            return t, set(n for n, _ in t[1])
        if c < 0.32:
            # Lambda over a context name of the right size, or over a fresh name (broadcast)
            cands = [n for n, s in ctx.items() if s == shape[0]]
            if cands and rng.random() < 0.8:
                name = rng.choice(cands)
            else:
                name = "w"
            c2 = dict(ctx)
            c2[name] = shape[0]
            body, fb = rec(depth - 1, ("array", shape[1:]) if len(shape) > 1 else "real", c2)
            return ("lambda", name, shape[0], body), fb - {name}
        if c < 0.42:
            parts = [rec(depth - 1, ("array", shape[1:]) if len(shape) > 1 else "real") for _ in range(shape[0])]
            return ("opstack", tuple(p[0] for p in parts)), set().union(*[p[1] for p in parts])
        if c < 0.48 and shape[0] >= 2:
            cut = rng.randrange(1, shape[0])
            parts = [rec(depth - 1, ("array", (k,) + shape[1:])) for k in (cut, shape[0] - cut)]
            return ("opcat", tuple(p[0] for p in parts)), set().union(*[p[1] for p in parts])
        if c < 0.62:
            a, fa = rec(depth - 1, ("array", shape))
            # broadcast partner: same shape, a suffix of it, ones in some places, or a scalar
            r2 = rng.random()
            if r2 < 0.4:
                bshape = shape
            elif r2 < 0.6:
                bshape = shape[rng.randrange(0, len(shape)):]
            elif r2 < 0.8:
                bshape = tuple(d if rng.random() < 0.5 else 1 for d in shape)
            else:
                bshape = ()
            b, fb = rec(depth - 1, ("array", bshape) if bshape else "real")
            if rng.random() < 0.5:
                a, b = b, a
            return ("binary", rng.choice(BIN_REAL), a, b), fa | fb
        if c < 0.67:
            a, fa = rec(depth - 1, ("array", shape))
            return ("unary", rng.choice(["neg", "abs"]), a), fa
        if c < 0.77:
            # reduction over one output axis of a bigger array (or keepdims)
            keep = rng.random() < 0.35
            if keep:
                ones = [i for i, d in enumerate(shape) if d == 1]
                if not ones:
                    return rec(depth - 1, ("array", shape))
                ax = rng.choice(ones)
                src = shape[:ax] + (rng.choice([1, 2, 3]),) + shape[ax + 1:]
            else:
                if len(shape) >= 3:
                    return rec(depth - 1, ("array", shape))
                ax = rng.randrange(0, len(shape) + 1)
                src = shape[:ax] + (rng.choice([1, 2, 3]),) + shape[ax:]
            a, fa = rec(depth - 1, ("array", src))
            axis = ax if rng.random() < 0.5 else ax - len(src)
            return ("red", rng.choice(["sum", "sum", "prod", "amax", "amin"]), axis, keep, a), fa
        if c < 0.84:
            n = _prod(shape)
            cands = [(n,)] + [(a_, n // a_) for a_ in (1, 2, 3) if n % a_ == 0] + [shape[::-1]]
            src = rng.choice([s_ for s_ in cands if len(s_) <= 3])
            a, fa = rec(depth - 1, ("array", tuple(src)))
            return ("reshape", shape, a), fa
        if c < 0.91:
            # x[start:stop:step] on the first axis, optionally an int on a dropped leading axis
            step = rng.choice([1, 1, 2])
            start = rng.choice([0, 0, 1])
            srclen = start + (shape[0] - 1) * step + 1 + rng.choice([0, 0, 1])
            stop = min(srclen, start + (shape[0] - 1) * step + 1 + (step - 1) * rng.choice([0, 1]))
            if srclen > 4:
                return rec(depth - 1, ("array", shape))
            if rng.random() < 0.3 and len(shape) <= 1:
                lead = rng.choice([1, 2, 3])
                a, fa = rec(depth - 1, ("array", (lead, srclen) + shape[1:]))
                return ("getslice", (("i", rng.randrange(lead)), ("s", start, stop, step)), a), fa
            a, fa = rec(depth - 1, ("array", (srclen,) + shape[1:]))
            return ("getslice", (("s", start, stop, step),), a), fa
        # einsum producing this shape
        letters = "abcd"[:len(shape)]
        k = rng.choice([1, 2, 3])
        r2 = rng.random()
        if len(shape) == 2 and r2 < 0.4:
            a, fa = rec(depth - 1, ("array", (shape[0], k)))
            b, fb = rec(depth - 1, ("array", (k, shape[1])))
            return ("einsum", "az,zb->ab", (a, b)), fa | fb
        if len(shape) == 2 and r2 < 0.6:
            a, fa = rec(depth - 1, ("array", (shape[1], shape[0])))
            return ("einsum", "ba->ab", (a,)), fa
        if len(shape) == 2 and r2 < 0.8:
            a, fa = rec(depth - 1, ("array", (shape[0],)))
            b, fb = rec(depth - 1, ("array", (shape[1],)))
            return ("einsum", "a,b->ab", (a, b)), fa | fb
        if len(shape) == 1:
            a, fa = rec(depth - 1, ("array", (shape[0], k)))
            b, fb = rec(depth - 1, ("array", (k,)))
            return ("einsum", "az,z->a", (a, b)), fa | fb
        a, fa = rec(depth - 1, ("array", shape + (k,)))
        return ("einsum", letters + "z->" + letters, (a,)), fa
    # ---- real scalars -------------------------------------------------------------------------
    c = rng.random()
    if depth <= 0 or c < 0.12:
        if rvars and rng.random() < 0.5:
            avail = [n for n, sh in rvars.items() if not sh]
            if avail:
                n = rng.choice(avail)
                return ("rvar", n, ()), {n}
        return gen_leaf(rng, ctx, "real")
    if c < 0.30:
        a, fa = rec(depth - 1, "real")
        b, fb = rec(depth - 1, "real")
        return ("binary", rng.choice(BIN_REAL), a, b), fa | fb
    if c < 0.35:
        a, fa = rec(depth - 1, "real")
        return ("unary", rng.choice(["neg", "abs"]), a), fa
    if c < 0.50:
        a, fa = rec(depth - 1, "real")
        op = rng.choice(RED_OPS)
        present = sorted(n for n in fa if n in ctx)
        rv = [n for n in present if rng.random() < 0.6]
        absent = [n for n in ctx if n not in fa and rng.random() < 0.15]
        if not rv and not absent:
            if present:
                rv = [rng.choice(present)]
            elif ctx:
                absent = [rng.choice(list(ctx))]
            else:
                return a, fa
        return ("reduce", op, a, tuple(rv), tuple((n, ctx[n]) for n in absent)), fa - set(rv)
    if c < 0.62:
        a, fa = rec(depth - 1, "real")
        keysrc = sorted(n for n in fa if n in ctx)
        if not keysrc:
            return a, fa
        keys = _subset(rng, keysrc, 0.5) or [rng.choice(keysrc)]
        subs = []
        free = set(fa) - set(keys)
        for k_ in keys:
            size = ctx[k_]
            r2 = rng.random()
            cands = [n for n, s_ in ctx.items() if s_ == size and n != k_]
            sl = _gen_slice_value(rng, ctx, size, free, keys) if r2 >= 0.55 else None
            if sl is not None:
                subs.append((k_, sl[0]))
                free.add(sl[1])
            elif r2 < 0.35 or not cands:
                subs.append((k_, ("num", rng.randrange(size), size)))
            elif r2 < 0.7:
                n = rng.choice(cands)
                subs.append((k_, ("var", n, size)))
                free.add(n)
            else:
                v, fv_ = gen_leaf(rng, ctx, size)
                subs.append((k_, v))
                free |= fv_
        return ("subs", a, tuple(subs)), free
    if c < 0.68 and ctx:
        name = rng.choice(list(ctx))
        sub = {k_: v for k_, v in ctx.items() if k_ != name}
        parts = [gen_ext(rng, sub, depth - 1, "real", opts) for _ in range(ctx[name])]
        return ("stack", name, tuple(p[0] for p in parts)), set().union({name}, *[p[1] for p in parts])
    if c < 0.72:
        g = _gen_getsugar(rng, ctx, depth, (), opts)
        if g is not None:
            return g
    if c < 0.78:
        # index an array-valued expression with an integer-valued funsor
        n = rng.choice([1, 2, 3])
        a, fa = rec(depth - 1, ("array", (n,)))
        idx, fi = gen_leaf(rng, ctx, n)
        return ("getitem", a, idx), fa | fi
    if c < 0.90:
        shape = _gen_shape(rng)
        a, fa = rec(depth - 1, ("array", shape))
        return ("red", rng.choice(["sum", "sum", "prod", "amax", "amin"]), None, rng.random() < 0.15 and False, a), fa
    if c < 0.96:
        k = rng.choice([1, 2, 3])
        a, fa = rec(depth - 1, ("array", (k,)))
        b, fb = rec(depth - 1, ("array", (k,)))
        return ("einsum", "z,z->", (a, b)), fa | fb
    if ctx:
        name = rng.choice(list(ctx))
        body, fb = rec(depth - 1, "real")
        idx, fi = gen_leaf(rng, ctx, ctx[name])
        return ("lamget", name, ctx[name], body, idx), (fb - {name}) | fi
    return gen_leaf(rng, ctx, "real")
