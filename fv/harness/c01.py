"""
C01 — eager evaluation returns the mathematical value of the expression.

Correspondence: each generated expression is built twice through funsor's public API — under the
default (eager) interpretation, giving the implementation's result, and under `reflect`, giving
pure syntax which is serialised and sent to the Lean driver, whose `denote` (Model/Term.lean) is the
textbook meaning.  Both are tabulated over the whole finite input space and compared exactly.
"""
import itertools
from collections import OrderedDict

import numpy as np

from ..common import sx
from .. import futil, ser, gen_terms
from ..futil import funsor, Tensor, Number
from funsor.interpretations import reflect


def gen_ctx(rng):
    names = ["i", "j", "k", "l"]
    n = rng.choice([1, 2, 2, 3, 3, 4])
    ctx = OrderedDict()
    for nm in names[:n]:
        ctx[nm] = rng.choice([1, 2, 2, 3, 3, 4])
    return ctx


def run_case(ctx_, rng, depth):
    ctx = gen_ctx(rng)
    recipe, free = gen_terms.gen_expr(rng, ctx, depth, "real")
    return ctx, recipe, free


def evaluate(recipe):
    """-> ("value", funsor) | ("declined", reason)"""
    try:
        r = gen_terms.build(recipe)
    except (NotImplementedError, AssertionError, ValueError, TypeError, KeyError, IndexError) as e:
        return ("declined", f"{type(e).__name__}: {str(e)[:80]}")
    return ("value", r)


def syntax(recipe):
    with reflect:
        return gen_terms.build(recipe)


def disagrees(ctx, recipe):
    """True iff eager value and Lean denote differ somewhere (used by the shrinker and by replay)."""
    try:
        syn = syntax(recipe)
        wire = ser.to_wire(syn)
    except Exception:
        return False
    ins = sorted((k, int(v.size)) for k, v in syn.inputs.items())
    status, val = evaluate(recipe)
    if status != "value":
        return False
    if set(val.inputs) - set(n for n, _ in ins):
        return True
    try:
        impl = ser.impl_values(val, ins)
    except (KeyError, ValueError):
        return True
    if impl is None:
        return False
    model = ser.parse_table(ctx.driver.ask1(f"C01 denote {sx(wire)} {sx(ser.ins_wire(ins))} ()"))
    if model is None or any(m is None for m in model):
        return False
    return not ser.tables_equal(impl, model)[0]


def replay_python(recipe, ins):
    return (gen_terms.PY_HEADER + f"expr = {gen_terms.python_of(recipe)}\nprint(expr)\n"
            f"print(expr.inputs, getattr(expr, 'data', None))\nFAILS = True  # compare with the expected table in this replay file\n")


def correspond(ctx):
    rng = ctx.rng
    n = 1500 if ctx.tier == "quick" else 40000
    ctx.rule = ("random type-directed expressions (fv/gen_terms.py) of depth <= 4 over 1-4 named Bint inputs of sizes 1-4: "
                "tensors, numbers, integer variables, binary/unary ops, reductions (incl. over variables the argument "
                "does not mention), substitutions (numbers, renamings incl. collisions, index tensors, slices), Stack, Cat, "
                "Lambda+getitem; each decided on its whole input space against Lean `denote`. Non-trivial = expression "
                "with >= 3 constructors whose eager result is a Tensor depending on >= 1 input; distinct by full content.")
    cases = []
    for _ in range(n):
        depth = rng.choice([1, 2, 2, 3, 3, 4])
        c, recipe, free = run_case(ctx, rng, depth)
        cases.append((c, recipe, free))
    reqs = []
    meta = []
    for c, recipe, free in cases:
        try:
            syn = syntax(recipe)
            wire = ser.to_wire(syn)
        except ser.Unsupported as e:
            ctx.count(f"beyond-model:{e}")
            continue
        except (NotImplementedError, AssertionError, ValueError, TypeError, KeyError, IndexError) as e:
            ctx.count(f"ill-formed:{type(e).__name__}")
            continue
        ins = sorted((k, int(v.size)) for k, v in syn.inputs.items())
        if any(getattr(v, "shape", ()) for v in syn.inputs.values()):
            ctx.count("beyond-model:array-input")
            continue
        status, val = evaluate(recipe)
        meta.append((c, recipe, ins, syn, status, val))
        reqs.append(f"C01 denote {sx(wire)} {sx(ser.ins_wire(ins))} ()")
    answers = ctx.driver.ask(reqs)
    for (c, recipe, ins, syn, status, val), ans in zip(meta, answers):
        ctx.count(f"root:{recipe[0]}")
        model = ser.parse_table(ans)
        if model is None:
            ctx.infra_errors.append(f"driver: {ans} for {gen_terms.describe(recipe)}")
            continue
        if any(m is None for m in model):
            ctx.count("spec-undefined")   # e.g. an operation outside the exact fragment
            ctx.case()
            continue
        if status == "declined":
            ctx.count(f"impl-declined:{val.split(':')[0]}")
            ctx.case()
            continue
        extra = set(val.inputs) - set(n for n, _ in ins)
        if extra:
            ctx.fail("input", "C01.result-has-foreign-input", witness=gen_terms.describe(recipe),
                     expected=f"inputs ⊆ {ins}", got=str(list(val.inputs)), python=replay_python(recipe, ins))
            continue
        try:
            impl = ser.impl_values(val, ins)
        except (KeyError, ValueError) as e:
            ctx.fail("input", "C01.result-inputs", witness=gen_terms.describe(recipe), got=str(e),
                     expected=str(ins), python=replay_python(recipe, ins))
            continue
        if impl is None:
            ctx.count("impl-lazy")
            ctx.case()
            continue
        ok, bad = ser.tables_equal(impl, model)
        if not ok:
            small = gen_terms.shrink(recipe, lambda r: disagrees(ctx, r))
            if small is not recipe:
                ctx.fail("input", "C01.eager-ne-denote", witness=gen_terms.describe(small),
                         expected="Lean denote of the expression (see python to reproduce)",
                         got="eager result differs", python=replay_python(small, None))
                continue
            ctx.fail("input", "C01.eager-ne-denote", witness=gen_terms.describe(recipe),
                     expected=str(model[bad] if bad is not None and bad >= 0 else model)[:600],
                     got=str(impl[bad] if bad is not None and bad >= 0 else impl)[:600],
                     python=replay_python(recipe, ins))
            continue
        nontrivial = gen_terms.recipe_size(recipe) >= 3 and isinstance(val, Tensor) and len(val.inputs) >= 1
        ctx.case(sample={"expr": gen_terms.python_of(recipe)[:300], "inputs": ins},
                 nontrivial_key=repr(gen_terms.describe(recipe)) if nontrivial else None)
    ctx.assumptions.append("transcendental ops (exp, log, sigmoid, …) are outside the exact fragment of Model/Term.lean")
