"""
C01 — eager evaluation returns the mathematical value of the expression.

Each generated expression ("recipe", fv/gen_terms.py) is built through funsor's public API

  * under the default (eager) interpretation  -> the implementation's result (Tensor / Number / lazy / error),
  * under `reflect`                            -> pure syntax, serialised (fv/ser.py) and sent to the Lean driver.

The driver answers with (i) the textbook value `denote` (Model/Term.lean, + Model/C01Ext.lean for
einsum/stack/cat ops) tabulated over the whole finite input space, and (ii) `peval`, the positional
named-tensor model of eager evaluation (Model/C01.lean) about which Props/C01 proves `peval_sound` and
`peval_total_core`.

Gates (what the property states):
  G1  whenever eager evaluation returns a ground value (after binding real inputs at sample points),
      every cell equals `denote`                                               -> C01.eager-ne-denote
  G2  the result has no input the expression does not have                     -> C01.result-has-foreign-input
  G3  completeness: on the ground core fragment (`is_core`) eager evaluation returns a Tensor/Number;
      a lazy result or an exception there is a violation                       -> C01.core-incomplete
Echo of the theorems (a mismatch means the Lean side is inconsistent -> infrastructure error):
  peval table = denote table whenever peval is defined; peval is defined whenever Lean `isCore`.
Model fidelity (counted, NOT gated): ordered `.inputs` and raw `.data` layout of the eager result
vs the NT model.
"""
import itertools
import contextlib
from collections import OrderedDict
from fractions import Fraction

import numpy as np

from ..common import sx, parse_sx, atom_to_num
from .. import futil, ser, gen_terms
from ..futil import funsor, Tensor, Number, Variable, Bint, Real, Reals, ops
from funsor.interpretations import reflect
from funsor.terms import Reduce, Funsor, to_funsor, Lambda, Independent

DECLINE = (NotImplementedError, AssertionError, ValueError, TypeError, KeyError, IndexError, AttributeError)
KF_MINMAX = "KF-minmax-mul-negative"
KF_REDUCE_ANDOR = "KF-reduce-andor-logical-on-ints"


# ---------------------------------------------------------------------------------------------
# building
# ---------------------------------------------------------------------------------------------

def _tolerant_alpha_convert(self, alpha_subs):
    # Reduce over a variable the argument does not mention cannot be *constructed* under `reflect`
    # (Reduce._alpha_convert looks the bound variable's domain up in arg.inputs: KeyError).  Only for
    # building the SYNTAX that is sent to Lean we take the domain from the reduced variable itself.
    doms = {v.name: v.output for v in self.reduced_vars}
    alpha_subs = {k: to_funsor(v, doms[k]) for k, v in alpha_subs.items()}
    op, arg, reduced_vars = Funsor._alpha_convert(self, alpha_subs)
    reduced_vars = frozenset(alpha_subs.get(var.name, var) for var in reduced_vars)
    return op, arg, reduced_vars


@contextlib.contextmanager
def syntax_mode():
    orig = Reduce._alpha_convert
    Reduce._alpha_convert = _tolerant_alpha_convert
    try:
        with reflect:
            yield
    finally:
        Reduce._alpha_convert = orig


def syntax(recipe):
    with syntax_mode():
        return gen_terms.build(recipe)


def evaluate(recipe):
    """-> ("value", funsor) | ("declined", reason)"""
    try:
        r = gen_terms.build(recipe)
    except DECLINE as e:
        return ("declined", f"{type(e).__name__}: {str(e)[:80]}")
    return ("value", r)


def gen_ctx(rng):
    names = ["i", "j", "k", "l"]
    n = rng.choice([1, 2, 2, 3, 3, 4])
    ctx = OrderedDict()
    for nm in names[:n]:
        ctx[nm] = rng.choice([1, 2, 2, 3, 3, 4])
    return ctx


# ---------------------------------------------------------------------------------------------
# recipe predicates
# ---------------------------------------------------------------------------------------------

def subrecipes(r):
    yield r
    for _, child, _ in gen_terms._children(r):
        yield from subrecipes(child)
    if r[0] == "subs":
        pass


def tags_of(r):
    return {x[0] for x in subrecipes(r)}


CORE_BIN = {"add", "sub", "mul", "max", "min"}
CORE_RED = {"add", "mul", "max", "min"}


def core_kind(r):
    """"T" / "N": `r` is in the documented ground core fragment and evaluates to a Tensor / Number;
    None: outside.  Conservative on purpose (the completeness gate must never alarm on behaviour funsor
    documents): tensors, numbers, pointwise + - * max min, neg/abs, reductions add/mul/max/min over
    variables the argument has, substitution of numbers / variables / tensors, Stack of tensor-valued
    parts (a Stack containing a Number stays a lazy Stack by design), Cat of tensors, Lambda + getitem by a
    number / tensor.  Real scalar outputs."""
    t = r[0]
    if t == "tensor":
        return "T" if r[2] == "real" and not r[3] else None
    if t == "num":
        return "N" if r[2] == "real" else None
    if t == "binary":
        if r[1] not in CORE_BIN:
            return None
        a, b = core_kind(r[2]), core_kind(r[3])
        if a is None or b is None:
            return None
        return "T" if "T" in (a, b) else "N"
    if t == "unary":
        return core_kind(r[2]) if r[1] in ("neg", "abs") else None
    if t == "reduce":
        if not (r[1] in CORE_RED and not r[4] and core_kind(r[2]) == "T"):
            return None
        # the reduced variables (given by NAME) must really be inputs of the argument, syntactically and after
        # eager evaluation (which may drop inputs the value does not depend on: `.reduce(op, "k")` then
        # raises KeyError — a decline by design, so such expressions are outside the fragment)
        try:
            have = set(syntax(r[2]).inputs)
            s_, v_ = evaluate(r[2])
            if s_ == "value":
                have &= set(v_.inputs)
        except Exception:
            return None
        return "T" if r[3] and set(r[3]) <= have else None
    if t == "subs":
        if not all(v[0] in ("num", "var", "tensor") for _, v in r[2]):
            return None
        return core_kind(r[1])
    if t == "stack":
        return "T" if all(core_kind(p) == "T" for p in r[2]) else None
    if t == "cat":
        return "T" if all(p[0] == "tensor" and core_kind(p) == "T" for p in r[2]) else None
    if t == "lamget":
        return core_kind(r[3]) if r[4][0] in ("num", "tensor") else None
    return None


def is_core(r):
    return core_kind(r) is not None


def _has_mul(r):
    return any(x[0] == "binary" and x[1] == "mul" for x in subrecipes(r)) or \
        any(x[0] in ("einsum", "independent") for x in subrecipes(r))


def minmax_mul_region(r):
    """Region of the open finding KF-minmax-mul-negative: a max/min reduction (over named inputs) of an
    argument that contains a product and does not evaluate to a ground Tensor/Number (the product stays
    lazy and cnf.py pushes max/min into the factors as if (max,mul)/(min,mul) were distributive)."""
    for x in subrecipes(r):
        if x[0] == "reduce" and x[1] in ("max", "min") and _has_mul(x[2]):
            s, v = evaluate(x[2])
            if s != "value" or not isinstance(v, (Tensor, Number)):
                return True
    return False


def number_bool_region(r):
    """`~`, `&`, `|`, `^` on a *Number* boolean are python-int bitwise ops (~False == -1): outside the
    exact fragment (the spec's are logical); only numpy-bool Tensors are compared."""
    for x in subrecipes(r):
        if x[0] in ("not", "boolbin"):
            for ch in (x[1:2] if x[0] == "not" else x[2:4]):
                s, v = evaluate(ch)
                if s == "value" and isinstance(v, Number):
                    return True
    return False


def in_open_region(ctx, r):
    t = tags_of(r)
    if ("not" in t or "boolbin" in t) and number_bool_region(r):
        ctx.count("skipped-beyond-model:bitwise-number-bool")
        return True
    if "reduce" in t and minmax_mul_region(r):
        ctx.count("skipped-open-finding-region:" + KF_MINMAX)
        return True
    return False


# ---------------------------------------------------------------------------------------------
# Python-side oracle (used by `search`, works without Lean): pointwise evaluation of a recipe
# ---------------------------------------------------------------------------------------------

NPBIN = {"add": np.add, "sub": np.subtract, "mul": np.multiply, "max": np.maximum, "min": np.minimum,
         "eq": np.equal, "ne": np.not_equal, "lt": np.less, "le": np.less_equal, "gt": np.greater,
         "ge": np.greater_equal, "and": np.logical_and, "or": np.logical_or, "xor": np.logical_xor}
NPRED = {"sum": np.sum, "prod": np.prod, "amax": np.amax, "amin": np.amin, "all": np.all, "any": np.any,
         "mean": np.mean, "std": np.std, "var": np.var,
         "logsumexp": lambda x, axis=None, keepdims=False: np.log(np.sum(np.exp(np.asarray(x, dtype=float)), axis=axis, keepdims=keepdims))}


def _sizes_in(recipe, names):
    syn = syntax(recipe)
    return [int(syn.inputs[n].size) for n in names]


def py_eval(r, env):
    """Value (ndarray) of recipe `r` at the point `env` (name -> int | float | ndarray)."""
    t = r[0]
    if t == "tensor":
        return np.asarray(r[4], dtype=float)[tuple(int(env[n]) for n, _ in r[1])]
    if t == "num":
        return np.asarray(float(r[1]))
    if t in ("var", "rvar"):
        return np.asarray(env[r[1]], dtype=float)
    if t in ("binary", "cmp", "boolbin"):
        return np.asarray(NPBIN[r[1]](py_eval(r[2], env), py_eval(r[3], env)), dtype=float)
    if t == "unary":
        a = py_eval(r[2], env)
        return -a if r[1] == "neg" else np.abs(a)
    if t == "not":
        return 1.0 - py_eval(r[1], env)
    if t == "reduce":
        _, op, a, rv, absent = r
        names = list(rv) + [n for n, _ in absent]
        sizes = _sizes_in(a, rv) + [s for _, s in absent]
        acc = None
        for pt in itertools.product(*[range(s) for s in sizes]):
            v = py_eval(a, {**env, **dict(zip(names, pt))})
            acc = v if acc is None else np.asarray(NPBIN[op](acc, v), dtype=float)
        return acc
    if t == "subs":
        bound = {}
        for k, v in r[2]:
            bound[k] = int(py_eval(v, env))
        return py_eval(r[1], {**env, **bound})
    if t == "slice":
        return np.asarray(float(r[2] + r[4] * int(env[r[1]])))
    if t == "stack":
        return py_eval(r[2][int(env[r[1]])], env)
    if t == "cat":
        g = int(env[r[1]])
        for p in r[2]:
            size = _sizes_in(p, [r[1]])[0]
            if g < size:
                return py_eval(p, {**env, r[1]: g})
            g -= size
        raise IndexError
    if t == "lamget":
        _, name, size, body, idx = r
        return py_eval(body, {**env, name: int(py_eval(idx, env))})
    if t == "lambda":
        return np.stack([py_eval(r[3], {**env, r[1]: i}) for i in range(r[2])])
    if t == "opstack":
        parts = [py_eval(p, env) for p in r[1]]
        return np.stack(np.broadcast_arrays(*parts))
    if t == "opcat":
        return np.concatenate([py_eval(p, env) for p in r[1]], 0)
    if t == "einsum":
        return np.asarray(np.einsum(r[1], *[py_eval(p, env) for p in r[2]]), dtype=float)
    if t == "red":
        return np.asarray(NPRED[r[1]](py_eval(r[4], env), axis=r[2], keepdims=r[3]), dtype=float)
    if t == "reshape":
        return py_eval(r[2], env).reshape(tuple(r[1]))
    if t == "getslice":
        return py_eval(r[2], env)[gen_terms._index_of(r[1])]
    if t == "getitem":
        return py_eval(r[1], env)[int(py_eval(r[2], env))]
    if t == "nreduce":
        _, op, a, own, foreign = r
        names = list(own) + [n for n, _ in foreign]
        sizes = _sizes_in(a, own) + [s_ for _, s_ in foreign]
        block = np.stack([np.asarray(py_eval(a, {**env, **dict(zip(names, pt))}), dtype=float)
                          for pt in itertools.product(*[range(s_) for s_ in sizes])])
        return {"mean": np.mean, "var": np.var, "std": np.std}[op](block, axis=0)
    if t == "matmul":
        return np.asarray(np.matmul(py_eval(r[1], env), py_eval(r[2], env)), dtype=float)
    if t == "getsugar":
        a = py_eval(r[1], env)
        index = []
        for it in r[2]:
            if it[0] == "s":
                index.append(slice(None))
            elif it[0] == "e":
                index.append(Ellipsis)
            elif it[0] == "none":
                index.append(None)
            elif it[0] == "sl":
                index.append(slice(it[1], it[2], it[3]))
            elif it[0] == "i":
                index.append(int(it[1]))
            elif it[0] == "n":
                index.append(int(env[it[1]]))
            else:
                index.append(int(py_eval(it[1], env)))
        return a[tuple(index)]
    if t == "independent":
        _, fn, rv, bv, dv = r
        x = np.asarray(env[rv], dtype=float)
        return sum(py_eval(fn, {**env, bv: i, dv: x[i]}) for i in range(x.shape[0]))
    raise ValueError(t)


def py_table(recipe, ins, env):
    out = []
    for p in itertools.product(*[range(s) for _, s in ins]):
        v = np.asarray(py_eval(recipe, {**env, **{n: i for (n, _), i in zip(ins, p)}}), dtype=float)
        out.append((list(v.shape), [futil.exact(x) for x in v.reshape(-1)]))
    return out


# ---------------------------------------------------------------------------------------------
# one case
# ---------------------------------------------------------------------------------------------

class Case:
    __slots__ = ("stream", "recipe", "env", "syn", "wire", "ins", "status", "val", "core")

    def __init__(self, stream, recipe, env=None):
        self.stream, self.recipe, self.env = stream, recipe, (env or {})


def prepare(ctx, c):
    """Build syntax + wire + eager value.  Returns False when the case is dropped (counted)."""
    try:
        c.syn = syntax(c.recipe)
        c.wire = ser.to_wire(c.syn, ext=True)
    except ser.Unsupported as e:
        ctx.count(f"{c.stream}:beyond-model:{str(e)[:40]}")
        return False
    except DECLINE as e:
        ctx.count(f"{c.stream}:ill-formed:{type(e).__name__}")
        return False
    c.ins = sorted((k, int(v.size)) for k, v in c.syn.inputs.items() if k not in c.env)
    for k, v in c.syn.inputs.items():
        if k not in c.env and (v.dtype == "real" or v.shape):
            ctx.count(f"{c.stream}:beyond-model:unbound-real-input")
            return False
    c.core = is_core(c.recipe)
    c.status, c.val = evaluate(c.recipe)
    return True


def replay_python(recipe, env=None, expected=None, ins=None):
    """Self-contained snippet: rebuilds the expression with funsor's public API, binds `env`, tabulates the
    result over the sorted integer inputs `ins` and compares with the `expected` table (from Lean `denote`).
    Sets FAILS."""
    bind = ""
    if env:
        bind = "expr = expr(**{" + ", ".join(f"{k!r}: np.array({np.asarray(v).tolist()!r})" for k, v in env.items()) + "})\n"
    head = gen_terms.PY_HEADER + f"expr = {gen_terms.python_of(recipe)}\n" + bind + "print(expr)\n"
    if expected is None or ins is None:
        return head + "FAILS = True   # (no expected table recorded: see 'expected'/'got' in this replay file)\n"
    exp = [[float(x) for x in cell[1]] for cell in expected]
    return head + f"""import itertools
ins = {list(ins)!r}
expected = {exp!r}
got = []
for p in itertools.product(*[range(s) for _, s in ins]):
    g = expr(**{{n: i for (n, _), i in zip(ins, p) if n in expr.inputs}})
    got.append(np.asarray(g.data, dtype=float).reshape(-1).tolist())
print('expected', expected)
print('got     ', got)
FAILS = not (len(got) == len(expected) and all(len(a) == len(b) and np.allclose(a, b, equal_nan=True) for a, b in zip(got, expected)))
""".replace("inf", "float('inf')").replace("nan", "float('nan')").replace("equal_float('nan')", "equal_nan")


def denote_table(ctx, recipe, env):
    try:
        syn = syntax(recipe)
        wire = ser.to_wire(syn, ext=True)
    except Exception:
        return None, None
    ins = sorted((k, int(v.size)) for k, v in syn.inputs.items() if k not in (env or {}))
    tab = ser.parse_table(ctx.driver.ask1(
        f"C01 denote {sx(wire)} {sx(ser.ins_wire(ins))} {sx(ser.env_wire(env or {}))}"))
    if tab is None or any(m is None for m in tab):
        return None, ins
    return tab, ins


def bind_env(c):
    """Bind the real-valued free inputs at the sample point (may raise: a decline)."""
    f = c.val
    if c.env:
        f = f(**{k: v for k, v in c.env.items() if k in f.inputs})
    return f


def impl_table(c, bound=None):
    return ser.impl_values(c.val if bound is None else bound, c.ins)


def nt_of_answer(ans):
    """`ok none` -> None ; `ok (nt ((n s)*) (shape*) (data*))` -> (inputs, shape, data list)"""
    if not ans.startswith("ok"):
        raise ValueError(ans)
    body = ans[3:].strip()
    if body == "none":
        return None
    t = parse_sx(body)
    _, ins, shape, data = t
    return ([(str(n), int(s)) for n, s in ins], [int(s) for s in shape], [atom_to_num(x) for x in data])


def nt_table(nt, ins, env_unused=None):
    inputs, shape, data = nt
    arr = np.empty(len(data), dtype=object)
    for i, x in enumerate(data):
        arr[i] = x
    arr = arr.reshape(tuple(s for _, s in inputs) + tuple(shape))
    names = [n for n, _ in ins]
    for n, _ in inputs:
        if n not in names:
            raise KeyError(n)
    out = []
    for p in itertools.product(*[range(s) for _, s in ins]):
        pt = dict(zip(names, p))
        cell = arr[tuple(pt[n] for n, _ in inputs)]
        cell = np.asarray(cell, dtype=object).reshape(-1)
        out.append((list(shape), list(cell)))
    return out


def disagrees(ctx, recipe, env=None):
    """True iff the eager value and Lean `denote` differ somewhere (shrinker / replay)."""
    c = Case("shrink", recipe, env)
    try:
        c.syn = syntax(recipe)
        c.wire = ser.to_wire(c.syn, ext=True)
    except Exception:
        return False
    c.ins = sorted((k, int(v.size)) for k, v in c.syn.inputs.items() if k not in c.env)
    c.status, c.val = evaluate(recipe)
    if c.status != "value":
        return False
    if set(c.val.inputs) - set(c.syn.inputs):
        return True
    try:
        bound = bind_env(c)
    except DECLINE:
        return False
    try:
        impl = impl_table(c, bound)
    except (KeyError, ValueError):
        return True
    if impl is None:
        return False
    if beyond_float(recipe, env or {}):
        return False
    model = ser.parse_table(ctx.driver.ask1(
        f"C01 denote {sx(c.wire)} {sx(ser.ins_wire(c.ins))} {sx(ser.env_wire(c.env))}"))
    if model is None or any(m is None for m in model):
        return False
    return not ser.tables_equal(impl, model)[0] and not not_float_exact(model, impl, env or {})


def run_cases(ctx, cases):
    """The pipeline shared by every stream: eager vs denote (gate), peval echo, fidelity, completeness."""
    live = [c for c in cases if prepare(ctx, c)]
    reqs = []
    for c in live:
        reqs.append(f"C01 denote {sx(c.wire)} {sx(ser.ins_wire(c.ins))} {sx(ser.env_wire(c.env))}")
        reqs.append(f"C01 peval {sx(c.wire)}")
        reqs.append(f"C01 core {sx(c.wire)}")
    answers = ctx.driver.ask(reqs)
    for idx, c in enumerate(live):
        a_den, a_pe, a_core = answers[3 * idx: 3 * idx + 3]
        st = c.stream
        ctx.count(f"{st}:root:{c.recipe[0]}")
        model = ser.parse_table(a_den)
        if model is None:
            ctx.infra_errors.append(f"driver: {a_den[:200]} for {gen_terms.describe(c.recipe)}")
            continue
        try:
            nt = nt_of_answer(a_pe)
        except Exception:
            ctx.infra_errors.append(f"driver peval: {a_pe[:200]}")
            continue
        lean_core = a_core.strip() == "ok true"
        spec_defined = not any(m is None for m in model)
        # ---- echo of peval_total_core / peval_sound (Lean side self-consistency) ----------------
        if lean_core:
            ctx.count(f"{st}:lean-core")
            if nt is None:
                ctx.infra_errors.append(f"peval_total_core echo: isCore but peval = none: {gen_terms.describe(c.recipe)}")
        if c.core:
            ctx.count(f"{st}:py-core")
            if not lean_core:
                ctx.count(f"{st}:py-core-not-lean-core")
        if nt is not None:
            ctx.count(f"{st}:peval-defined")
            if not c.env:
                try:
                    pt = nt_table(nt, c.ins)
                    okp, _ = ser.tables_equal(pt, model) if spec_defined else (True, None)
                except KeyError:
                    okp = False
                if not okp:
                    ctx.infra_errors.append(f"peval_sound echo: peval table != denote table: {gen_terms.describe(c.recipe)}")
        if not spec_defined:
            ctx.count(f"{st}:spec-undefined")
            ctx.case()
            continue
        # ---- G3 completeness -------------------------------------------------------------------
        if c.core and (c.status != "value" or not isinstance(c.val, (Tensor, Number))):
            got = c.val if c.status != "value" else f"lazy {type(c.val).__name__}"
            small = gen_terms.shrink(c.recipe, lambda r: is_core(r) and _incomplete(r))
            ctx.fail("input", "C01.core-incomplete", witness=gen_terms.describe(small),
                     expected="a Tensor/Number (ground core fragment always completes)", got=str(got)[:300],
                     python=replay_python(small))
            continue
        if c.status == "declined":
            ctx.count(f"{st}:impl-declined:{c.val.split(':')[0]}")
            ctx.case()
            continue
        val = c.val
        extra = set(val.inputs) - set(c.syn.inputs)
        if extra:
            ctx.fail("input", "C01.result-has-foreign-input", witness=gen_terms.describe(c.recipe),
                     expected=f"inputs ⊆ {list(c.syn.inputs)}", got=str(list(val.inputs)),
                     python=replay_python(c.recipe, c.env))
            continue
        try:
            bound = bind_env(c)
        except DECLINE as e:
            ctx.count(f"{st}:impl-declined-on-binding:{type(e).__name__}")
            ctx.case()
            continue
        try:
            impl = impl_table(c, bound)
        except (KeyError, ValueError) as e:
            ctx.fail("input", "C01.result-inputs", witness=gen_terms.describe(c.recipe), got=str(e)[:300],
                     expected=str(c.ins), python=replay_python(c.recipe, c.env))
            continue
        if impl is None:
            ctx.count(f"{st}:impl-lazy")
            ctx.case()
            continue
        ok, bad = ser.tables_equal(impl, model)
        if not ok and (beyond_float(c.recipe, c.env) or not_float_exact(model, impl, c.env)):
            # some intermediate value leaves the range where float64 is exact on integers/dyadics: the
            # exact comparison is meaningless there (not a claim about funsor)
            ctx.count(f"{st}:beyond-exact-float64")
            ctx.case()
            continue
        if not ok:
            small = gen_terms.shrink(c.recipe, lambda r: disagrees(ctx, r, c.env))
            etab, eins = denote_table(ctx, small, c.env)
            ctx.fail("input", "C01.eager-ne-denote", witness={"recipe": gen_terms.describe(small), "env": _env_json(c.env)},
                     expected=f"Lean denote; first differing cell of the ORIGINAL case: "
                              f"{str(model[bad] if bad is not None and bad >= 0 else model)[:300]}",
                     got=str(impl[bad] if bad is not None and bad >= 0 else impl)[:300],
                     python=replay_python(small, c.env, etab, eins))
            continue
        # ---- model fidelity (counted, not gated) ---------------------------------------------------
        if nt is not None and isinstance(val, Tensor) and not c.env:
            ctx.count(f"{st}:fidelity:compared")
            if [(k, int(v.size)) for k, v in val.inputs.items()] == nt[0]:
                ctx.count(f"{st}:fidelity:inputs-order-equal")
                flat = [futil.exact(x) for x in np.asarray(val.data).reshape(-1)]
                if list(val.data.shape[len(val.inputs):]) == nt[1] and len(flat) == len(nt[2]) and all(
                        futil.same_num(x, y) for x, y in zip(flat, nt[2])):
                    ctx.count(f"{st}:fidelity:data-layout-equal")
        nontrivial = gen_terms.recipe_size(c.recipe) >= 3 and isinstance(val, (Tensor,)) and (
            len(val.inputs) >= 1 or len(val.data.shape) >= 1)
        ctx.count(f"{st}:result:{type(c.val).__name__}")
        ctx.case(sample={"stream": st, "expr": gen_terms.python_of(c.recipe)[:300], "inputs": c.ins},
                 nontrivial_key=repr(gen_terms.describe(c.recipe)) if nontrivial else None)


def beyond_float(recipe, env):
    """True if some sub-expression takes a value of magnitude > 2**50 somewhere (checked only on a mismatch)."""
    for sub in subrecipes(recipe):
        try:
            syn = syntax(sub)
            ins = [(k, int(v.size)) for k, v in syn.inputs.items() if isinstance(v.dtype, int) and not v.shape]
            if any(k not in env and (v.dtype == "real" or v.shape) for k, v in syn.inputs.items()):
                continue
            for p in itertools.product(*[range(s_) for _, s_ in ins]):
                v = np.asarray(py_eval(sub, {**env, **{n: i for (n, _), i in zip(ins, p)}}), dtype=float)
                if v.size and np.nanmax(np.abs(np.where(np.isfinite(v), v, 0.0))) > 2.0 ** 50:
                    return True
        except Exception:
            continue
    return False


def not_float_exact(model, impl, env):
    """The exact comparison presupposes that every value is a float64.  True (= outside the exact fragment, not a
    claim about funsor) if some cell of Lean's exact table is not representable in float64 (it needs more than 53
    significant bits, e.g. a long product of dyadic sample points), or if real inputs are bound at NON-integer
    sample points and the two tables agree to 1e-12 relative (an intermediate product/sum may have been rounded)."""
    def representable(x):
        return isinstance(x, float) or Fraction(float(x)) == x
    if model is None or impl is None:
        return False
    if any(not representable(x) for cell in model if cell for x in cell[1]):
        return True
    frac_env = any(np.any(np.asarray(v, dtype=float) != np.round(np.asarray(v, dtype=float))) for v in (env or {}).values())
    if frac_env and len(model) == len(impl):
        return all(list(a[0]) == list(b[0]) and len(a[1]) == len(b[1]) and
                   all(futil.same_num(x, y, 1e-12) for x, y in zip(a[1], b[1])) for a, b in zip(impl, model))
    return False


def _incomplete(r):
    s, v = evaluate(r)
    return s != "value" or not isinstance(v, (Tensor, Number))


def _env_json(env):
    return {k: np.asarray(v).tolist() for k, v in env.items()}


# ---------------------------------------------------------------------------------------------
# streams
# ---------------------------------------------------------------------------------------------

def stream_random(ctx, n):
    rng = ctx.rng
    cases = []
    for _ in range(n):
        depth = rng.choice([1, 2, 2, 3, 3, 4])
        c = gen_ctx(rng)
        recipe, _ = gen_terms.gen_expr(rng, c, depth, "real")
        if in_open_region(ctx, recipe):
            continue
        cases.append(Case("rand", recipe))
    return cases


def stream_ext(ctx, n):
    rng = ctx.rng
    cases = []
    skipped = 0
    while len(cases) < n:
        depth = rng.choice([1, 2, 2, 3, 3])
        c = gen_ctx(rng)
        kind = rng.choice(["real", "real", "real", "bool", ("array", (2,)), ("array", (3,)), ("array", (2, 3)),
                           ("array", (1, 2)), ("array", (2, 1, 2))])
        recipe, _ = gen_terms.gen_expr(rng, c, depth, kind, ext=True)
        if in_open_region(ctx, recipe):   # region of an open finding: kept out of the clean stream
            continue
        cases.append(Case("ext", recipe))
    return cases


DYADIC = [-2.0, -1.25, -0.5, 0.0, 0.25, 0.5, 1.0, 1.5, 3.0]


def stream_lazy(ctx, n):
    """Expressions with real-valued free inputs (they stay lazy under eager), bound at dyadic points."""
    rng = ctx.rng
    cases = []
    for _ in range(n):
        c = gen_ctx(rng)
        depth = rng.choice([1, 2, 2, 3])
        if rng.random() < 0.2 and c:
            # Independent(fn, "x", i, "x_i"): fn has the bint input i and the real input x_i
            bv = rng.choice(list(c))
            body, fb = gen_terms.gen_expr(rng, c, depth, "real", ext={"rvars": {"x_i": ()}})
            dep = gen_terms.gen_tensor(rng, c, "real", names=[bv])
            fn = ("binary", rng.choice(["add", "mul"]), ("binary", "mul", ("rvar", "x_i", ()), dep), body)
            recipe = ("independent", fn, "x", bv, "x_i")
            env = {"x": np.array([rng.choice(DYADIC) for _ in range(c[bv])])}
            if not in_open_region(ctx, recipe):
                cases.append(Case("lazy", recipe, env))
            continue
        rv = {"x": (), "y": ()}
        if rng.random() < 0.3:
            rv["v"] = (2,)
        kind = rng.choice(["real", "real", "real", ("array", (2,))])
        recipe, free = gen_terms.gen_expr(rng, c, depth, kind, ext={"rvars": rv})
        env = {}
        for k, sh in rv.items():
            if k in free:
                env[k] = np.array([rng.choice(DYADIC) for _ in range(int(np.prod(sh)) if sh else 1)]).reshape(sh) \
                    if sh else rng.choice(DYADIC)
        if in_open_region(ctx, recipe):
            continue
        cases.append(Case("lazy", recipe, env))
    return cases


def stream_bitwise(ctx, n):
    """and / or / xor on small NON-boolean integers (Bint[4], Bint[8] tensors and numbers): funsor's ops are
    python's bitwise operators; the spec (Model/Term.lean `bitop`) is bitwise on integers too."""
    rng = ctx.rng
    cases = []
    for _ in range(n):
        c = gen_ctx(rng)

        def leaf():
            size = rng.choice([4, 8])
            if rng.random() < 0.2:
                return ("num", rng.randrange(size), size)
            return gen_terms.gen_tensor(rng, c, size)
        a, b = leaf(), leaf()
        if a[0] == "num" and b[0] == "num":
            b = gen_terms.gen_tensor(rng, c, 8)
        r = ("boolbin", rng.choice(["and", "or", "xor"]), a, b)
        if rng.random() < 0.4:
            r = ("boolbin", rng.choice(["and", "or", "xor"]), r, leaf())
        cases.append(Case("bitwise", r))
    return cases


def stream_slice_compose(ctx):
    """Slice-into-Slice substitution, enumerated over a small box: t(j = Slice(s_, start, stop, step)(s_ =
    Slice(i, s2, L1, st2))) for every start, step, s2, st2 in {0,1}x{1,2,3}x{0,1,2}x{1,2,3}, L in {1,2,3}."""
    cases = []
    for start in (0, 1):
        for step in (1, 2, 3):
            for s2 in (0, 1, 2):
                for st2 in (1, 2, 3):
                    for L in (1, 2, 3):
                        L1 = s2 + (L - 1) * st2 + 1
                        stop = start + (L1 - 1) * step + 1
                        size = stop + ((start + step + s2 + st2 + L) % 2)
                        if size > 12:
                            continue
                        t = ("tensor", (("j", size),), "real", (), np.arange(1.0, size + 1.0))
                        val = ("subs", ("slice", "s_", start, stop, step, size), (("s_", ("slice", "i", s2, L1, st2, L1)),))
                        cases.append(Case("slice2", ("subs", t, (("j", val),))))
    ctx.count("slice2:enumerated", len(cases))
    return cases


PHI = ["exp", "log", "sigmoid", "sqrt", "tanh", "log1p", "atanh"]


def _full_table(ctx, recipe, ins):
    """Lean `denote` table of `recipe` over the integer inputs `ins` as a float ndarray ins-sizes + event shape."""
    syn = syntax(recipe)
    wire = ser.to_wire(syn, ext=True)
    tab = ser.parse_table(ctx.driver.ask1(f"C01 denote {sx(wire)} {sx(ser.ins_wire(ins))} ()"))
    if tab is None or any(m is None for m in tab):
        return None
    shape = tab[0][0]
    arr = np.array([[float(x) for x in cell[1]] for cell in tab], dtype=np.float64)
    return arr.reshape(tuple(s_ for _, s_ in ins) + tuple(shape))


def _np_table(arr, nb):
    """ndarray (batch axes first) -> [(event shape, flat values)] over the batch points, row-major."""
    arr = np.asarray(arr, dtype=np.float64)
    ev = list(arr.shape[nb:])
    flat = arr.reshape((-1,) + tuple(ev)) if nb else arr.reshape((1,) + tuple(ev))
    return [(ev, [float(x) for x in np.asarray(row).reshape(-1)]) for row in flat]


def run_phi(ctx, n):
    """Transcendental ops as uninterpreted scalar functions (Props/C01/Phi.lean): the exact argument table comes
    from Lean `denote`, numpy's scalar function is applied to it, and the surrounding structure (a reduction over
    named inputs, a broadcasting binary op, or nothing) is evaluated on that table; the eager result must agree
    (same inputs, same shape, values up to 1e-12 relative: only the summation order may differ)."""
    rng = ctx.rng
    for _ in range(n):
        c = gen_ctx(rng)
        kind = rng.choice(["real", "real", ("array", (2,)), ("array", (2, 3))])
        a, fa = gen_terms.gen_expr(rng, c, rng.choice([0, 1, 2]), kind, ext=True)
        f = rng.choice(PHI)
        form = rng.choice(["root", "reduce", "binary"])
        if f in ("log", "sqrt", "log1p"):
            a = ("unary", "abs", a)      # keep the argument inside the function's domain
        if in_open_region(ctx, a):
            continue
        try:
            syn_a = syntax(a)
            ser.to_wire(syn_a, ext=True)
        except Exception:
            ctx.count("phi:arg-beyond-model")
            continue
        if any(v.dtype == "real" or v.shape for v in syn_a.inputs.values()):
            continue
        ins_a = [(k, int(v.size)) for k, v in syn_a.inputs.items()]
        phi = ("unaryf", f, a)
        b = None
        if form == "reduce" and ins_a:
            op = rng.choice(["add", "max", "min"])
            rv = [k for k, _ in ins_a if rng.random() < 0.6] or [ins_a[0][0]]
            recipe = ("reduce", op, phi, tuple(rv), ())
        elif form == "binary":
            op = rng.choice(["add", "mul", "max", "sub"])
            b, _ = gen_terms.gen_expr(rng, c, 1, kind if rng.random() < 0.6 else "real", ext=True)
            if in_open_region(ctx, b):
                continue
            recipe = ("binary", op, phi, b) if rng.random() < 0.5 else ("binary", op, b, phi)
        else:
            form, recipe = "root", phi
        ins = list(ins_a)
        try:
            if b is not None:
                syn_b = syntax(b)
                if any(v.dtype == "real" or v.shape for v in syn_b.inputs.values()):
                    continue
                for k, v in syn_b.inputs.items():
                    if k not in dict(ins):
                        ins.append((k, int(v.size)))
            ins = sorted(ins)
            ta = _full_table(ctx, a, ins)
            tb = _full_table(ctx, b, ins) if b is not None else None
        except Exception:
            ctx.count("phi:arg-beyond-model")
            continue
        if ta is None or (b is not None and tb is None):
            ctx.count("phi:spec-undefined")
            continue
        nb = len(ins)
        # stay inside the function's domain: outside it funsor's scalar ops and numpy's array ops differ by design
        # (ops.log(-1.0) = -inf is the documented scalar guard `math.log(x) if x > 0 else -inf`; np.log gives nan)
        dom = {"log": ta >= 0, "sqrt": ta >= 0, "log1p": ta > -1, "atanh": np.abs(ta) < 1}.get(f)
        if dom is not None and not bool(np.all(dom)):
            ctx.count(f"phi:out-of-domain:{f}")
            continue
        with np.errstate(all="ignore"):
            want = np.asarray(getattr(ops, f)(ta), dtype=np.float64)
            out_ins = ins
            if form == "reduce":
                axes = tuple(i for i, (k, _) in enumerate(ins) if k in rv)
                want = {"add": np.sum, "max": np.max, "min": np.min}[op](want, axis=axes)
                out_ins = [p for p in ins if p[0] not in rv]
            elif form == "binary":
                ev_a, ev_b = want.shape[nb:], tb.shape[nb:]
                rk = max(len(ev_a), len(ev_b))
                wa = want.reshape(want.shape[:nb] + (1,) * (rk - len(ev_a)) + ev_a)
                wb = tb.reshape(tb.shape[:nb] + (1,) * (rk - len(ev_b)) + ev_b)
                x, y = (wa, wb) if recipe[2] is phi else (wb, wa)
                try:
                    want = NPBIN[op](x, y)
                except ValueError:
                    ctx.count("phi:not-broadcastable")
                    continue
        st, val = evaluate(recipe)
        ctx.count(f"phi:form:{form}")
        ctx.count(f"phi:fn:{f}")
        if st != "value":
            ctx.count(f"phi:impl-declined:{val.split(':')[0]}")
            ctx.case()
            continue
        if not isinstance(val, (Tensor, Number)):
            ctx.count("phi:impl-lazy")
            ctx.case()
            continue
        if set(val.inputs) - set(k for k, _ in out_ins):
            ctx.fail("input", "C01.result-has-foreign-input", witness=gen_terms.describe(recipe),
                     expected=str(out_ins), got=str(list(val.inputs)), python=replay_python(recipe))
            continue
        try:
            got = futil.table(val, out_ins)
        except (KeyError, ValueError) as e:
            ctx.fail("input", "C01.result-inputs", witness=gen_terms.describe(recipe), got=str(e)[:300],
                     expected=str(out_ins), python=replay_python(recipe))
            continue
        got = np.asarray(got, dtype=np.float64)
        ok = got.shape == want.shape and np.allclose(got, want, rtol=1e-12, atol=1e-12, equal_nan=True)
        if not ok:
            ctx.fail("input", "C01.eager-ne-denote-phi", witness=gen_terms.describe(recipe),
                     expected=f"{f} applied by numpy to Lean's argument table, then {form}: {want.tolist()!r}"[:600],
                     got=str(got.tolist())[:600],
                     python=replay_python(recipe, None, _np_table(want, len(out_ins)), out_ins))
            continue
        if np.array_equal(got, want, equal_nan=True):
            ctx.count("phi:bitwise-equal")
        ctx.case(sample={"stream": "phi", "expr": gen_terms.python_of(recipe)[:300]},
                 nontrivial_key=repr(gen_terms.describe(recipe)) if isinstance(val, Tensor) and val.inputs else None)


ALL_RED = ["sum", "prod", "amax", "amin", "all", "any", "mean", "std", "var", "logsumexp"]


def run_outred(ctx, quick):
    """Every output-shape reduction op of ops/array.py (sum prod amax amin all any mean std var logsumexp), enumerated
    over event shapes (), (1,), (2,), (1,1), (2,3) x 0-2 named inputs x axis None / int / tuple x keepdims, on data that
    is NOT restricted to 0/1 (ints, reals, negatives, zeros), plus two-step reductions (x.sum().std(), …).  Reference:
    the numpy aggregate applied row by row by the pointwise oracle `py_eval` (for a scalar row the one-element
    collection: sum/prod/max/min/mean = x, var/std = 0, any/all = (x != 0)); values to 1e-12."""
    rng = ctx.rng
    vals = [-2.0, -1.5, -0.5, 0.0, 0.0, 0.25, 1.0, 2.0, 3.0]
    shapes = [(), (1,), (2,), (1, 1), (2, 3)]
    batches = [(), (("i", 3),), (("i", 2), ("j", 2))]
    recipes = []
    for shape in shapes:
        rank = len(shape)
        axes = [None] + ([0, -1, (0,)] if rank >= 1 else []) + ([1, (0, 1), (-1,), (1, 0)] if rank >= 2 else [])
        for ins in batches:
            full = tuple(s_ for _, s_ in ins) + shape
            for op in ALL_RED:
                for axis in axes:
                    for keep in (False, True):
                        if not quick or rng.random() < 0.55 or not shape:
                            data = np.array([rng.choice(vals) for _ in range(int(np.prod(full)) if full else 1)],
                                            dtype=np.float64).reshape(full)
                            t = ("tensor", ins, "real", shape, data)
                            recipes.append(("red", op, axis, keep, t))
    # two-step reductions on batched tensors: the second acts on a scalar-valued tensor with named inputs
    for ins in batches[1:]:
        for shape in [(2,), (2, 3)]:
            full = tuple(s_ for _, s_ in ins) + shape
            for op1 in ("sum", "amax", "mean"):
                for op2 in ALL_RED:
                    data = np.array([rng.choice(vals) for _ in range(int(np.prod(full)))], dtype=np.float64).reshape(full)
                    t = ("tensor", ins, "real", shape, data)
                    recipes.append(("red", op2, None, rng.random() < 0.3, ("red", op1, None, False, t)))
    ctx.count("outred:enumerated", len(recipes))
    for recipe in recipes:
        try:
            syn = syntax(recipe)
            ins = sorted((k, int(v.size)) for k, v in syn.inputs.items())
            with np.errstate(all="ignore"):
                want = py_table(recipe, ins, {})
        except Exception as e:
            ctx.count(f"outred:oracle-declined:{type(e).__name__}")
            continue
        with np.errstate(all="ignore"):
            st, val = evaluate(recipe)
        ctx.count(f"outred:op:{recipe[1]}")
        if st != "value":
            ctx.count(f"outred:impl-declined:{val.split(':')[0]}")
            ctx.case()
            continue
        if not isinstance(val, (Tensor, Number)):
            ctx.count("outred:impl-lazy")
            ctx.case()
            continue
        try:
            with np.errstate(all="ignore"):
                got = ser.impl_values(val, ins)
        except (KeyError, ValueError) as e:
            ctx.fail("input", "C01.result-inputs", witness=gen_terms.describe(recipe), got=str(e)[:300],
                     expected=str(ins), python=replay_python(recipe))
            continue
        ok = len(got) == len(want) and all(
            list(a[0]) == list(b[0]) and len(a[1]) == len(b[1]) and
            np.allclose(np.array(a[1], dtype=float), np.array(b[1], dtype=float), rtol=1e-12, atol=1e-12, equal_nan=True)
            for a, b in zip(got, want))
        if not ok:
            ctx.fail("input", "C01.eager-ne-denote-reduction", witness=gen_terms.describe(recipe),
                     expected=("numpy aggregate applied row by row: " + str([[float(x) for x in c_[1]] for c_ in want]))[:600],
                     got=str([(c_[0], [float(x) for x in c_[1]]) for c_ in got])[:600],
                     python=replay_python(recipe, None, [(c_[0], [float(x) for x in c_[1]]) for c_ in want], ins))
            continue
        ctx.case(sample={"stream": "outred", "expr": gen_terms.python_of(recipe)[:200]},
                 nontrivial_key=repr(gen_terms.describe(recipe)) if val.inputs else None)


def run_named_agg(ctx, quick):
    """Named reductions with the NON-associative aggregates: x.reduce(ops.mean | ops.var | ops.std, frozenset of
    Variable objects) over every split {subset of own inputs} ∪ {0-2 foreign Bint variables of size 1-3}, on ground
    tensors and on lazy expressions whose real input is bound afterwards.  Oracle: brute force over the FULL grid of
    the requested variables (a variable the funsor does not mention replicates the value: mean / var / std are
    unchanged); values to 1e-12."""
    rng = ctx.rng
    vals = [-2.0, -1.0, -0.5, 0.0, 0.25, 1.0, 2.0, 3.0]
    confs = [(), (("i", 2),), (("i", 3), ("j", 2)), (("j", 2), ("i", 2), ("k", 3))]
    foreigns = [(), (("p", 1),), (("p", 2),), (("p", 3),), (("p", 2), ("q", 3)), (("q", 1), ("p", 3))]
    cases = []
    for ins in confs:
        names = [n for n, _ in ins]
        subsets = [tuple(n for n, b in zip(names, bits) if b) for bits in itertools.product([0, 1], repeat=len(names))]
        for ev in [(), (2,)]:
            full = tuple(s_ for _, s_ in ins) + ev
            for own in subsets:
                for foreign in foreigns:
                    if not own and not foreign:
                        continue
                    for op in ("mean", "var", "std"):
                        if quick and rng.random() < 0.5:
                            continue
                        data = np.array([rng.choice(vals) for _ in range(int(np.prod(full)) if full else 1)],
                                        dtype=np.float64).reshape(full)
                        t = ("tensor", ins, "real", ev, data)
                        cases.append((("nreduce", op, t, own, foreign), {}))
    # lazy: a real input stays free during the reduction and is bound afterwards
    for ins in confs[1:]:
        names = [n for n, _ in ins]
        for own in [tuple(names[:1]), tuple(names)]:
            for foreign in foreigns[1:5]:
                for op in ("mean", "var", "std"):
                    full = tuple(s_ for _, s_ in ins)
                    d1 = np.array([rng.choice(vals) for _ in range(int(np.prod(full)))], dtype=np.float64).reshape(full)
                    d2 = np.array([rng.choice(vals) for _ in range(ins[0][1])], dtype=np.float64)
                    body = ("binary", "add", ("binary", "mul", ("tensor", ins, "real", (), d1), ("rvar", "x", ())),
                            ("tensor", (ins[0],), "real", (), d2))
                    cases.append((("nreduce", op, body, own, foreign), {"x": rng.choice(DYADIC)}))
    ctx.count("nagg:enumerated", len(cases))
    for recipe, env in cases:
        try:
            syn = syntax(recipe[2])
            ins = sorted((k, int(v.size)) for k, v in syn.inputs.items()
                         if k not in recipe[3] and k not in env)
            with np.errstate(all="ignore"):
                want = py_table(recipe, ins, env)
        except Exception as e:
            ctx.count(f"nagg:oracle-declined:{type(e).__name__}")
            continue
        with np.errstate(all="ignore"):
            st, val = evaluate(recipe)
        ctx.count(f"nagg:op:{recipe[1]}:own{len(recipe[3])}:foreign{len(recipe[4])}")
        if st != "value":
            ctx.count(f"nagg:impl-declined:{val.split(':')[0]}")
            ctx.case()
            continue
        try:
            with np.errstate(all="ignore"):
                bound = val(**{k: v for k, v in env.items() if k in val.inputs}) if env else val
        except DECLINE as e:
            ctx.count(f"nagg:impl-declined-on-binding:{type(e).__name__}")
            ctx.case()
            continue
        if not isinstance(bound, (Tensor, Number)):
            ctx.count("nagg:impl-lazy")
            ctx.case()
            continue
        try:
            got = ser.impl_values(bound, ins)
        except (KeyError, ValueError) as e:
            ctx.fail("input", "C01.result-inputs", witness={"recipe": gen_terms.describe(recipe), "env": _env_json(env)},
                     got=str(e)[:300], expected=str(ins), python=replay_python(recipe, env))
            continue
        ok = len(got) == len(want) and all(
            list(a[0]) == list(b[0]) and len(a[1]) == len(b[1]) and
            np.allclose(np.array(a[1], dtype=float), np.array(b[1], dtype=float), rtol=1e-12, atol=1e-12, equal_nan=True)
            for a, b in zip(got, want))
        if not ok:
            wtab = [(c_[0], [float(x) for x in c_[1]]) for c_ in want]
            ctx.fail("input", "C01.eager-ne-denote-named-aggregate",
                     witness={"recipe": gen_terms.describe(recipe), "env": _env_json(env)},
                     expected=("aggregate over the full grid of the requested variables: " + str(wtab))[:600],
                     got=str([(c_[0], [float(x) for x in c_[1]]) for c_ in got])[:600],
                     python=replay_python(recipe, env, wtab, ins))
            continue
        ctx.case(sample={"stream": "nagg", "expr": gen_terms.python_of(recipe)[:200]},
                 nontrivial_key=repr(gen_terms.describe(recipe)))


def run_independent_echo(ctx, cases):
    """Three-way for Independent: the NT model `pevalIndependent` (Props/C01/Independent.lean: independent_sem) vs
    Lean `denote` vs the eager result after binding the real input.  One driver call for the whole batch."""
    from fv.common import Q
    todo, reqs = [], []
    for c in cases:
        if c.recipe[0] != "independent" or getattr(c, "wire", None) is None or getattr(c, "syn", None) is None:
            continue
        _, fn, rv, bv, dv = c.recipe
        try:
            wfn = ser.to_wire(syntax(fn), ext=True)
            x = np.asarray(c.env[rv], dtype=np.float64)
            wv = ser.to_wire(Tensor(x))
        except Exception:
            ctx.count("lazy:independent:beyond-model")
            continue
        todo.append(c)
        reqs.append(f"C01 pevalInd {sx(wfn)} {sx(Q(rv))} {sx(Q(bv))} {sx(Q(dv))} {x.shape[0]} {sx(wv)}")
        reqs.append(f"C01 denote {sx(c.wire)} {sx(ser.ins_wire(c.ins))} {sx(ser.env_wire(c.env))}")
    answers = ctx.driver.ask(reqs)
    for k, c in enumerate(todo):
        a_pe, a_den = answers[2 * k], answers[2 * k + 1]
        try:
            nt = nt_of_answer(a_pe)
        except Exception:
            ctx.infra_errors.append(f"driver pevalInd: {a_pe[:200]}")
            continue
        model = ser.parse_table(a_den)
        if nt is None:
            ctx.count("lazy:independent:model-declined")
            continue
        ctx.count("lazy:independent:model-defined")
        if model is None or any(m is None for m in model):
            continue
        try:
            okp, _ = ser.tables_equal(nt_table(nt, c.ins), model)
        except KeyError:
            okp = False
        if not okp:
            ctx.infra_errors.append(f"independent_sem echo: model table != denote table: {gen_terms.describe(c.recipe)}")
            continue
        if c.status == "value":
            try:
                impl = impl_table(c, bind_env(c))
            except Exception:
                impl = None
            if impl is not None:
                ok3, _ = ser.tables_equal(impl, nt_table(nt, c.ins))
                ctx.count("lazy:independent:three-way-" + ("equal" if ok3 else "DIFFERENT"))


def stream_binary_orders(ctx):
    """Every binary-op family on operand pairs whose SHARED named inputs come in every relative order (all
    permutations of <= 3 shared inputs), mostly with ALL-EQUAL sizes (then a skipped alignment is silent: right
    inputs and shape, wrong numbers), plus subset / disjoint / extra-own-input patterns: pointwise, comparison,
    matmul over (n,)@(n,), (n,m)@(m,), (n,)@(n,m), (n,m)@(m,k), getitem by an index tensor, einsum, ops.stack, ops.cat."""
    rng = ctx.rng
    names = ["i", "j", "k"]
    cases = []

    def tens(order, sizes, ev, dtype="real"):
        ins = tuple((n, sizes[n]) for n in order)
        full = tuple(s_ for _, s_ in ins) + tuple(ev)
        cnt = int(np.prod(full)) if full else 1
        if dtype == "real":
            data = np.array([rng.choice([-2, -1, 0, 1, 2, 3, 4]) for _ in range(cnt)], dtype=np.float64).reshape(full)
        else:
            data = np.array([rng.randrange(dtype) for _ in range(cnt)], dtype=np.int64).reshape(full)
        return ("tensor", ins, dtype, tuple(ev), data)

    patterns = []
    for k in (1, 2, 3):
        shared = names[:k]
        for perm in itertools.permutations(shared):
            patterns.append((tuple(shared), tuple(perm)))
    patterns += [(("i", "j", "k"), ("k", "i")), (("i", "j"), ("j", "k", "i")), (("j", "i"), ("i",)), (("i",), ("j",)),
                 (("k", "i", "j"), ("j", "i", "k")), ((), ("j", "i"))]
    size_sets = [{"i": 2, "j": 2, "k": 2}, {"i": 3, "j": 3, "k": 3}, {"i": 2, "j": 3, "k": 2}]
    for lo, ro in patterns:
        for sizes in size_sets:
            sh = [n for n in lo if n in ro]
            differs = [n for n in lo if n in ro] != [n for n in ro if n in lo]
            equal = len({sizes[n] for n in sh}) <= 1
            tag = "shared-different-order-equal-sizes" if differs and equal else (
                "shared-different-order" if differs else "same-order-or-disjoint")
            fams = []
            for op in ("add", "mul", "sub", "max"):
                fams.append(("binary", op, tens(lo, sizes, ()), tens(ro, sizes, ())))
            fams.append(("binary", "add", tens(lo, sizes, (2,)), tens(ro, sizes, (1, 2))))
            for op in ("lt", "eq"):
                fams.append(("cmp", op, tens(lo, sizes, ()), tens(ro, sizes, ())))
            for ea, eb in (((2,), (2,)), ((2, 2), (2,)), ((2,), (2, 2)), ((2, 3), (3, 2)), ((3, 3), (3, 3))):
                fams.append(("matmul", tens(lo, sizes, ea), tens(ro, sizes, eb)))
            fams.append(("getitem", tens(lo, sizes, (3,)), tens(ro, sizes, (), 3)))
            fams.append(("getsugar", tens(lo, sizes, (2, 3)), (("s",), ("r", tens(ro, sizes, (), 3)))))
            fams.append(("einsum", "az,z->a", (tens(lo, sizes, (2, 3)), tens(ro, sizes, (3,)))))
            fams.append(("einsum", "ab,bc->ac", (tens(lo, sizes, (2, 2)), tens(ro, sizes, (2, 2)))))
            fams.append(("opstack", (tens(lo, sizes, (2,)), tens(ro, sizes, (2,)))))
            fams.append(("opcat", (tens(lo, sizes, (1, 2)), tens(ro, sizes, (2, 2)))))
            for r in fams:
                cases.append(Case("border", r))
                ctx.count(f"border:{tag}")
    ctx.count("border:enumerated", len(cases))
    return cases


def run_sugar_declines(ctx):
    """Surface forms of `x[...]` that the pinned tree only ever DECLINES (raises): Ellipsis mixed with funsor / name
    indices (TypeError tuple + list in Funsor.__getitem__), `None` in a mixed index and non-trivial slices mixed with
    funsor indices (NotImplementedError).  A change that makes them succeed must give numpy's x[idx] meaning at every
    named point — the reference is the pointwise oracle (no funsor syntax is needed).  Gate: raise (counted) or equal."""
    rng = ctx.rng
    ctx.extra["declines_on_pinned_tree"] = [
        "x[i, ..., j] : Ellipsis mixed with funsor/name indices (TypeError: tuple + list in Funsor.__getitem__)",
        "x[None, i]  : None mixed with funsor/name indices (NotImplementedError TODO)",
        "x[1:3, i]   : non-trivial slice mixed with funsor/name indices (NotImplementedError TODO)"]
    recipes = []

    def idx_item(kind, n, tag):
        if kind == "var":
            return ("n", tag), [(tag, n)]
        if kind == "num":
            return ("r", ("num", rng.randrange(n), n)), []
        if kind == "int":
            return ("i", rng.randrange(n)), []
        own = ("tensor", ((tag + "m", 2),), n, (), np.array([rng.randrange(n) for _ in range(2)], dtype=np.int64))
        return ("r", own), [(tag + "m", 2)]

    for shape in [(2, 2, 2), (3, 3, 3), (2, 2, 2, 2), (2, 3, 3, 2)]:
        rank = len(shape)
        for ins in [(), (("b", 2),)]:
            full = tuple(s_ for _, s_ in ins) + shape
            forms = []
            for kl in ("var", "num", "tens", "int", None):
                for kr in ("var", "tens", "num", None):
                    if kl is None and kr is None:
                        continue
                    for tail in (0, 1):           # number of `:` after the right index
                        for lead in (0, 1):       # number of `:` before the left index
                            forms.append((kl, kr, lead, tail))
            for kl, kr, lead, tail in forms:
                if quick_skip(rng, ctx):
                    continue
                nl = (1 if kl else 0) + lead
                nr = (1 if kr else 0) + tail
                if nl + nr > rank:
                    continue
                items, extra = [], []
                items += [("s",)] * lead
                if kl:
                    it, ex = idx_item(kl, shape[lead], "u")
                    items.append(it); extra += ex
                items.append(("e",))
                if kr:
                    it, ex = idx_item(kr, shape[rank - nr], "v")
                    items.append(it); extra += ex
                items += [("s",)] * tail
                data = np.array([rng.choice([-2, -1, 0, 1, 2, 3, 4, 5]) for _ in range(int(np.prod(full)))],
                                dtype=np.float64).reshape(full)
                t = ("tensor", ins, "real", shape, data)
                recipes.append((("getsugar", t, tuple(items)), sorted(list(ins) + extra)))
            # the two other declining forms (cheap)
            data = np.arange(float(np.prod(full))).reshape(full)
            t = ("tensor", ins, "real", shape, data)
            recipes.append((("getsugar", t, (("none",), ("n", "u"))), sorted(list(ins) + [("u", shape[0])])))
            recipes.append((("getsugar", t, (("sl", 0, 2, 1), ("n", "u"))), sorted(list(ins) + [("u", shape[1])])))
    ctx.count("sugar-declines:enumerated", len(recipes))
    for recipe, ins in recipes:
        st, val = evaluate(recipe)
        if st != "value":
            ctx.count(f"sugar-declines:declined:{val.split(':')[0]}")
            ctx.case()
            continue
        ctx.count("sugar-declines:SUCCEEDED")
        try:
            want = py_table(recipe, ins, {})
            if not isinstance(val, (Tensor, Number)):
                ctx.count("sugar-declines:lazy")
                ctx.case()
                continue
            got = ser.impl_values(val, ins)
            ok = ser.tables_equal(got, want)[0]
            err = None
        except (KeyError, ValueError) as e:
            ok, err, got, want = False, str(e), None, None
        if not ok:
            wtab = [(c_[0], [float(x) for x in c_[1]]) for c_ in want] if want else None
            ctx.fail("input", "C01.sugar-index-ne-numpy", witness=gen_terms.describe(recipe),
                     expected=("numpy x[idx] at every named point: " + str(wtab))[:600],
                     got=(err or str([(c_[0], [float(x) for x in c_[1]]) for c_ in got]))[:600],
                     python=replay_python(recipe, None, wtab, ins))
            continue
        ctx.case(sample={"stream": "sugar-declines", "expr": gen_terms.python_of(recipe)[:200]})


# ---- plain-Python indexing x[index] of an eager Tensor (eager_getslice_tensor), enumerated -------------

def _gs_items(n, small):
    """Per-axis basic-index items for an event axis of size n: full, full-extent reversals (implicit and explicit
    bounds), partial negative steps, negative strides, positive strides, partial ranges, ints of both signs."""
    if small:
        return [("s",), ("sl", None, None, -1), ("sl", None, None, 2), ("sl", n - 1, 0, -1), ("sl", 1, None, 1),
                ("i", -1)]
    items = [("s",), ("sl", 0, n, 1), ("sl", None, None, -1), ("sl", n - 1, None, -1), ("sl", -1, -n - 1, -1),
             ("sl", None, None, -2), ("sl", n - 1, 0, -1), ("sl", None, 0, -1), ("sl", None, None, 2),
             ("sl", 1, None, 1), ("sl", None, -1, 1), ("sl", 1, None, 2), ("i", 0), ("i", -1)]
    if n >= 3:
        items += [("sl", n - 2, None, -1), ("sl", None, None, -(n - 1)), ("sl", None, None, n - 1), ("i", 1)]
    return items


def _gs_keeps_extent(it):
    return it[0] == "s" or (it[0] == "sl" and it[3] in (1, -1))


def run_getslice_grid(ctx):
    """eager_getslice_tensor on the whole neighbourhood of basic indices, incl. every SHAPE-PRESERVING index that is
    not the identity (full-extent negative-step slices x[::-1], x[:, ::-1], x[..., ::-1], x[n-1::-1], x[-1:-n-1:-1]),
    partial negative steps, negative strides, positive strides, ints of both signs, None and Ellipsis at the
    head / middle / tail; on Tensors with 0-2 named inputs (both input orders), real and integer dtype; chained on
    an already sliced / eagerly computed tensor (x[1:][::-1], (x+x)[::-1], x[::-1][::-1]) and consumed downstream
    (x[::-1] - x, x[::-1].reduce over a named input, sum over the event axis of x[::-1][:k]).
    Oracle: the statement itself — at every point p of the named inputs the result is numpy's data[p][index]
    (`py_eval`), shape and contents compared exactly.  Gate: decline (counted) or equal."""
    rng = ctx.rng
    quick = ctx.tier == "quick"
    recipes = []
    shapes = [(3,), (4,), (1,), (2, 3), (3, 2), (1, 3), (3, 3), (2, 3, 2)]
    batches = [(), (("i", 2),), (("i", 2), ("j", 3)), (("j", 3), ("i", 2)), (("i", 1),)]
    for shape in shapes:
        rank = len(shape)
        for ins in batches:
            full = tuple(s_ for _, s_ in ins) + shape
            tens = []
            data = np.array([rng.choice([-3, -2, -1, 0, 1, 2, 3, 4, 5, 7]) + 0.25 * rng.randrange(4)
                             for _ in range(int(np.prod(full)))], dtype=np.float64).reshape(full)
            tens.append(("tensor", ins, "real", shape, data))
            if rank <= 2:
                idata = np.array([rng.randrange(5) for _ in range(int(np.prod(full)))], dtype=np.int64).reshape(full)
                tens.append(("tensor", ins, 5, shape, idata))
            per_axis = [_gs_items(n, rank >= 3 or (quick and rank == 2 and len(ins) == 2)) for n in shape]
            indices = []
            for k in range(1, rank + 1):
                for combo in itertools.product(*per_axis[:k]):
                    indices.append(tuple(combo))
                    if k < rank:
                        indices.append(tuple(combo) + (("e",),))
            # Ellipsis first: items address the TRAILING axes
            for k in range(0, rank + 1):
                for combo in itertools.product(*per_axis[rank - k:]):
                    indices.append((("e",),) + tuple(combo))
            # Ellipsis in the middle
            if rank >= 2:
                for a_ in per_axis[0]:
                    for b_ in per_axis[-1]:
                        indices.append((a_, ("e",), b_))
            # None (new axis) at the head / after the first item / at the tail
            for a_ in per_axis[0]:
                indices.append((("none",), a_))
                indices.append((a_, ("none",)))
                indices.append((("e",), ("none",), a_) if rank == 1 else (a_, ("none",), per_axis[1][2]))
                indices.append((("e",), a_, ("none",)) if rank == 1 else (("none",), ("e",), per_axis[-1][2]))
            for t in tens:
                for index in indices:
                    if t[2] != "real" and quick_skip(rng, ctx):
                        continue
                    recipes.append((("getsugar", t, index), "plain"))
            # compositions / downstream consumers of the shape-preserving non-identity indices
            t = tens[0]
            R = ("sl", None, None, -1)
            S = ("s",)
            n0 = shape[0]
            for index in [(R,), (("e",), R), (S,) * (rank - 1) + (R,), (R,) * rank]:
                g = ("getsugar", t, index)
                recipes.append((("getsugar", g, index), "chain"))                                  # x[::-1][::-1]
                recipes.append((("getsugar", ("getsugar", t, (("sl", 0, n0, 1),)), index), "chain"))
                recipes.append((("getsugar", ("binary", "add", t, t), index), "chain"))            # eager operand
                recipes.append((("binary", "sub", g, t), "downstream"))                            # x[::-1] - x
                for nm, _ in ins:
                    recipes.append((("reduce", "add", g, (nm,), ()), "downstream"))
                for k in range(1, n0 + 1):
                    recipes.append((("red", "sum", 0, False, ("getsugar", g, (("sl", 0, k, 1),))), "downstream"))
            if n0 >= 2:
                recipes.append((("getsugar", ("getsugar", t, (("sl", 1, None, 1),)), (R,)), "chain"))  # x[1:][::-1]
                recipes.append((("getsugar", ("getsugar", t, (R,)), (("sl", 1, None, 1),)), "chain"))
                recipes.append((("getsugar", ("getsugar", t, (("sl", None, None, -1),)), (("i", 0),)), "chain"))
    ctx.count("getslice-grid:enumerated", len(recipes))
    # -- Lean model of signed Python slices (Model/C01Slice `slicePositions`, Props/C01/Slice.lean) ------------------
    # (a) the model is CPython's rule: exhaustive comparison with range(*slice(a, b, c).indices(n)) on a box
    box = []
    for n in range(0, 6):
        bounds = [None] + list(range(-n - 2, n + 3))
        for a_ in bounds:
            for b_ in bounds:
                for c_ in (-3, -2, -1, 0, 1, 2, 3):
                    box.append((n, a_, b_, c_))
    fmt = lambda v: "none" if v is None else str(v)
    answers = ctx.driver.ask([f"C01 pyslice {n} {fmt(a_)} {fmt(b_)} {c_}" for n, a_, b_, c_ in box])
    lean_pos = {}
    for key, ans in zip(box, answers):
        n, a_, b_, c_ = key
        want = None if c_ == 0 else list(range(*slice(a_, b_, c_).indices(n)))
        got = None if ans.strip() == "ok none" else ([int(x) for x in parse_sx(ans[3:])] if ans.startswith("ok ") else "err")
        if got != want:
            ctx.infra_errors.append(f"slicePositions model != CPython slice.indices at {key}: {ans[:80]} vs {want}")
        lean_pos[key] = got
        ctx.count("getslice-grid:lean-slicePositions-vs-cpython")
    ctx.case(sample={"stream": "getslice-grid", "what": f"slicePositions = range(*slice.indices(n)) on {len(box)} (n,start,stop,step)"})

    def lean_expected(recipe, ins):
        """(b) For x[sl] / x[..., sl] with ONE slice item: the table read off the tensor's data at Lean's positions."""
        t, index = recipe[1], recipe[2]
        if t[0] != "tensor":
            return None
        items = [it for it in index if it[0] != "e"]
        if len(items) != 1 or items[0][0] not in ("s", "sl") or sum(1 for it in index if it[0] == "e") > 1:
            return None
        lead_e = index[0][0] == "e"
        axis = len(t[3]) - 1 if lead_e else 0
        it = items[0]
        key = (t[3][axis], None, None, 1) if it[0] == "s" else (t[3][axis], it[1], it[2], it[3])
        pos = lean_pos.get(key)
        if not isinstance(pos, list):
            return None
        out = []
        order = [n for n, _ in t[1]]
        for p_ in itertools.product(*[range(s_) for _, s_ in ins]):
            pt = dict(zip([n for n, _ in ins], p_))
            row = np.asarray(t[4], dtype=float)[tuple(pt[n] for n in order)]
            v = np.take(row, pos, axis=axis) if pos else np.take(row, np.array([], dtype=int), axis=axis)
            out.append((list(v.shape), [futil.exact(x) for x in v.reshape(-1)]))
        return out

    for recipe, kind in recipes:
        ins = sorted(_ins_of_tensor_leaves(recipe))
        st, val = evaluate(recipe)
        if st != "value":
            ctx.count(f"getslice-grid:declined:{val.split(':')[0]}")
            ctx.case()
            continue
        if not isinstance(val, (Tensor, Number)):
            ctx.count("getslice-grid:lazy")
            ctx.case()
            continue
        try:
            want = py_table(recipe, ins, {})
        except IndexError:
            ctx.infra_errors.append(f"getslice-grid: funsor accepted an index numpy rejects: {gen_terms.describe(recipe)}")
            continue
        try:
            got = ser.impl_values(val, ins)
            ok = ser.tables_equal(got, want)[0]
            err = None
        except (KeyError, ValueError) as e:
            ok, err, got = False, str(e), None
        if ok and kind == "plain":
            lw = lean_expected(recipe, ins)
            if lw is not None:
                ctx.count("getslice-grid:lean-positions-oracle")
                if not ser.tables_equal(got, lw)[0]:
                    ok, err = False, "differs from the tensor's data read at Model/C01Slice.slicePositions"
        root = recipe if recipe[0] == "getsugar" else None
        if root is not None and kind == "plain":
            index = root[2]
            sl = [it for it in index if it[0] in ("s", "sl")]
            neg = any(it[0] == "sl" and it[3] < 0 for it in index)
            keeps = bool(want) and list(want[0][0]) == list(root[1][3])
            ctx.count("getslice-grid:" + ("shape-preserving" if keeps else "shape-changing") + (":neg-step" if neg else ""))
            if any(it[0] == "e" for it in index):
                ctx.count("getslice-grid:with-ellipsis")
            if any(it[0] == "none" for it in index):
                ctx.count("getslice-grid:with-none")
        else:
            ctx.count(f"getslice-grid:{kind}")
        ctx.count(f"getslice-grid:inputs={len(ins)}")
        if not ok:
            wtab = [(c_[0], [float(x) for x in c_[1]]) for c_ in want]
            ctx.fail("input", "C01.getslice-ne-numpy", witness=gen_terms.describe(recipe),
                     expected=("numpy data[p][index] at every named point p: " + str(wtab))[:600],
                     got=(err or str([(c_[0], [float(x) for x in c_[1]]) for c_ in got]))[:600],
                     python=replay_python(recipe, None, wtab, ins))
            continue
        ctx.case(sample={"stream": "getslice-grid", "expr": gen_terms.python_of(recipe)[:200]},
                 nontrivial_key=("getslice-grid", gen_terms.python_of(recipe)) if (ins or kind != "plain") else None)


def _ins_of_tensor_leaves(r):
    out = set()
    if isinstance(r, tuple):
        if r and r[0] == "tensor":
            return set((n, int(s_)) for n, s_ in r[1])
        if r and r[0] == "reduce":
            return _ins_of_tensor_leaves(r[2]) - set(p for p in _ins_of_tensor_leaves(r[2]) if p[0] in r[3])
        for x in r:
            if isinstance(x, tuple):
                out |= _ins_of_tensor_leaves(x)
    return out


def run_finstack(ctx):
    """eager_finitary_stack at EVERY dim (Model/C01Fin.lean `finStack`, Props/C01/FinStack.lean `finStack_sem`):
    2-3 Tensor/Number parts with the same inputs in random relative orders (or, 25%, different input sets: the rule
    aligns without expand=True, so numpy raises unless the missing inputs have size 1), a common event shape of rank 0-2, every dim in
    [-rank-1, rank] (plus one out-of-range dim each way).  Gate: `ops.stack(parts, dim)` raises / stays lazy (counted
    decline) or equals numpy's stack of the pointwise values AND the model; layout (inputs order) is counted."""
    rng = ctx.rng
    names = ["i", "j", "k"]
    orders = [(), ("i",), ("j", "i"), ("i", "j"), ("k", "i"), ("j", "k", "i"), ("i", "k", "j")]
    size_sets = [{"i": 2, "j": 2, "k": 2}, {"i": 2, "j": 3, "k": 2}, {"i": 1, "j": 2, "k": 1}]
    shapes = [(), (2,), (2, 3)]
    todo, reqs = [], []
    for ev in shapes:
        rank = len(ev)
        for dim in range(-rank - 2, rank + 2):
            for sizes in size_sets:
                for _ in range(3 if ctx.tier == "quick" else 12):
                    nparts = rng.choice([2, 2, 3])
                    parts = []
                    # the rule aligns WITHOUT expand: it only returns when the parts have the same input set (up to
                    # size-1 inputs), so most cases permute one set; the rest exercise the decline
                    base = rng.choice(orders)
                    same = rng.random() < 0.75
                    for _k in range(nparts):
                        if rank == 0 and rng.random() < 0.2:
                            parts.append(Number(float(rng.choice([-1, 0, 2, 5]))))
                            continue
                        order = tuple(rng.sample(base, len(base))) if same else rng.choice(orders)
                        full = tuple(sizes[n] for n in order) + ev
                        cnt = int(np.prod(full)) if full else 1
                        data = np.array([rng.choice([-2, -1, 0, 1, 2, 3, 4]) for _ in range(cnt)],
                                        dtype=np.float64).reshape(full)
                        parts.append(Tensor(data, OrderedDict((n, Bint[sizes[n]]) for n in order)))
                    try:
                        res = ops.stack(tuple(parts), dim)
                    except Exception as e:
                        res = e
                    ok_dim = -rank - 1 <= dim <= rank
                    d = dim if dim >= 0 else rank + 1 + dim
                    todo.append((parts, dim, ev, res, ok_dim))
                    wires = [ser.to_wire(q) for q in parts]
                    reqs.append(f"C01 finstack {d if ok_dim else rank + 1} {sx(wires)}")
    answers = ctx.driver.ask(reqs)
    for (parts, dim, ev, res, ok_dim), ans in zip(todo, answers):
        desc = {"parts": [[list(q.inputs), list(q.output.shape)] for q in parts], "dim": dim}
        ctx.case(sample=desc, nontrivial_key=None)
        try:
            nt = nt_of_answer(ans)
        except Exception:
            ctx.infra_errors.append(f"driver finstack: {ans[:200]}")
            continue
        if not isinstance(res, (Tensor, Number)):
            ctx.count("finstack:impl-declined" + ("" if ok_dim else ":dim-out-of-range"))
            if nt is not None and ok_dim:
                ctx.count("finstack:model-defined-impl-declined")
            continue
        if not ok_dim:
            ctx.count("finstack:impl-value-at-out-of-range-dim")
            continue
        # textbook value: numpy stack of the parts' values at every point of the union of the inputs
        union = OrderedDict()
        for q in parts:
            union.update((n, v.size) for n, v in q.inputs.items())
        ins = list(union.items())
        good = True
        for pt in itertools.product(*[range(s_) for _, s_ in ins]):
            env = dict(zip(union, pt))
            vals = [np.asarray(q.data)[tuple(env[n] for n in q.inputs)] if isinstance(q, Tensor)
                    else np.asarray(q.data) for q in parts]
            want = np.stack([np.asarray(v, dtype=np.float64) for v in vals], dim)
            got = res(**{n: int(v) for n, v in env.items() if n in res.inputs})
            if not (isinstance(got, (Tensor, Number)) and not got.inputs
                    and np.array_equal(np.asarray(got.data, dtype=np.float64), want)):
                good = False
                break
        if not good:
            ctx.fail("input", "C01.finitary-stack-wrong-value", witness=desc, expected="numpy stack of pointwise values",
                     got=str(res)[:200])
            continue
        ctx.count("finstack:impl-equals-textbook")
        if nt is None:
            ctx.count("finstack:model-declined-impl-value")
            ctx.infra_errors.append(f"finStack model declined where ops.stack returned: {desc}")
            continue
        m_ins, m_shape, m_data = nt
        i_ins = [(n, int(v.size)) for n, v in res.inputs.items()]
        i_data = [Fraction(float(x)) for x in np.asarray(res.data, dtype=np.float64).reshape(-1)]
        if m_ins == i_ins and m_shape == list(res.output.shape) and [Fraction(x) for x in m_data] == i_data:
            ctx.count("finstack:model-equals-impl-exactly(inputs,shape,data)")
        else:
            ctx.fail("correspondence", "C01.finstack-model-differs", witness=desc,
                     expected=str((m_ins, m_shape)), got=str((i_ins, list(res.output.shape))))


def quick_skip(rng, ctx):
    return ctx.tier == "quick" and rng.random() < 0.5


def stream_getitem_enum(ctx):
    """getitem at EVERY offset, enumerated: event shapes incl. square ones x tensors with 0-2 named inputs (sizes
    equal to event sizes) x index kind (number, fresh variable, variable that is an input of a sibling, index
    tensor with its own input, index tensor sharing an input with the indexed tensor) x spelling
    (`x[:, k]`, `x[..., k]`, `x[:, k, ...]`, chained `x[i][:, k]`)."""
    rng = ctx.rng
    cases = []
    shapes = [(3, 3), (2, 2), (2, 2, 2), (2, 3, 2), (2, 3), (3, 2, 3), (1, 2)]
    batches = [(), (("i", 2),), (("i", 3),), (("j", 2), ("i", 3)), (("i", 2), ("j", 2))]
    for shape in shapes:
        for ins in batches:
            full = tuple(s_ for _, s_ in ins) + shape
            data = np.array([rng.choice([-2, -1, 0, 1, 2, 3, 4, 5]) for _ in range(int(np.prod(full)))],
                            dtype=np.float64).reshape(full)
            t = ("tensor", ins, "real", shape, data)
            for off in range(len(shape)):
                n = shape[off]
                own = ("tensor", (("m", 2),), n, (), np.array([rng.randrange(n) for _ in range(2)], dtype=np.int64))
                idxs = [("r", ("num", rng.randrange(n), n)), ("n", "k"), ("r", own)]
                if ins:
                    b0 = ins[0]
                    idxs.append(("r", ("tensor", (b0,), n, (),
                                       np.array([rng.randrange(n) for _ in range(b0[1])], dtype=np.int64))))
                for item in idxs:
                    spell = [tuple(("s",) for _ in range(off)) + (item,)]
                    if off == len(shape) - 1 and off > 0:
                        spell.append((("e",), item))
                    if off < len(shape) - 1:
                        spell.append(tuple(("s",) for _ in range(off)) + (item, ("e",)))
                    for items in spell:
                        cases.append(Case("getitem", ("getsugar", t, items)))
            # chained: name a leading output dim first (gives the tensor a named input), then a later dim
            if len(shape) >= 3 and not ins:
                for off in (1, 2):
                    cases.append(Case("getitem", ("getsugar", ("getsugar", t, (("n", "i"),)),
                                                  tuple(("s",) for _ in range(off - 1)) + (("n", "k"),))))
    ctx.count("getitem:enumerated", len(cases))
    return cases


# ---- exhaustive stratum ------------------------------------------------------------------------------

EXH_CTX = OrderedDict([("i", 2), ("j", 2), ("k", 3)])


def exh_leaves():
    def T(ins, vals):
        shape = tuple(EXH_CTX[n] for n in ins)
        return ("tensor", tuple((n, EXH_CTX[n]) for n in ins), "real", (),
                np.array(vals, dtype=np.float64).reshape(shape))
    return [T(["i"], [1, -2]), T(["i", "j"], [1, 2, 3, -1]), T(["j", "i"], [0, 1, 2, 3]),
            T(["k"], [2, 0, -1]), T(["j", "k"], [1, 2, 3, 4, 5, 6]), ("num", 2.0, "real")]


def _ins_of(r):
    if r[0] == "tensor":
        return [n for n, _ in r[1]]
    try:
        return list(syntax(r).inputs)
    except Exception:
        return []


def exh_apply1(args):
    """All one-constructor expressions over the argument pool `args` (unary constructors) ."""
    out = []
    for a in args:
        ins = _ins_of(a)
        out.append(("unary", "neg", a))
        for op in ("add", "max", "mul"):
            for n in ins:
                out.append(("reduce", op, a, (n,), ()))
            if len(ins) > 1:
                out.append(("reduce", op, a, tuple(ins), ()))
            for z in EXH_CTX:
                if z not in ins:
                    out.append(("reduce", op, a, (), ((z, EXH_CTX[z]),)))
                    if ins:
                        out.append(("reduce", op, a, (ins[0],), ((z, EXH_CTX[z]),)))
                    break
        for n in ins:
            size = EXH_CTX[n]
            out.append(("subs", a, ((n, ("num", size - 1, size)),)))
            for m, s in EXH_CTX.items():
                if m != n and s == size:
                    out.append(("subs", a, ((n, ("var", m, size)),)))
            out.append(("lamget", n, size, a, ("num", 0, size)))
            for m, s in EXH_CTX.items():
                if s == size and m != n:
                    out.append(("lamget", n, size, a, ("var", m, size)))
        if len(ins) >= 2 and EXH_CTX[ins[0]] == EXH_CTX[ins[1]]:
            out.append(("subs", a, ((ins[0], ("var", ins[1], EXH_CTX[ins[0]])), (ins[1], ("var", ins[0], EXH_CTX[ins[0]])))))
    return out


def exh_apply2(xs, ys):
    out = []
    for a in xs:
        for b in ys:
            for op in ("add", "mul", "max"):
                out.append(("binary", op, a, b))
    return out


def stream_exhaustive(ctx):
    L = exh_leaves()
    d1 = exh_apply1(L) + exh_apply2(L, L)
    for nm in ("i", "k"):
        pool = [x for x in L if nm not in _ins_of(x)][:3]
        for parts in itertools.product(pool, repeat=EXH_CTX[nm]):
            d1.append(("stack", nm, tuple(parts)))
    d2 = exh_apply1(d1) + exh_apply2(d1, L) + exh_apply2(L, d1)
    ctx.count("exh:depth0", len(L))
    ctx.count("exh:depth1", len(d1))
    ctx.count("exh:depth2", len(d2))
    return [Case("exh", r) for r in L + d1 + d2 if not in_open_region(ctx, r)]


# ---- dedicated stream for the open finding KF-minmax-mul-negative ---------------------------------------

def stream_known_minmax(ctx):
    """KF-minmax-mul-negative: min/max over a lazy product with a negative factor."""
    from funsor.terms import Stack
    s = Stack("k", (Number(-1.0), Number(2.0)))
    t = Tensor(np.array([2.0, 1.0]), OrderedDict(j=Bint[2]))
    try:
        y = (s * t).reduce(ops.min, frozenset(["j", "k"]))
        got = float(np.asarray(y.data)) if isinstance(y, (Tensor, Number)) else None
        reproduced = got is not None and got != -2.0
    except DECLINE:
        got, reproduced = None, False
    ctx.count("known:minmax-mul:" + ("reproduced" if reproduced else "not-reproduced"))
    if not ctx.known(KF_MINMAX, reproduced, what="(Stack('k',(-1,2)) * Tensor([2,1],{j})).reduce(min,{j,k}) = -1, expected -2"):
        if reproduced:
            ctx.fail("input", "C01.minmax-mul-negative",
                     witness=["reduce", "min", ["binary", "mul", ["stack", "k", [["num", -1.0], ["num", 2.0]]],
                                                ["tensor", [["j", 2]], [2.0, 1.0]]], ["j", "k"]],
                     expected="-2.0", got=str(got),
                     python=gen_terms.PY_HEADER +
                     "s = Stack('k', (Number(-1.0), Number(2.0)))\nt = Tensor(np.array([2.0, 1.0]), OrderedDict(j=Bint[2]))\n"
                     "y = (s * t).reduce(ops.min, frozenset(['j', 'k']))\nprint(y)\nFAILS = float(y.data) != -2.0\n")


def stream_known_reduce_andor(ctx):
    """KF-reduce-andor-logical-on-ints: Reduce(or_/and_) over a named input of a NON-boolean integer tensor
    goes through np.any / np.all (logical) while the binary ops are bitwise: [3,5].reduce(or_) is True, the
    fold 3|5 is 7."""
    t = Tensor(np.array([3, 5]), OrderedDict(i=Bint[2]), 8)
    try:
        y = t.reduce(ops.or_, "i")
        got = int(np.asarray(y.data)) if isinstance(y, (Tensor, Number)) else None
        reproduced = got is not None and got != 7
    except DECLINE:
        got, reproduced = None, False
    ctx.count("known:reduce-andor:" + ("reproduced" if reproduced else "not-reproduced"))
    if not ctx.is_open(KF_REDUCE_ANDOR):
        # reported to the integrator; not (yet) listed in known_findings.json: recorded, not gated
        ctx.extra["unlisted_finding_" + KF_REDUCE_ANDOR] = {"reproduced": reproduced, "got": got, "expected": 7}
        return
    ctx.known(KF_REDUCE_ANDOR, reproduced,
              what="Tensor([3,5],{i},Bint[8]).reduce(ops.or_,'i') = True (logical any), the fold 3|5 = 7")


# ---------------------------------------------------------------------------------------------
# entry points
# ---------------------------------------------------------------------------------------------

def correspond(ctx):
    quick = ctx.tier == "quick"
    ctx.rule = (
        "streams: rand = type-directed expressions (fv/gen_terms.gen_expr) of depth <= 4 over 1-4 named Bint inputs of "
        "sizes 1-4 (tensors, numbers, binary/unary, reductions incl. absent variables, substitutions incl. renaming "
        "collisions/index tensors/slices, Stack, Cat, Lambda+getitem); ext = extended kinds (array outputs: Lambda, "
        "ops.stack/cat, einsum, output-axis reductions with axis/keepdims, reshape, getslice, broadcasting; comparisons "
        "and boolean ops; getitem by number/variable/tensor); lazy = real-valued free inputs bound at dyadic points and "
        "Independent; exh (thorough) = all expressions of depth <= 2 over {i:2,j:2,k:3} from a fixed pool of 6 leaves. "
        "getslice-grid = enumerated plain indices x[index] on eager Tensors (every per-axis combination of full / "
        "full-extent-reversed / partial-negative-step / strided slices, ints, None, Ellipsis; 0-2 named inputs; chained and "
        "consumed downstream) against numpy data[p][index] and Model/C01Slice.slicePositions. "
        "Every case is decided on its whole input space against Lean `denote`; peval (the NT model) is echoed against "
        "denote; completeness is gated on the core fragment. Non-trivial = >= 3 constructors and a Tensor result with "
        ">= 1 input or event dim; distinct by full content.")
    n_rand, n_ext, n_lazy = (2400, 2400, 500) if quick else (30000, 30000, 6000)
    run_cases(ctx, stream_random(ctx, n_rand))
    run_cases(ctx, stream_ext(ctx, n_ext))
    lazy_cases = stream_lazy(ctx, n_lazy)
    run_cases(ctx, lazy_cases)
    run_independent_echo(ctx, lazy_cases)
    if not quick:
        run_cases(ctx, stream_exhaustive(ctx))
        ctx.extra["exhaustive_stratum"] = "all depth<=2 expressions over the fixed pool enumerated"
    run_cases(ctx, stream_bitwise(ctx, 120 if quick else 3000))
    run_cases(ctx, stream_slice_compose(ctx))
    run_cases(ctx, stream_getitem_enum(ctx))
    run_cases(ctx, stream_binary_orders(ctx))
    run_sugar_declines(ctx)
    run_getslice_grid(ctx)
    run_phi(ctx, 400 if quick else 8000)
    run_outred(ctx, quick)
    run_named_agg(ctx, quick)
    run_finstack(ctx)
    stream_known_minmax(ctx)
    stream_known_reduce_andor(ctx)
    # fidelity percentages
    for st in ("rand", "ext", "exh"):
        tot = ctx.distribution.get(f"{st}:fidelity:compared", 0)
        if tot:
            ctx.extra[f"fidelity_{st}"] = {
                "compared": tot,
                "inputs_order_equal_pct": round(100.0 * ctx.distribution.get(f"{st}:fidelity:inputs-order-equal", 0) / tot, 2),
                "data_layout_equal_pct": round(100.0 * ctx.distribution.get(f"{st}:fidelity:data-layout-equal", 0) / tot, 2)}
    ctx.assumptions.append("transcendental ops (exp, log, sigmoid, sqrt, tanh, …) are uninterpreted scalar functions: numpy's "
                           "function applied to Lean's exact argument table is the reference (structure proved for any φ in "
                           "Props/C01/Phi.lean); compared to 1e-12")
    ctx.assumptions.append("and/or/xor are bitwise on integers in funsor and in the spec (compared on booleans and on small "
                           "non-boolean ints); invert, named Reduce(and_/or_) and all/any are compared on numpy-bool data only")
    ctx.assumptions.append("syntax for Lean is built under `reflect` with Reduce._alpha_convert made tolerant of reduced "
                           "variables absent from the argument (plain reflect raises KeyError there); eager runs unpatched")


def search(ctx, broken):
    """Hunt for a concrete failing input with the Python-side oracle `py_eval` (no Lean needed)."""
    rng = ctx.rng
    n = 15000 if ctx.tier == "quick" else 150000
    found = 0
    for t in range(n):
        c = gen_ctx(rng)
        depth = rng.choice([1, 2, 2, 3, 3])
        if t % 2 == 0:
            recipe, _ = gen_terms.gen_expr(rng, c, depth, "real")
        else:
            kind = rng.choice(["real", "real", "bool", ("array", (2,)), ("array", (2, 3))])
            recipe, _ = gen_terms.gen_expr(rng, c, depth, kind, ext=True)
        if in_open_region(ctx, recipe):
            continue
        if py_disagrees(recipe):
            small = gen_terms.shrink(recipe, py_disagrees)
            ctx.fail("input", "C01.eager-ne-oracle", witness=gen_terms.describe(small),
                     expected="pointwise python oracle (fv/harness/c01.py: py_eval)", got="eager result differs",
                     python=replay_python(small))
            found += 1
            if found >= 3:
                return
        if is_core(recipe) and _incomplete(recipe):
            ctx.fail("input", "C01.core-incomplete", witness=gen_terms.describe(recipe),
                     expected="Tensor/Number", got=str(evaluate(recipe)[1])[:200], python=replay_python(recipe))
            found += 1
            if found >= 3:
                return


def py_disagrees(recipe):
    try:
        syn = syntax(recipe)
    except Exception:
        return False
    if any(v.dtype == "real" or v.shape for v in syn.inputs.values()):
        return False
    ins = sorted((k, int(v.size)) for k, v in syn.inputs.items())
    s, val = evaluate(recipe)
    if s != "value" or not isinstance(val, (Tensor, Number)):
        return False
    if set(val.inputs) - set(syn.inputs):
        return True
    try:
        impl = ser.impl_values(val, ins)
        want = py_table(recipe, ins, {})
    except (KeyError,):
        return True
    except Exception:
        return False
    return not ser.tables_equal(impl, want)[0] and not beyond_float(recipe, {})


def replay(ctx, doc):
    py = doc.get("python")
    if not py:
        return True
    g = {}
    try:
        exec(py, g)
    except Exception:
        return True
    return bool(g.get("FAILS", False))
