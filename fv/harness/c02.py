"""
C02 — every rewrite step of an exact interpretation preserves value.

(A) Per-firing correspondence (the property's own quantifier).  The `dispatch` attribute of every
    DispatchedInterpretation instance is wrapped at run time (fv/harness/c02_rec.py; /repo untouched).
    For every firing `rule_fn(*args) -> result` (result not None) observed while running a battery of
    programs, the reflected term `reflect.interpret(cls, *args)` and `result` are serialised and the Lean
    driver decides `denote result = denote reflected` on the whole joint finite input space (exactly);
    `result.inputs ⊆ reflected.inputs` is checked in Python.  Firings outside the exact Lean fragment
    (logaddexp, exp/log, …) are decided by the independent Python oracle `py_denote` with rtol 1e-9.
    For rules with a Lean model (Model/C02.lean) the driver additionally applies the *model rule* to the
    reflected term and compares its result with the implementation's (tie of the proved rules to the code).
(B) `extract` dumps every registered rule of every interpretation registry into Gen/C02Registry.lean;
    Props/C02.lean proves by `decide` that each entry is classified (modelled / declaredUnmodelled).
(C) Lean rule models + soundness theorems + interp_sound: Model/C02.lean, Props/C02.lean.
"""
import inspect
import json
import time
from collections import OrderedDict, Counter
from pathlib import Path

import numpy as np

from ..common import sx, LEAN, REPO, Q
from .. import futil, ser, gen_terms
from ..futil import funsor, Tensor, Number, Variable
from . import c02_rec as R
from . import c02_extra as X

import funsor.ops as ops
import funsor.interpretations as FI
import funsor.optimizer as FO
from funsor.interpreter import reinterpret
from funsor.interpretations import reflect
from funsor.terms import Funsor

GEN = LEAN / "FunsorVerif" / "Gen"

# rule function qualname -> names of the Lean rule models (Model/C02.lean `ruleTable`) it is tied to
LEAN_RULES = {
    "funsor.cnf.binary_to_contract": ["binaryToContract"],
    "funsor.cnf.reduce_funsor": ["reduceToContract"],
    "funsor.cnf.normalize_trivial": ["contractionTrivial"],
    "funsor.cnf.normalize_contraction_generic_tuple": [
        "contractionNoVars", "contractionSingleTerm", "contractionTrivial", "contractionDropUnits",
        "contractionFlattenBin", "contractionFlattenRed", "contractionFuseSameRed"],
    "funsor.terms.eager_subs_subs": ["subsFuse"],
    "funsor.terms.eager_binary_number_number": ["numberBinary"],
    "funsor.terms.eager_unary": ["numberUnary"],
    "funsor.terms.eager_getitem_lambda": ["lambdaGetitem"],
    "funsor.terms.eager_subs_funsor": ["stackSelect"],
    "funsor.terms.eager_reduce": ["reduceUnrelated", "reduceUnrelatedMul"],
    "funsor.terms.lazy_reduce": ["reduceUnrelated", "reduceUnrelatedMul"],
    "funsor.terms.sequential_reduce": ["reduceUnrelated", "reduceUnrelatedMul"],
    "funsor.terms.moment_matching_reduce": ["reduceUnrelated", "reduceUnrelatedMul"],
    "funsor.cnf.eager_contraction_to_reduce": ["contractionToReduce"],
    "funsor.cnf.eager_contraction_to_binary": ["contractionToBinary"],
    "funsor.cnf.normalize_fuse_subs": ["subsFuseNormalize"],
}

RTOL = 1e-9

# ---------------------------------------------------------------------------------------------
# (B) translator: live registries -> Gen/C02Registry.lean
# ---------------------------------------------------------------------------------------------


def tstr(t):
    """str() of a term; funsor's own __str__ asserts on some legal terms (Reduce over no variable)."""
    try:
        return str(t)
    except Exception:
        try:
            return f"{type(t).__name__}(" + ", ".join(tstr(a) for a in getattr(t, "_ast_values", ())) + ")"
        except Exception:
            return f"<{type(t).__name__}>"


def _tname(t):
    import re as _re
    r = repr(t)
    r = _re.sub(r"<class '([^']*)'>", lambda m: m.group(1).split(".")[-1], r)
    r = r.replace("typing_wrap[", "[").replace("typing.", "").replace("multipledispatch.variadic.", "")
    if r.startswith("[") and r.endswith("]") and r.count("[") == 1:
        r = r[1:-1]
    return r


def registry_entries():
    """[(interpretation, term class, rule qualname, signature string, 'file:line')] sorted, de-duplicated
    by (interpretation, class, rule) — one rule function registered under several signatures is one entry
    per class with the signatures joined."""
    by = OrderedDict()
    for iname, it in R.all_interps().items():
        for key, disp in it.registry.registry.items():
            for sig, fn in disp.funcs.items():
                if isinstance(fn, funsor.registry.PartialDefault):
                    continue
                q = R.qualname(fn)
                try:
                    src = Path(inspect.getsourcefile(fn)).resolve()
                    try:
                        src = src.relative_to(REPO.resolve())
                    except ValueError:
                        pass
                    line = inspect.getsourcelines(fn)[1]
                except (TypeError, OSError):
                    src, line = "?", 0
                k = (iname, key.__name__, q)
                ent = by.setdefault(k, {"sigs": [], "src": f"{src}:{line}"})
                if f":{line}" not in ent["src"]:
                    ent["src"] += f",{line}"       # distinct functions sharing a qualified name
                ent["sigs"].append("<" + ", ".join(_tname(s) for s in sig) + ">")
    out = []
    for (iname, cls, q), ent in sorted(by.items()):
        out.append((iname, cls, q, " | ".join(sorted(set(ent["sigs"]))), ent["src"]))
    return out


def ast_register_count():
    """Number of `@<interp>.register(` decorators in the source (cross-check of the live dump)."""
    import ast
    n = 0
    names = {"eager", "normalize", "lazy", "sequential", "moment_matching", "unfold", "optimize", "die",
             "compress_gaussians"}
    for f in sorted((REPO / "funsor").glob("*.py")):
        try:
            tree = ast.parse(f.read_text())
        except SyntaxError:
            continue
        for node in ast.walk(tree):
            if isinstance(node, ast.FunctionDef):
                for d in node.decorator_list:
                    if (isinstance(d, ast.Call) and isinstance(d.func, ast.Attribute) and d.func.attr == "register"
                            and isinstance(d.func.value, ast.Name) and d.func.value.id in names):
                        n += 1
    return n


def stateful_rule_modules():
    """AST scan of the modules that own registered rules: module-level / closure state a rule's result could depend
    on besides its arguments — memo classes and instances, functools caches, module-level mutable containers.
    -> {module: [description, ...]}"""
    import ast
    mods = sorted(set(q.rsplit(".", 1)[0] for _, _, q, _, _ in registry_entries()))
    out = OrderedDict()
    for m in mods:
        f = REPO / (m.replace(".", "/") + ".py")
        if not f.exists():
            f = REPO / m.replace(".", "/") / "__init__.py"
        try:
            tree = ast.parse(f.read_text())
        except (OSError, SyntaxError):
            continue
        found = []
        for node in ast.walk(tree):
            if isinstance(node, ast.ClassDef):
                attrs = [n for n in ast.walk(node) if isinstance(n, ast.Attribute) and isinstance(n.ctx, ast.Store)
                         and "cache" in n.attr.lower()]
                if attrs or "memo" in node.name.lower():
                    found.append(f"class {node.name} (line {node.lineno}): stores {sorted(set(a.attr for a in attrs))}")
            if isinstance(node, ast.FunctionDef):
                for d in node.decorator_list:
                    name = ast.unparse(d)
                    if "lru_cache" in name or name.endswith("cache") or "memoize" in name.lower():
                        found.append(f"def {node.name} (line {node.lineno}): @{name}")
            if isinstance(node, ast.Call) and isinstance(node.func, ast.Name) and node.func.id in ("_Memoized",):
                found.append(f"{node.func.id}(...) instance created at line {node.lineno}")
        for node in tree.body:
            if isinstance(node, ast.Assign) and isinstance(node.value, (ast.Dict, ast.List, ast.Set)) is False:
                v = node.value
                if isinstance(v, ast.Call) and ast.unparse(v.func).split(".")[-1] in (
                        "dict", "defaultdict", "OrderedDict", "WeakValueDictionary", "WeakKeyDictionary", "Counter"):
                    found.append(f"module-level {ast.unparse(node.targets[0])} = {ast.unparse(v.func)}(...) (line {node.lineno})")
        if found:
            out[m] = sorted(set(found))
    return out


def write_if_changed(path, text):
    if path.exists() and path.read_text() == text:
        return False
    path.write_text(text)
    return True


def lean_str(s):
    return '"' + s.replace("\\", "\\\\").replace('"', '\\"') + '"'


def extract(ctx):
    ents = registry_entries()
    lines = ["-- GENERATED by fv/harness/c02.py extract() from the live funsor at FUNSOR_REPO; do not edit.",
             "namespace FV.Gen.C02", "",
             "structure Entry where",
             "  interp : String   -- interpretation (registry) name",
             "  cls : String      -- term class the rule is keyed on",
             "  rule : String     -- qualified name of the registered rule function",
             "  sigs : String     -- registered signature(s)",
             "  src : String      -- source file:line of the function",
             "  deriving Repr, DecidableEq", "",
             "def registry : List Entry := ["]
    rows = [f"  ⟨{lean_str(i)}, {lean_str(c)}, {lean_str(q)}, {lean_str(s)}, {lean_str(src)}⟩"
            for i, c, q, s, src in ents]
    lines.append(",\n".join(rows))
    lines += ["]", "", "end FV.Gen.C02", ""]
    changed = write_if_changed(GEN / "C02Registry.lean", "\n".join(lines))
    ctx.extra["extract"] = {"entries": len(ents), "rule_functions": len(set(e[2] for e in ents)),
                            "register_decorators_in_source": ast_register_count(),
                            "rewritten": changed}


# ---------------------------------------------------------------------------------------------
# programs
# ---------------------------------------------------------------------------------------------

SEMIRINGS = {
    # name: (sum, prod, data kind)
    "add-mul": ("add", "mul", "int"),
    "max-add": ("max", "add", "int"),
    "min-add": ("min", "add", "int"),
    "max-mul": ("max", "mul", "nonneg"),
    "min-mul": ("min", "mul", "nonneg"),
    "or-and": ("or", "and", "bool"),
    "logaddexp-add": ("logaddexp", "add", "log"),
}


def sp_tensor(rng, ctx, names, kind):
    shape = tuple(ctx[n] for n in names)
    n = int(np.prod(shape)) if shape else 1
    if kind == "int":
        vals, dt, npd = [rng.choice([-2, -1, 0, 1, 1, 2, 3]) for _ in range(n)], "real", np.float64
    elif kind == "nonneg":
        vals, dt, npd = [rng.choice([0, 1, 1, 2, 3]) for _ in range(n)], "real", np.float64
    elif kind == "bool":
        vals, dt, npd = [rng.choice([0, 1]) for _ in range(n)], 2, np.int64
    elif kind == "log":
        with np.errstate(divide="ignore"):
            vals = [float(np.log(rng.choice([0.25, 0.5, 1.0, 1.0, 2.0, 3.0]))) for _ in range(n)]
        dt, npd = "real", np.float64
    else:
        raise ValueError(kind)
    return ("tensor", tuple((nm, ctx[nm]) for nm in names), dt, (), np.array(vals, dtype=npd).reshape(shape))


def gen_sumproduct(rng, sr):
    """Nested sums of products over one semiring, as a gen_terms recipe."""
    s_op, p_op, kind = SEMIRINGS[sr]
    names = ["a", "b", "c", "d", "e"][: rng.choice([2, 3, 3, 4, 4, 5])]
    ctx = OrderedDict((n, rng.choice([1, 2, 2, 3])) for n in names)

    pool = []

    def leaf():
        # the very same leaf object may occur several times (funsors are cons-hashed: a repeated factor is ONE
        # object, which matters to rules that key dicts/counters by term)
        if pool and rng.random() < 0.3:
            return rng.choice(pool)
        r = fresh_leaf()
        if r[0][0] == "tensor":
            pool.append(r)
        return r

    def fresh_leaf():
        k = rng.choice([0, 1, 1, 2, 2, 3])
        ns = rng.sample(names, min(k, len(names)))
        if not ns and rng.random() < 0.5:
            unit = {"mul": 1.0, "add": 0.0, "and": 1}[p_op]
            v = unit if rng.random() < 0.5 else ({"bool": 1, "log": 0.0}.get(kind, 2.0))
            return ("num", v, 2 if kind == "bool" else "real"), set()
        return sp_tensor(rng, ctx, ns, kind), set(ns)

    def expr(depth):
        if depth <= 0 or rng.random() < 0.2:
            return leaf()
        c = rng.random()
        if c < 0.5:
            k = rng.choice([2, 2, 2, 3])
            parts = [expr(depth - 1) for _ in range(k)]
            r, free = parts[0]
            for q, fq in parts[1:]:
                r = ("binary", p_op, r, q)
                free = free | fq
            return r, free
        if c < 0.6 and kind not in ("bool",):
            # a sum of two sub-expressions (exercises distribution in unfold)
            (x, fx), (y, fy) = expr(depth - 1), expr(depth - 1)
            return ("binary", s_op, x, y), fx | fy
        a, fa = expr(depth - 1)
        rv = [n for n in sorted(fa) if rng.random() < 0.6]
        absent = [n for n in names if n not in fa and rng.random() < 0.1]
        if not rv and not absent:
            if not fa:
                return a, fa
            rv = [rng.choice(sorted(fa))]
        return ("reduce", s_op, a, tuple(rv), tuple((n, ctx[n]) for n in absent)), fa - set(rv)

    r, free = expr(rng.choice([2, 2, 3, 3, 4]))
    if free and rng.random() < 0.7:
        rv = [n for n in sorted(free) if rng.random() < 0.7] or [sorted(free)[0]]
        r = ("reduce", s_op, r, tuple(rv), ())
    return r


MODES = ["eager", "lazy", "reflect>eager", "lazy>eager", "reflect>normalize", "reflect>lazy",
         "reflect>optimizer", "lazy>optimizer", "reflect>sequential", "reflect>moment_matching",
         "normalize>eager", "normalize>sequential"]

_INTERP = {"eager": FI.eager, "lazy": FI.lazy, "reflect": FI.reflect, "normalize": FI.normalize,
           "optimizer": None,
           "sequential": FI.sequential, "moment_matching": FI.moment_matching}


def run_program(rec, recipe, mode, prog_id=None):
    """Run one program with recording on.  -> (status, value)"""
    def thunk():
        if ">" not in mode:
            with _INTERP[mode]:
                return gen_terms.build(recipe)
        first, second = mode.split(">")
        with _INTERP[first]:
            e = gen_terms.build(recipe)
        if second == "optimizer":
            return FO.apply_optimizer(e)
        with _INTERP[second]:
            return reinterpret(e)
    return rec.run(prog_id, thunk)


def recipe_to_json(r):
    if isinstance(r, np.ndarray):
        return {"nd": r.tolist(), "dtype": str(r.dtype), "shape": list(r.shape)}
    if isinstance(r, tuple):
        return [recipe_to_json(x) for x in r]
    return r


def recipe_from_json(j, _arrays=None):
    """Inverse of recipe_to_json.  Arrays with equal content become ONE ndarray object, so that a leaf that
    occurred several times in the original program is again one cons-hashed Tensor (object identity of
    repeated factors matters to some rules)."""
    if _arrays is None:
        _arrays = {}
    if isinstance(j, dict):
        key = (j["dtype"], tuple(j["shape"]), json.dumps(j["nd"]))
        if key not in _arrays:
            _arrays[key] = np.array(j["nd"], dtype=j["dtype"]).reshape(j["shape"])
        return _arrays[key]
    if isinstance(j, list):
        return tuple(recipe_from_json(x, _arrays) for x in j)
    return j


# ---------------------------------------------------------------------------------------------
# per-firing check
# ---------------------------------------------------------------------------------------------

def oracle_check(refl, res, points):
    """Python oracle: -> ('same'|'differ'|'unsupported'|'undef', detail)"""
    try:
        for p in points:
            a = R.py_denote(refl, p)
            b = R.py_denote(res, p)
            if not R.py_equal(a, b, RTOL):
                return "differ", {"point": {k: (float(v) if isinstance(v, float) else int(v)) for k, v in p.items()},
                                  "reflected": np.asarray(a).tolist(), "result": np.asarray(b).tolist()}
    except R.OracleUnsupported as e:
        return "unsupported", str(e)
    except (NotImplementedError, AssertionError, ValueError, TypeError, KeyError, IndexError, AttributeError,
            ZeroDivisionError, OverflowError) as e:
        return "undef", f"{type(e).__name__}: {str(e)[:80]}"
    return "same", None


def wire_of(t):
    """ser.to_wire extended to the Pseudo reflected terms of c02_rec."""
    if isinstance(t, R.Pseudo):
        if t.kind == "same":
            return ser.to_wire(t.arg)
        if t.kind == "reduce":
            n = ser.opname(t.op)
            if n not in ser.ASSOC:
                raise ser.Unsupported(f"reduce op {n}")
            return ["reduce", n, ser.to_wire(t.arg), ser.vars_wire(t.reduced_vars)]
        r, b = ser.opname(t.red_op), ser.opname(t.bin_op)
        if r not in ser.ASSOC or b not in ser.ASSOC:
            raise ser.Unsupported(f"contraction ops {r},{b}")
        return ["contraction", r, b, ser.vars_wire(t.reduced_vars)] + [ser.to_wire(x) for x in t.terms]
    return ser.to_wire(t)


def eval_cost(t, cap=10 ** 7):
    """Rough number of leaf evaluations of the brute-force value of `t` at one point."""
    def go(x):
        chs = R.subfunsors(x)
        c = 1 + len(chs) * len(chs)     # the spec's product is a right-nested fold re-evaluated per level
        for ch in chs:
            c += go(ch)
            if c > cap:
                return cap
        b = getattr(x, "bound", None)
        if b:
            for d in b.values():
                try:
                    c *= max(1, int(d.size)) if isinstance(d.dtype, int) and not d.shape else 1
                except Exception:
                    pass
        return min(c, cap)
    return go(t) if isinstance(t, (Funsor, R.Pseudo)) else 1


def carrier_violation(*terms):
    """The property is stated within the carrier on which the semiring a rule relies on is declared:
    non-negative data where max/min is paired with mul, booleans for or/and.  Returns a label when the
    terms of a firing pair such ops outside that carrier (the firing is then counted, not decided)."""
    opnames = set()
    neg = False
    nonbool = False
    stack = list(terms)
    seen = set()
    while stack:
        x = stack.pop()
        if id(x) in seen:
            continue
        seen.add(id(x))
        if isinstance(x, (Tensor, Number)):
            a = np.asarray(x.data)
            if a.dtype.kind in "fi":
                with np.errstate(invalid="ignore"):
                    if np.any(a < 0) or np.any(np.isnan(a.astype(np.float64))):
                        neg = True
                    if np.any((a != 0) & (a != 1)):
                        nonbool = True
            continue
        for attr in ("op", "red_op", "bin_op"):
            o = getattr(x, attr, None)
            if o is not None:
                opnames.add(R.ser_opname(o))
        stack.extend(R.subfunsors(x))
    if "mul" in opnames and (opnames & {"max", "min"}):
        if neg or (opnames - {"add", "mul", "max", "min", "null", "pow"}):
            return "(max|min,mul) outside non-negative data"
    if opnames & {"and", "or"}:
        if nonbool or (opnames - {"and", "or", "null", "xor", "eq", "ne"}):
            return "(or,and) outside booleans"
    return None


def exact_data(t, _seen=None):
    """All numeric leaves of `t` are small dyadic rationals (so float64 arithmetic on them is exact for the
    few operations of one rewrite and the Lean rational semantics agrees bit for bit)."""
    stack = [t]
    seen = set()
    while stack:
        x = stack.pop()
        if id(x) in seen:
            continue
        seen.add(id(x))
        if isinstance(x, (Tensor, Number)):
            a = np.asarray(x.data)
            if a.dtype.kind == "f":
                fin = a[np.isfinite(a)]
                if fin.size and (np.any(np.abs(fin) > 2.0 ** 30) or np.any(fin * 1024.0 != np.round(fin * 1024.0))):
                    return False
        else:
            stack.extend(R.subfunsors(x))
    return True


class FiringCheck:
    """Prepared comparison of one firing (serialisation done; Lean request pending)."""
    __slots__ = ("f", "refl", "ins", "env_points", "wire_refl", "wire_res", "req", "model_reqs")


def bint_real_split(inputs):
    ins, reals = [], []
    for k, d in inputs.items():
        if d.shape:
            return None
        if isinstance(d.dtype, int):
            ins.append((k, int(d.dtype)))
        elif d.dtype == "real":
            reals.append(k)
        else:
            return None
    return sorted(ins), sorted(reals)


def replay_python(recipe, mode, rule):
    return ("import sys\nsys.path.insert(0, '/verif')\nimport json\nfrom fv.harness import c02\n"
            f"recipe = c02.recipe_from_json(json.loads({json.dumps(json.dumps(recipe_to_json(recipe)))}))\n"
            f"bad = c02.bad_firings(recipe, {mode!r})\n"
            "for b in bad[:3]:\n    print(b)\n"
            f"FAILS = any(b['rule'] == {rule!r} for b in bad) if {rule!r} else bool(bad)\n")


def _bad_from_firings(firings, allow_shared=False):
    import random as _random
    rng = _random.Random("C02-bad")
    out = []
    seen = set()
    for f in firings:
        if not isinstance(f.result, Funsor):
            continue
        key = (f.interp, f.rule, R.struct_key(f.args))
        if key in seen:
            continue
        seen.add(key)
        if not allow_shared and R.bound_name_clash(f.args):
            continue
        try:
            with reflect:
                refl = f.reflected()
        except (AssertionError, ValueError, TypeError, KeyError, NotImplementedError):
            continue
        if f.result is refl or carrier_violation(refl, f.result):
            continue
        extra = sorted(set(f.result.inputs) - set(refl.inputs))
        if extra:
            out.append({"rule": f.rule, "interp": f.interp, "kind": "foreign-input", "extra": extra,
                        "reflected": tstr(refl)[:300], "result": tstr(f.result)[:300]})
            continue
        pts = R.joint_points(refl.inputs)
        st, det = oracle_check(refl, f.result, pts) if pts is not None else ("unsupported", None)
        if st in ("unsupported", "undef"):
            st, det = X.funsor_eval_check(refl, f.result, rng)
        if st == "differ":
            out.append({"rule": f.rule, "interp": f.interp, "kind": "value", "detail": det,
                        "reflected": tstr(refl)[:300], "result": tstr(f.result)[:300]})
    return out


def bad_firings(recipe, mode, allow_shared=False, rec=None):
    """Python-oracle-only re-run of one program: list of firings whose result differs from the reflected
    term (or introduces an input).  Used by replay, shrinking and `search` (works without Lean)."""
    own = rec is None
    if own:
        rec = R.Recorder()
        rec.install()
    try:
        rec.firings = []
        run_program(rec, recipe, mode)
        firings, rec.firings = rec.firings, []
        return _bad_from_firings(firings, allow_shared)
    finally:
        if own:
            rec.uninstall()


def bad_firings_extra(family, subseed, mode, rec=None):
    own = rec is None
    if own:
        rec = R.Recorder()
        rec.install()
    try:
        rec.firings = []
        X.run_extra(rec, family, subseed, mode)
        firings, rec.firings = rec.firings, []
        return _bad_from_firings(firings)
    finally:
        if own:
            rec.uninstall()


def replay_python_extra(family, subseed, mode, rule):
    return ("import sys\nsys.path.insert(0, '/verif')\nfrom fv.harness import c02\n"
            f"bad = c02.bad_firings_extra({family!r}, {subseed!r}, {mode!r})\n"
            "for b in bad[:3]:\n    print(b)\n"
            f"FAILS = any(b['rule'] == {rule!r} for b in bad)\n")


class Checker:
    def __init__(self, ctx, rec):
        self.ctx = ctx
        self.rec = rec
        self.seen = set()
        self.fired_nonid = Counter()      # rule qualname -> distinct non-identity firings checked
        self.fired_any = Counter()
        self.pending = []
        self.progs = {}
        self.lean_checked = 0
        self.oracle_checked = 0
        self.feval_checked = 0
        self.model_fired = Counter()
        self.model_declined = Counter()
        self.samples = 0
        import random
        self.pts_rng = random.Random(f"C02-points-{ctx.seed}")

    # -- collection -------------------------------------------------------------------------
    def add_program(self, recipe, mode, stream="clean"):
        pid = len(self.progs)
        self.progs[pid] = (recipe, mode, stream)
        self.rec.firings = []
        st, val = run_program(self.rec, recipe, mode, pid)
        self.ctx.count(f"mode:{mode}")
        if st == "declined":
            self.ctx.count(f"program-declined:{val.split(':')[0]}")
        firings, self.rec.firings = self.rec.firings, []
        for f in firings:
            self.prepare(f)
        return st, val

    def add_extra(self, family, subseed, mode):
        pid = len(self.progs)
        self.progs[pid] = (("extra", family, subseed), mode, "clean")
        self.rec.firings = []
        st, val = X.run_extra(self.rec, family, subseed, mode, pid)
        self.ctx.count(f"extra:{family}")
        if st == "declined":
            self.ctx.count(f"program-declined:{val.split(':')[0]}")
        firings, self.rec.firings = self.rec.firings, []
        for f in firings:
            self.prepare(f)
        return st, val

    def feval(self, f, refl, why):
        """third decision path: funsor evaluates both terms at sample points (beyond Lean and py_denote)"""
        ctx = self.ctx
        st, det = X.funsor_eval_check(refl, f.result, self.pts_rng)
        if st == "differ":
            self.violation(f, refl, "C02.rewrite-changes-value", expected=str(det.get("reflected"))[:300],
                           got=str(det.get("result"))[:300], detail=det)
        elif st == "same":
            self.feval_checked += 1
            ctx.count("funsor-eval:same")
            self.case(f, refl, "funsor-eval-at-sample-points")
        else:
            ctx.count(f"beyond-model:{why}/funsor-eval-{st}")
            ctx.case()

    def prepare(self, f):
        ctx = self.ctx
        ctx.count("firings-observed")
        self.fired_any[f.rule] += 1
        if not isinstance(f.result, Funsor):
            ctx.count("skip:non-funsor-result")
            return
        key = (f.interp, f.rule, R.struct_key(f.args))
        if key in self.seen:
            ctx.count("skip:duplicate-firing")
            return
        self.seen.add(key)
        if R.bound_name_clash(f.args):
            # region of the open finding: decided like any other firing, but a mismatch here is attributed to
            # the finding (dedicated stream), never to the clean stream
            f.region = True
            ctx.count("kf-region:firings(a name bound at two binder positions)")
        try:
            with reflect:
                refl = f.reflected()
        except (AssertionError, ValueError, TypeError, KeyError, NotImplementedError) as e:
            ctx.count(f"skip:reflect-failed:{type(e).__name__}")
            return
        if f.result is refl:
            ctx.count("identity-rewrite")
            return
        cv = carrier_violation(refl, f.result)
        if cv:
            ctx.count(f"outside-carrier:{cv}")
            return
        self.fired_nonid[f.rule] += 1
        ctx.count(f"interp:{f.interp}")
        extra = sorted(set(f.result.inputs) - set(refl.inputs))
        if extra:
            self.violation(f, refl, "C02.rewrite-introduces-input", expected=f"inputs ⊆ {list(refl.inputs)}",
                           got=f"extra inputs {extra}")
            return
        split = bint_real_split(refl.inputs)
        if split is None:
            self.feval(f, refl, "array-input")
            return
        ins, reals = split
        fixed_envs = [{}]
        npts = 1
        for _, s in ins:
            npts *= s
        cost = max(eval_cost(refl), eval_cost(f.result))
        if cost > 6000:
            ctx.count("skip:brute-force-too-costly")
            return
        budget = max(2, min(256, int(6000 / max(cost, 1))))
        if npts > budget:
            # enumerate a random subset of the inputs exhaustively, fix the others at 3 random settings
            order = list(ins)
            self.pts_rng.shuffle(order)
            enum, rest, prod = [], [], 1
            for n_, s_ in order:
                if prod * s_ <= budget:
                    enum.append((n_, s_))
                    prod *= s_
                else:
                    rest.append((n_, s_))
            fixed_envs = [{n_: self.pts_rng.randrange(s_) for n_, s_ in rest} for _ in range(3)]
            ins = sorted(enum)
            ctx.count("input-space:sampled")
        else:
            ctx.count("input-space:exhaustive")
        if not (exact_data(refl) and exact_data(f.result)):
            ctx.count("float-data->python-oracle")
            self.oracle(f, refl)
            return
        c = FiringCheck()
        c.f, c.refl, c.ins = f, refl, ins
        try:
            c.wire_refl = wire_of(refl)
            c.wire_res = ser.to_wire(f.result)
        except ser.Unsupported as e:
            ctx.count("lean-beyond-model->python-oracle")
            self.oracle(f, refl, why=str(e))
            return
        envs = fixed_envs
        for r_ in reals:
            envs = [dict(e, **{r_: v}) for e in envs for v in R.REAL_POINTS]
        c.env_points = envs
        c.req = [f"C02 equiv {sx(c.wire_refl)} {sx(c.wire_res)} {sx(ser.ins_wire(ins))} {sx(ser.env_wire(e))}"
                 for e in envs]
        c.model_reqs = []
        for name in LEAN_RULES.get(f.rule, []):
            c.model_reqs.append((name, f"C02 rule {name} {sx(c.wire_refl)} {sx(c.wire_res)} "
                                       f"{sx(ser.ins_wire(ins))} {sx(ser.env_wire(envs[0]))}"))
        self.pending.append(c)
        if len(self.pending) >= 4000:
            self.flush()

    # -- decisions --------------------------------------------------------------------------
    def oracle(self, f, refl, why=""):
        ctx = self.ctx
        pts = R.joint_points(refl.inputs)
        if pts is None:
            self.feval(f, refl, "no-oracle-points")
            return
        st, det = oracle_check(refl, f.result, pts)
        if st == "differ":
            self.violation(f, refl, "C02.rewrite-changes-value", expected=str(det["reflected"])[:300],
                           got=str(det["result"])[:300], detail=det)
        elif st == "same":
            self.oracle_checked += 1
            ctx.count("oracle:same")
            self.case(f, refl, "python-oracle")
        else:
            self.feval(f, refl, f"oracle-{st}")

    def case(self, f, refl, how):
        sample = None
        if self.samples < 6 and R.term_size(refl) >= 3:
            self.samples += 1
            sample = {"interpretation": f.interp, "rule": f.rule, "reflected": tstr(refl)[:200],
                      "result": tstr(f.result)[:200], "decided_by": how}
        self.ctx.case(sample=sample, nontrivial_key=(f.interp, f.rule, tstr(refl)[:2000]))

    def flush(self):
        ctx = self.ctx
        pend, self.pending = self.pending, []
        if not pend:
            return
        reqs = []
        for c in pend:
            reqs.extend(c.req)
            reqs.extend(r for _, r in c.model_reqs)
        answers = ctx.driver.ask(reqs)
        k = 0
        for c in pend:
            verdict = "same"
            detail = None
            for _ in c.req:
                a = answers[k]
                k += 1
                if a.startswith("ok same"):
                    continue
                if a.startswith("ok undef-lhs"):
                    verdict = "spec-undef" if verdict == "same" else verdict
                elif a.startswith("ok undef-rhs"):
                    verdict = "res-undef" if verdict == "same" else verdict
                elif a.startswith("ok differ"):
                    verdict, detail = "differ", a
                else:
                    verdict, detail = "err", a
            mans = []
            for name, _ in c.model_reqs:
                mans.append((name, answers[k]))
                k += 1
            f, refl = c.f, c.refl
            if verdict == "same":
                self.lean_checked += 1
                ctx.count("lean:same")
                self.case(f, refl, "lean-denote")
            elif verdict == "differ":
                # confirm with the independent oracle before reporting (both must agree it is wrong)
                pts = R.joint_points(refl.inputs)
                st, det = oracle_check(refl, f.result, pts) if pts is not None else ("unsupported", None)
                if st == "same":
                    ctx.fail("correspondence", "C02.lean-denote-vs-python-oracle",
                             witness={"rule": f.rule, "reflected": tstr(refl)[:400], "result": tstr(f.result)[:400],
                                      "lean": detail[:300]})
                else:
                    self.violation(f, refl, "C02.rewrite-changes-value", expected="denote(reflected term)",
                                   got=detail[:400], detail=det)
                continue
            elif verdict == "err":
                ctx.infra_errors.append(f"driver: {detail[:200]} for {f.rule}")
                continue
            else:
                # the exact fragment does not define one side (e.g. pow of inf, floordiv by 0): python oracle
                ctx.count(f"lean:{verdict}->python-oracle")
                self.oracle(f, refl)
            for name, a in mans:
                if a.startswith("ok declined"):
                    self.model_declined[name] += 1
                elif a.startswith("ok fired same"):
                    self.model_fired[name] += 1
                elif a.startswith("ok fired undef"):
                    ctx.count(f"model-rule:{name}:undef")
                elif a.startswith("ok fired differ"):
                    ctx.fail("correspondence", f"C02.model-rule-{name}-vs-impl",
                             witness={"rule": f.rule, "lean_rule": name, "reflected": tstr(refl)[:400],
                                      "result": tstr(f.result)[:400], "lean": a[:300]})
                else:
                    ctx.infra_errors.append(f"driver: {a[:200]} for model rule {name}")

    def violation(self, f, refl, name, expected=None, got=None, detail=None):
        ctx = self.ctx
        if f.region:
            what = (f"{f.interp}:{f.rule} on arguments binding one name at two positions: {tstr(refl)[:200]} "
                    f"-> {tstr(f.result)[:200]} ({detail})")
            ctx.count("kf-region:mismatch")
            ctx.extra.setdefault("kf_region_mismatches", [])
            if len(ctx.extra["kf_region_mismatches"]) < 5:
                ctx.extra["kf_region_mismatches"].append(what[:700])
            if ctx.is_open("KF-shared-binder-unfold"):
                return
        recipe, mode, stream = self.progs.get(f.prog, (None, None, None))
        witness = {"interpretation": f.interp, "rule": f.rule, "term_class": f.cls.__name__,
                   "reflected": tstr(refl)[:600], "result": tstr(f.result)[:600], "mode": mode, "detail": detail}
        py = None
        if isinstance(recipe, tuple) and recipe and recipe[0] == "extra":
            _, family, subseed = recipe
            witness["program"] = f"c02_extra.build({family!r}, {subseed!r}) under {mode}"
            py = replay_python_extra(family, subseed, mode, f.rule)
        elif recipe is not None:
            rule = f.rule
            small = recipe
            self.shrunk = getattr(self, "shrunk", 0) + 1
            try:
                if self.shrunk > 2:        # shrinking re-runs the program many times: only the first reports
                    raise RuntimeError("skip shrinking")
                small = gen_terms.shrink(recipe, lambda r: any(b["rule"] == rule for b in
                                                               bad_firings(r, mode, rec=self.rec)), budget=120)
            except Exception:
                small = recipe
            witness["program"] = gen_terms.python_of(small)[:1500]
            py = replay_python(small, mode, rule)
        ctx.fail("input", name, witness=witness, expected=expected, got=got, python=py)


# ---------------------------------------------------------------------------------------------
# dedicated stream: KF-shared-binder-unfold
# ---------------------------------------------------------------------------------------------

def shared_binder_stream(ctx, rec):
    """apply_optimizer((f.reduce(add,'i')) * (f.reduce(add,'i'))) with hash-consed siblings; locate the first
    firing whose result differs from its reflected term."""
    from funsor.domains import Bint
    data = np.array([1.0, 2.0, 3.0])
    with FI.reflect:
        f = Tensor(data, OrderedDict(i=Bint[3]))
        s = f.reduce(ops.add, "i")
        e = s * s
    rec.firings = []
    st, val = rec.run("kf", lambda: FO.apply_optimizer(e))
    firings, rec.firings = rec.firings, []
    first = None
    for fr in firings:
        if not isinstance(fr.result, Funsor):
            continue
        try:
            with reflect:
                refl = fr.reflected()
        except (AssertionError, ValueError, TypeError, KeyError):
            continue
        if fr.result is refl:
            continue
        pts = R.joint_points(refl.inputs)
        if pts is None:
            continue
        stt, det = oracle_check(refl, fr.result, pts)
        if stt == "differ":
            first = (fr, refl, det)
            break
    final_wrong = st == "value" and isinstance(val, (Tensor, Number)) and float(np.asarray(val.data)) != 36.0
    if first is None:
        if final_wrong:
            ctx.fail("correspondence", "C02.shared-binder-final-wrong-but-no-bad-firing",
                     witness={"final": tstr(val)})
        else:
            ctx.known("KF-shared-binder-unfold", reproduced=False)
        return
    fr, refl, det = first
    # fingerprint: an unfold/normalize Contraction rule fired on operands that share a binder
    fp = (fr.cls.__name__ == "Contraction" and R.bound_name_clash(fr.args)
          and fr.rule in ("funsor.optimizer.unfold_contraction_generic_tuple",
                          "funsor.cnf.normalize_contraction_generic_tuple"))
    what = (f"first bad firing: {fr.interp}:{fr.rule} on operands sharing a mangled binder; "
            f"reflected value {det['reflected']} vs result {det['result']}; final {getattr(val, 'data', val)} (expected 36)")
    ctx.extra["kf_shared_binder"] = {"rule": fr.rule, "reflected": tstr(refl)[:300], "result": tstr(fr.result)[:300],
                                     "detail": det, "fingerprint_ok": fp}
    if fp and ctx.known("KF-shared-binder-unfold", reproduced=True, what=what):
        return
    ctx.fail("input", "C02.rewrite-changes-value", witness={"rule": fr.rule, "reflected": tstr(refl)[:400],
                                                            "result": tstr(fr.result)[:400], "detail": det},
             expected=str(det["reflected"]), got=str(det["result"]),
             python=("import numpy as np\nfrom collections import OrderedDict\nimport funsor, funsor.ops as ops\n"
                     "from funsor.domains import Bint\nfrom funsor.tensor import Tensor\n"
                     "from funsor.interpretations import reflect\nfrom funsor.optimizer import apply_optimizer\n"
                     "with reflect:\n    f = Tensor(np.array([1., 2., 3.]), OrderedDict(i=Bint[3]))\n"
                     "    s = f.reduce(ops.add, 'i')\n    e = s * s\n"
                     "r = apply_optimizer(e)\nprint(r)\nFAILS = float(r.data) != 36.0\n"))


# ---------------------------------------------------------------------------------------------
# correspondence
# ---------------------------------------------------------------------------------------------

def gen_ctx(rng):
    names = ["i", "j", "k", "l"]
    n = rng.choice([1, 2, 2, 3, 3, 4])
    return OrderedDict((nm, rng.choice([1, 2, 2, 3, 3, 4])) for nm in names[:n])


def battery(ctx, chk, n_recipes, n_sp, focus=None):
    """focus: optional set of rule qualnames; used by search to stop early (not for filtering)."""
    rng = ctx.rng
    for _ in range(n_recipes):
        depth = rng.choice([1, 2, 2, 3, 3, 4])
        recipe, free = gen_terms.gen_expr(rng, gen_ctx(rng), depth, "real")
        chk.add_program(recipe, "eager")
        mode = rng.choice(MODES[1:])
        st, _ = chk.add_program(recipe, mode)
        if st == "declined" and mode.startswith("reflect>"):
            chk.add_program(recipe, "lazy>" + mode.split(">")[1])   # reflect cannot build Reduce over absent vars
        ctx.count("programs:recipe")
    for _ in range(n_sp):
        sr = rng.choice(list(SEMIRINGS))
        recipe = gen_sumproduct(rng, sr)
        ctx.count(f"semiring:{sr}")
        # "normalize>eager": a normalize-built (flattened, multi-operand) Contraction reinterpreted under eager
        for mode in ["normalize>eager"] + rng.sample(
                ["reflect>eager", "reflect>normalize", "reflect>optimizer", "lazy>optimizer",
                 "lazy>eager", "reflect>lazy", "eager", "reflect>sequential", "normalize>sequential"], 2):
            st, _ = chk.add_program(recipe, mode)
            if st == "declined" and mode.startswith("reflect>"):
                chk.add_program(recipe, "lazy>" + mode.split(">")[1])
        ctx.count("programs:sum-product")
    n_extra = max(1, (n_recipes + n_sp) // 6)
    # positional-axis bookkeeping (two-Tensor contractions) has a large discrete space of input orders: weight 4
    fams = list(X.FAMILIES) + ["tensordot"] * 3
    for k in range(n_extra):
        family = fams[k % len(fams)]
        subseed = rng.randrange(10 ** 9)
        modes = rng.sample(X.EXTRA_MODES, 2) + (["eager"] if k % 2 == 0 else [])
        if family == "tensordot":       # the two-Tensor contraction rule: direct, normalize-built, optimizer
            modes = ["eager", rng.choice(["normalize>eager", "reflect>optimizer", "lazy>optimizer", "normalize>sequential"])]
        if family == "subschain":       # the fusion rule is only reached where the term stays lazy
            modes = ["normalize", rng.choice(["unfold", "normalize>eager", "reflect>optimizer", "reflect>normalize"])]
        for mode in modes:
            chk.add_extra(family, subseed, mode)
        ctx.count("programs:extra")
    # coverage anchors: the same fixed programs in every run (independent of VERIF_SEED), so that "every registered
    # rule function fires with a non-identity rewrite" is a deterministic, gated fact of the check itself
    for family in X.FAMILIES:
        for subseed in range(ANCHORS.get(family, ANCHORS_PER_FAMILY)):
            for mode in ANCHOR_MODES.get(family, ["eager", "reflect>eager"]):
                chk.add_extra(family, subseed, mode)
    chk.flush()


ANCHORS_PER_FAMILY = 20
ANCHORS = {"constant": 80, "tensordot": 72, "independent": 64, "getitem": 48, "contraction": 40, "function": 24, "binalign": 48,
           # the whole enumerated index grid (see c02_extra._getslice_grid) + 40 random programs beyond it
           "getslice": len(X.GETSLICE_GRID) + 40}
ANCHOR_MODES = {
    "getslice": ["eager", "lazy>eager"],
    "subschain": ["normalize", "reflect>normalize", "eager"],
    "tensordot": ["eager", "normalize>eager"],
    "contraction": ["eager", "normalize>eager", "reflect>optimizer", "lazy", "reflect>sequential", "reflect>normalize",
                    "reflect>lazy"],
    "integrate": ["eager", "reflect>eager", "normalize>eager", "reflect>normalize"],
    "gaussian": ["eager", "reflect>eager", "normalize>eager", "reflect>normalize"],
    "lambda": ["eager", "reflect>eager", "lazy"],
    "binalign": ["eager", "reflect>eager", "lazy>eager"],
}

# registered rule functions of exact interpretations that CANNOT fire with a non-identity value-bearing rewrite
NOT_FIREABLE = {
    "funsor.optimizer.eager_contract_base": "always returns None (declines to the next interpretation)",
    "funsor.joint.moment_matching_contract_default": "always returns None",
    "funsor.joint.moment_matching_contract_joint": "moment matching approximates a Gaussian mixture: not an exact rewrite "
                                                   "(the property covers exact interpretations; Gaussian families are not run under it)",
    "funsor.terms.moment_matching_reduce": "returns a value only through Gaussian.moment_matching_reduce (inexact); None for every other argument",
    "funsor.terms.eager_approximate": "Approximate alpha-mangles approx_vars although they remain inputs of the term: the lazy term's "
                                      "input is x__BOUND_n where the rule's result (the model) has x; reported, not driven",
    "funsor.tensor.eager_finitary_generic_tensors": "only stack / cat / einsum FinitaryOps exist and each has a more specific rule; the generic "
                                                    "rule is reached only with a scalar Number operand to cat/einsum, which numpy rejects",
}


def report(ctx, chk):
    ents = registry_entries()
    exact = set(R.EXACT)
    reg_fns = sorted(set(q for i, c, q, s, src in ents if i in exact))
    fired = sorted(q for q in reg_fns if chk.fired_nonid.get(q))
    ctx.extra["rules_fired_nonidentity"] = {q: chk.fired_nonid[q] for q in fired}
    ctx.extra["rules_fired_only_identity_or_skipped"] = sorted(
        q for q in reg_fns if chk.fired_any.get(q) and not chk.fired_nonid.get(q))
    ctx.extra["rules_never_fired"] = sorted(q for q in reg_fns if not chk.fired_any.get(q))
    ctx.extra["registered_rule_functions_exact_interps"] = len(reg_fns)
    per_module = OrderedDict()
    for q in reg_fns:
        mod = q.rsplit(".", 1)[0]
        ent = per_module.setdefault(mod, {"registered": 0, "fired_nonidentity": 0, "not_fired": []})
        ent["registered"] += 1
        if chk.fired_nonid.get(q):
            ent["fired_nonidentity"] += 1
        else:
            ent["not_fired"].append(q.rsplit(".", 1)[1])
    ctx.extra["rules_per_module"] = per_module
    ctx.extra["rules_not_fireable"] = {q: why for q, why in NOT_FIREABLE.items() if q in reg_fns}
    uncovered = [q for q in reg_fns if not chk.fired_nonid.get(q) and q not in NOT_FIREABLE]
    ctx.extra["rules_uncovered"] = uncovered
    # history dependence: a rule must be checked on at least two DIFFERENT argument tuples within one process
    # (memo objects / caches make the second call the interesting one); distinct = different structural key
    once = [q for q in reg_fns if chk.fired_nonid.get(q) == 1 and q not in NOT_FIREABLE]
    ctx.extra["rules_fired_only_once"] = once
    try:
        ctx.extra["stateful_rule_modules"] = stateful_rule_modules()
    except Exception as e:      # evidence only
        ctx.extra["stateful_rule_modules"] = f"scan failed: {e}"
    if once and getattr(chk, "gate_coverage", True):
        ctx.infra_errors.append("C02 coverage gap: rule function(s) checked on a single argument tuple only (a history-"
                                "dependent rule needs a second, different firing in the same process): " + ", ".join(once))
    if uncovered and getattr(chk, "gate_coverage", True):
        ctx.infra_errors.append("C02 coverage gap: registered rule function(s) of an exact interpretation never fired with a "
                                "non-identity rewrite and are not on the reasoned exclusion list: " + ", ".join(uncovered))
    ctx.extra["firings"] = {"lean_decided": chk.lean_checked, "python_oracle_decided": chk.oracle_checked,
                            "funsor_eval_decided": chk.feval_checked,
                            "rule_calls": chk.rec.calls, "declined_calls": chk.rec.declined}
    ctx.extra["lean_rule_models"] = {"fired_and_equal_to_impl": dict(chk.model_fired),
                                     "declined": dict(chk.model_declined)}


def correspond(ctx):
    rec = R.Recorder()
    rec.install()
    try:
        chk = Checker(ctx, rec)
        if ctx.tier == "quick":
            battery(ctx, chk, 520, 360)
        else:
            battery(ctx, chk, 6000, 4000)
        shared_binder_stream(ctx, rec)
        report(ctx, chk)
    finally:
        rec.uninstall()
    ctx.rule = ("every rule firing (rule_fn(*args) -> result, result not None) of every DispatchedInterpretation observed "
                "while (i) building gen_terms recipes under eager and under lazy/reflect followed by reinterpretation under "
                "eager / normalize / lazy / sequential / moment_matching / apply_optimizer and (ii) nested sum-product "
                "expressions over 7 semirings; de-duplicated by (interpretation, rule, structural identity of args); each "
                "decided on the whole joint input space: Lean `denote` of the reflected term vs of the result (exact), "
                "Python oracle with rtol 1e-9 outside the exact fragment. Non-trivial = non-identity rewrite; distinct by "
                "(interpretation, rule, reflected term).")
    ctx.assumptions.append("firings whose arguments share a binder node along two paths are excluded from the clean "
                           "stream (region of the open finding KF-shared-binder-unfold) and counted")
    ctx.assumptions.append("Gaussian / Delta / Integrate / distribution rules are not driven by this battery: they are "
                           "listed under rules_never_fired and classified declaredUnmodelled in Props/C02.lean")


def search(ctx, broken):
    """Python-oracle-only hunt at ~10x volume (works without the Lean build)."""
    import random
    import re as _re
    # rules registered in the source but not classified in Props/C02.lean (a newly registered rule)
    try:
        props = (LEAN / "FunsorVerif" / "Props" / "C02" / "Coverage.lean").read_text()
        classified = set(_re.findall(r'"(funsor\.[A-Za-z0-9_.<>]+)"', props))
        unclassified = sorted(set(e[2] for e in registry_entries()) - classified)
    except Exception:
        unclassified = []
    ctx.extra["unclassified_rules"] = unclassified
    rec = R.Recorder()
    rec.install()
    try:
        rng = random.Random(f"C02-search-{ctx.seed}")
        t0 = time.time()
        n = 0
        while time.time() - t0 < (120 if ctx.tier == "quick" else 600) and n < 20000:
            n += 1
            if rng.random() < 0.5:
                recipe, _ = gen_terms.gen_expr(rng, gen_ctx(rng), rng.choice([2, 3, 4]), "real")
            else:
                recipe = gen_sumproduct(rng, rng.choice(list(SEMIRINGS)))
            mode = rng.choice(MODES)
            bad = bad_firings(recipe, mode, rec=rec)
            if unclassified and any(x["rule"] in unclassified for x in bad):
                bad = [x for x in bad if x["rule"] in unclassified]     # prefer the new rule as the call site
            if bad:
                b = bad[0]
                rule = b["rule"]
                small = gen_terms.shrink(recipe, lambda r: any(x["rule"] == rule for x in bad_firings(r, mode, rec=rec)),
                                         budget=150)
                ctx.fail("input", "C02.rewrite-changes-value" if b["kind"] == "value" else "C02.rewrite-introduces-input",
                         witness={"firing": b, "mode": mode, "program": gen_terms.python_of(small)[:1500]},
                         expected="value of the reflected term", got=str(b.get("detail") or b.get("extra"))[:400],
                         python=replay_python(small, mode, rule))
                return
        ctx.extra["search_programs"] = n
    finally:
        rec.uninstall()


def replay(ctx, doc):
    py = doc.get("python")
    if not py:
        return True
    g = {}
    exec(py, g)
    return bool(g.get("FAILS", False))
