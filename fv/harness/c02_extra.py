"""
fv/harness/c02_extra.py — extra program families for C02's battery: they drive the rule functions the
gen_terms / sum-product recipes cannot reach (Delta, Align, Tuple, Finitary, Constant, Gaussian, Integrate,
array-valued Tensor rules, Independent, Markov product, division/negation normalisations).

A program is `(family, subseed)`: `build(family, subseed)` regenerates it deterministically and returns a
thunk that constructs the expression through funsor's public API under the ACTIVE interpretation.
Firings of these programs outside the Lean fragment and outside `py_denote` are decided by
`funsor_eval_check`: reflected term and result are both real funsor objects, so both are evaluated
(under eager) at sample points of the reflected term's inputs and the numbers compared.
"""
import random
from collections import OrderedDict

import numpy as np

from ..futil import funsor, Tensor, Number, Variable, Bint, Real, Reals
from . import c02_rec as R

import funsor.ops as ops
import funsor.interpretations as FI
from funsor.interpreter import reinterpret
from funsor.terms import Align, Tuple, Lambda, Independent, Stack, Funsor, Unary, Binary
from funsor.delta import Delta
from funsor.constant import Constant
from funsor.cnf import Contraction

GRID = [0.0, 1.0, 0.5, -1.0, 2.0]


def _t(rng, inputs, shape=(), kind="grid"):
    full = tuple(d.dtype for d in inputs.values()) + tuple(shape)
    n = int(np.prod(full)) if full else 1
    if kind == "grid":
        vals = [rng.choice(GRID) for _ in range(n)]
    elif kind == "int":
        vals = [float(rng.choice([-2, -1, 0, 1, 2, 3])) for _ in range(n)]
    else:
        vals = [rng.gauss(0.0, 1.0) for _ in range(n)]
    return Tensor(np.array(vals, dtype=np.float64).reshape(full), OrderedDict(inputs))


def fam_delta(rng):
    i = OrderedDict(i=Bint[rng.choice([2, 3])])
    kind = rng.randrange(6)

    def thunk():
        point = _t(rng, i if rng.random() < 0.6 else OrderedDict())
        # log_density may mention inputs the point lacks (Delta.__init__ used to drop them: fixed in /repo)
        logd = _t(rng, i if rng.random() < 0.5 else OrderedDict(), kind="int")
        d = Delta("x", point, logd)
        x = Variable("x", Real)
        f = _t(rng, i, kind="int")
        if kind == 0:
            return d + (x * x + f)                      # eager_add_delta_funsor (substitutes the point)
        if kind == 1:
            return (x * 2.0 + f) + d                    # eager_add_funsor_delta
        if kind == 2:
            d2 = Delta("y", _t(rng, i if rng.random() < 0.5 else OrderedDict()), _t(rng, i, kind="int"))
            return d + d2                                # eager_add_multidelta
        if kind == 3:
            d2 = Delta("y", x + 1.0, Number(0.0))        # a delta whose point mentions x: fresh ∩ inputs
            return d + d2
        if kind == 4:
            return (d + (x * f)).reduce(ops.logaddexp, "x")
        return d - (x + f)
    return thunk


def fam_independent(rng):
    """Independent over a Delta: point batched over the plate; density in {0, non-zero constant, batched over the
    plate i, over another input j, over both}; plate sizes 1-3.  Also Independent over lazy / joint terms."""
    def thunk():
        n = rng.choice([1, 2, 2, 3, 3])
        ins = OrderedDict(i=Bint[n])
        jn = OrderedDict(j=Bint[2])
        both = OrderedDict(i=Bint[n], j=Bint[2])
        k = rng.branch(8)
        if k < 5:
            point = _t(rng, both if rng.random() < 0.3 else ins)
            dk = rng.choice([0, 1, 1, 2, 3, 3, 4])     # weight the densities that do not mention the plate
            if dk == 0:
                logd = Number(0.0)
            elif dk == 1:
                logd = Number(float(rng.choice([0.25, -1.0, 2.0, 0.5])))
            elif dk == 2:
                logd = _t(rng, ins, kind="int")
            elif dk == 3:
                logd = _t(rng, jn, kind="int")
            else:
                logd = _t(rng, both, kind="int")
            d = Delta("x_i", point, logd)
            if k == 4:
                # joint: Delta + Tensor (eager_independent_joint)
                return Independent(d + _t(rng, both if rng.random() < 0.5 else ins, kind="int"), "x", "i", "x_i")
            return Independent(d, "x", "i", "x_i")      # eager_independent_delta
        f = _t(rng, ins, kind="int")
        xi = Variable("x_i", Real)
        if k == 5:
            return Independent(f * xi, "x", "i", "x_i")(x=_t(rng, OrderedDict(), (n,)))
        if k == 6:
            g = _t(rng, both, kind="int")
            return Independent(g + xi, "x", "i", "x_i")(x=_t(rng, OrderedDict(), (n,)))
        # eager_independent_trivial: the diagonal variable is absent from fn (reduces to a sum over the plate)
        g = _t(rng, both, kind="int")
        return Independent(g, "x", "i", "x_i")
    return thunk


def fam_align(rng):
    def thunk():
        ins = OrderedDict(i=Bint[2], j=Bint[3])
        t = _t(rng, ins, kind="int")
        u = _t(rng, OrderedDict(j=Bint[3]), kind="int")
        k = rng.branch(6)
        a = Align(t, ("j", "i"))
        if k == 0:
            return a - u
        if k == 5:
            return u - a                                # eager_binary_funsor_align
        if k == 1:
            return u / (a * a + 1.0)
        if k == 2:
            return a + Align(u, ("j",))
        if k == 3:
            return a(i=1)                               # eager_align: names no longer valid
        return a.reduce(ops.add, "i")
    return thunk


def fam_tuple(rng):
    def thunk():
        ins = OrderedDict(i=Bint[2])
        a, b, c = _t(rng, ins, kind="int"), _t(rng, OrderedDict(), kind="int"), Variable("v", Real)
        tup = Tuple((a, b, c))
        k = rng.branch(4)
        if k == 3:
            return Binary(ops.getitem, tup, Number(rng.randrange(3), 3))     # eager_getitem_tuple
        if k == 0:
            return tup[rng.randrange(3)]
        if k == 1:
            return tup[0:2]
        return tup[1:][0] + a
    return thunk


def fam_finitary(rng):
    def thunk():
        ins = OrderedDict(i=Bint[2])
        k = rng.branch(9)
        x = _t(rng, ins, (2, 3), kind="int")
        y = _t(rng, ins if rng.random() < 0.5 else OrderedDict(), (2, 3), kind="int")
        if k == 0:
            return ops.stack((x, y), 0)
        if k == 1:
            return ops.cat((x, y), 0)
        if k == 2:
            z = _t(rng, OrderedDict(), (3, 2), kind="int")
            return ops.einsum((x, z), "ab,bc->ac")
        if k == 3:
            return x.sum(rng.choice([None, 0, 1, -1]))           # eager_reduction_tensor
        if k == 4:
            return x.reshape(rng.choice([(6,), (3, 2), (1, 6)]))  # eager_reshape_tensor
        if k == 5:
            return x[rng.choice([0, 1])] if rng.random() < 0.5 else x[0:1]   # getslice
        if k == 6:
            return Binary(ops.getitem, x, Number(rng.randrange(2), 2))        # eager_getitem_tensor_number
        if k == 7:
            idx = Tensor(np.array([rng.randrange(2) for _ in range(3)]), OrderedDict(m=Bint[3]), 2)
            return x[idx]                                                      # eager_getitem_tensor_tensor
        from funsor.tensor import function

        @function(Reals[2, 3], Real)
        def total(a):
            return a.sum()
        return total(_t(rng, OrderedDict(), (2, 3), kind="int"))                                                        # eager_function
    return thunk


def fam_lambda(rng):
    def thunk():
        ins = OrderedDict(i=Bint[3], j=Bint[2])
        t = _t(rng, ins, kind="int")
        lam = Lambda(Variable("i", Bint[3]), t * Variable("w", Real))     # lazy body: Lambda stays lazy
        k = rng.branch(4)
        if k == 0:
            return lam[0] + 1.0
        if k == 1:
            return lam[0]
        if k == 2:
            return lam[Number(rng.randrange(3), 3)]
        return Lambda(Variable("i", Bint[3]), t)[0:2].sum(0)
    return thunk


NONCOMM = [ops.sub, ops.truediv, ops.pow, ops.lt, ops.ge, ops.sub, ops.truediv]
COMM = [ops.add, ops.mul, ops.max]


def fam_constant(rng):
    """funsor/constant.py: Constant-wrapped tensors with 1-3 const inputs (Bint and Real) combined by every kind of
    binary op — non-commutative ones included — in BOTH operand orders with Number / Tensor / Constant / lazy
    operands whose inputs cover / partly cover / are disjoint from the const inputs; unary ops; reductions over
    const inputs partly / fully; substitution into const inputs."""
    def thunk():
        I = OrderedDict(i=Bint[2])
        pool = [("k", Bint[3]), ("m", Bint[2]), ("x", Real)]
        nconst = rng.choice([1, 2, 2, 3])
        full_cover = rng.random() < 0.5
        if full_cover:                                  # Bint-only const inputs, all mentioned by the other operand
            nconst = min(nconst, 2)
            cins = OrderedDict(rng.sample(pool[:2], nconst))
        else:
            cins = OrderedDict(rng.sample(pool, nconst))

        def pos(ins):
            shape = tuple(d.dtype for d in ins.values())
            vals = [float(rng.choice([1, 2, 3, 4])) for _ in range(int(np.prod(shape)) if shape else 1)]
            return Tensor(np.array(vals).reshape(shape), OrderedDict(ins))
        c = Constant(cins, pos(I if rng.random() < 0.7 else OrderedDict()))
        bints = OrderedDict((n, d) for n, d in cins.items() if d is not Real)
        # the other operand: covers / partly covers / is disjoint from the const inputs
        cover = rng.choice([0, 3]) if full_cover else rng.randrange(4)
        if cover == 0:
            other_ins = OrderedDict(bints)                              # every Bint const input
        elif cover == 1:
            other_ins = OrderedDict(list(bints.items())[:1])            # part of them
        elif cover == 2:
            other_ins = OrderedDict(I)                                  # disjoint (shares arg's input)
        else:
            other_ins = OrderedDict(list(I.items()) + list(bints.items()))
        op = rng.choice(NONCOMM + COMM)
        k = rng.branch(10)
        if k == 0:
            return op(c, pos(other_ins))                                # Constant, Tensor
        if k == 1:
            return op(pos(other_ins), c)                                # Tensor, Constant
        if k == 2:
            return op(c, Number(float(rng.choice([2, 3]))))
        if k == 3:
            return op(Number(float(rng.choice([2, 3]))), c)
        if k == 4:
            c2 = Constant(OrderedDict(rng.sample(pool, rng.choice([1, 2]))), pos(I if rng.random() < 0.5 else OrderedDict()))
            return op(c, c2)                                            # Constant, Constant
        if k == 5:
            c2 = Constant(OrderedDict([("y", Real)]), pos(other_ins)) if not ({"y"} & set(other_ins)) else c
            return op(c2, c)
        if k == 6:
            return rng.choice([ops.neg, ops.exp, ops.log, ops.abs])(c)  # unary
        if k == 7 and bints:
            names = list(bints)
            rv = frozenset(rng.sample(names, rng.choice(range(1, len(names) + 1))))
            if rng.random() < 0.5:
                rv = rv | frozenset(["i"]) if "i" in c.inputs else rv
            return c.reduce(rng.choice([ops.add, ops.mul, ops.logaddexp]), rv)
        if k == 8:
            name, d = rng.choice(list(cins.items()))
            v = Number(1.5) if d is Real else Number(rng.randrange(d.dtype), d.dtype)
            return op(c(**{name: v}), pos(other_ins))                   # substitution into a const input
        w = Variable("w", Real)
        return op(c, w) if rng.random() < 0.5 else op(w, c)             # lazy operand
    return thunk


def fam_arith(rng):
    """division / subtraction / negation normalisations, log-exp cancellation."""
    def thunk():
        ins = OrderedDict(i=Bint[2])
        x = Variable("x", Real)
        t = _t(rng, ins, kind="int")
        nz = Tensor(np.array([rng.choice([1.0, 2.0, -1.0, 0.5]) for _ in range(2)]), ins)
        k = rng.branch(10)
        if k == 8:
            e = x + t                                       # the SAME lazy object on both sides of a non-idempotent op
            return ops.logaddexp(e, e)
        if k == 9:
            e = x * t
            return rng.choice([ops.logaddexp, ops.max, ops.min, ops.add])(e, e) - e
        if k == 7:
            return (t + x).exp().reduce(ops.add, "i")       # eager_reduce_exp
        if k == 0:
            return (t + x) / nz
        if k == 1:
            return -(x)
        if k == 2:
            return -(x * t)
        if k == 3:
            return (x + t).exp().log()
        if k == 4:
            return -(-(x + t))
        if k == 5:
            return -(x + t)
        return (t / nz) - x
    return thunk


def fam_gaussian(rng):
    from funsor.testing import random_gaussian, random_tensor

    def thunk():
        np.random.seed(rng.randrange(2 ** 31))
        k = rng.branch(7)
        b = OrderedDict(i=Bint[2])
        g1 = random_gaussian(OrderedDict(i=Bint[2], x=Real, y=Real))
        g2 = random_gaussian(OrderedDict(x=Real) if rng.random() < 0.5 else OrderedDict(i=Bint[2], x=Real, y=Real))
        t = random_tensor(b)
        if k == 0:
            return g1 + g2
        if k == 1:
            return g1 - g2
        if k == 2:
            return (g1 + t).reduce(ops.logaddexp, "x")
        if k == 3:
            return g1.reduce(ops.logaddexp, frozenset(["x", "y"]))
        if k == 4:
            return g1(x=Number(0.5))
        if k == 5:
            return (g1 + g2 + t).reduce(ops.logaddexp, "i")          # mixture: moment_matching territory
        from funsor.integrate import Integrate
        return Integrate(g1 + t, g2 if "y" not in g2.inputs else Variable("x", Real) * 1.0 + t, frozenset([Variable("x", Real)]))
    return thunk


def fam_markov(rng):
    def thunk():
        from funsor.sum_product import MarkovProduct
        T, S = rng.choice([2, 3]), 2
        trans = _t(rng, OrderedDict(time=Bint[T], prev=Bint[S], curr=Bint[S]), kind="int")
        sr = rng.choice([(ops.add, ops.mul), (ops.max, ops.add)])
        return MarkovProduct(sr[0], sr[1], trans, Variable("time", Bint[T]), {"prev": "curr"})
    return thunk


def fam_contraction(rng):
    """direct `Contraction(red, bin, vars, *terms)` with >= 3 operands, one operand OBJECT repeated 2-3 times
    (adjacent or not), reduced variables shared / unshared between the repeated and the other operands."""
    semis = [(ops.add, ops.mul, "grid+"), (ops.max, ops.add, "int"), (ops.min, ops.add, "int"),
             (ops.logaddexp, ops.add, "int"), (ops.max, ops.mul, "grid+"), (ops.or_, ops.and_, "bool")]

    def thunk():
        red, bin_, kind = rng.choice(semis)
        sizes = OrderedDict(i=Bint[rng.choice([2, 3])], j=Bint[2], k=Bint[rng.choice([1, 2])])

        def leaf():
            names = [n for n in sizes if rng.random() < 0.6] or ["i"]
            ins = OrderedDict((n, sizes[n]) for n in names)
            shape = tuple(d.dtype for d in ins.values())
            n = int(np.prod(shape))
            if kind == "bool":
                return Tensor(np.array([rng.choice([0, 1]) for _ in range(n)]).reshape(shape), ins, 2)
            vals = [float(rng.choice([0, 1, 1, 2, 3] if kind == "grid+" else [-2, -1, 0, 1, 2, 3])) for _ in range(n)]
            return Tensor(np.array(vals).reshape(shape), ins)
        x, y, z = leaf(), leaf(), leaf()
        shapes = [(x, x, y), (x, y, x), (y, x, x), (x, x, x), (x, x, y, z), (x, y, y, x), (x, y, z)]
        terms = rng.choice(shapes)
        present = sorted(set().union(*[t.inputs for t in terms]))
        rv = [n for n in present if rng.random() < 0.6] or [present[0]]
        rvars = frozenset(Variable(n, sizes[n]) for n in rv)
        if rng.random() < 0.5:
            return Contraction(red, bin_, rvars, *terms)
        acc = terms[0]
        for t in terms[1:]:
            acc = bin_(acc, t)
        if rng.random() < 0.35 and red is not ops.or_:   # also reduce a variable no operand mentions (multiplicity)
            rvars = rvars | frozenset([Variable("z", Bint[2])])
        return acc.reduce(red, rvars)
    return thunk


def fam_slices(rng):
    """chained Slice substitutions: a Slice substituted into a Slice (directly, and through the fusion of two
    nested Subs on a lazy term), strides > 1 and non-zero starts on both."""
    from funsor.terms import Slice

    def thunk():
        n = rng.choice([5, 6, 7, 8])
        a = rng.randrange(0, 3)
        st = rng.choice([1, 2, 2, 3])
        b = rng.randrange(a + 1, n + 1)
        m = len(range(a, b, st))
        c = rng.randrange(0, m)
        st2 = rng.choice([1, 1, 2])
        d = rng.randrange(c + 1, m + 1) if c < m else m
        outer = Slice("i", a, b, st, n)
        inner = Slice("j", c, d, st2, m)
        t = _t(rng, OrderedDict(i=Bint[n], k=Bint[2]), kind="int")
        k = rng.branch(5)
        if k == 0:
            return outer(i=inner)                                   # Slice.eager_subs with a Slice
        if k == 1:
            return t(i=outer)(i=inner) if False else t(i=outer(i=inner))
        if k == 2:
            x = t * Variable("w", Real)                             # lazy: the two Subs are fused
            return x(i=outer)(j=inner) if False else x(i=Slice("j", a, b, st, n))(j=Slice("l", c, d, st2, m))
        if k == 3:
            return t(i=Slice("j", a, b, st, n))(j=Slice("l", c, d, st2, m))
        p = rng.randrange(len(range(c, d, st2)))
        return outer(i=inner)(j=Number(p, len(range(c, d, st2))))
    return thunk


def fam_integrate(rng):
    from funsor.integrate import Integrate
    from funsor.testing import random_gaussian

    def thunk():
        np.random.seed(rng.randrange(2 ** 31))
        n = rng.choice([2, 3])
        ins = OrderedDict(i=Bint[n])
        x = Variable("x", Real)
        k = rng.branch(7)
        if k == 0:
            d = Delta("x", _t(rng, ins), _t(rng, ins if rng.random() < 0.5 else OrderedDict(), kind="int"))
            return Integrate(d, x * x + _t(rng, ins, kind="int"), frozenset([x]))        # eager_integrate (Delta)
        g = random_gaussian(OrderedDict(i=Bint[n], x=Real))
        if k == 1:
            return Integrate(g, x, frozenset([x]))                                       # gaussian, variable
        g2 = random_gaussian(OrderedDict(x=Real) if rng.random() < 0.5 else OrderedDict(i=Bint[n], x=Real))
        if k == 2:
            return Integrate(g, g2, frozenset([x]))                                      # gaussian, gaussian
        if k == 3:
            return Integrate(g, -g2, frozenset([x]))                                     # gaussian, -gaussian
        t = _t(rng, ins, kind="gauss")
        if k == 4:
            return Integrate(g + t, g2, frozenset([x]))                                  # gaussian mixture
        if k == 5:
            g4 = random_gaussian(OrderedDict(x=Real))
            with FI.normalize:                      # a sum of Gaussians that stays a lazy Contraction(null, add, ...)
                lazy_sum = g2 + (-g4) if rng.random() < 0.5 else g2 + g4
            return Integrate(g, lazy_sum, frozenset([x]))                                # eager_distribute_integrate
        g3 = random_gaussian(OrderedDict(i=Bint[n], x=Real))
        return Contraction(ops.logaddexp, ops.add, frozenset([x]), g + t, g3 + _t(rng, ins, kind="gauss"))
    return thunk


def fam_scatter(rng):
    from funsor.terms import Scatter

    def thunk():
        n = rng.choice([2, 3])
        k = rng.branch(4)
        op = rng.choice([ops.add, ops.add, ops.logaddexp])
        if k == 0:
            src = _t(rng, OrderedDict(k=Bint[2]), kind="int")
            return Scatter(op, (("i", Number(rng.randrange(n), n)),), src, frozenset())
        if k == 1:
            src = _t(rng, OrderedDict(a=Bint[n], b=Bint[2]), kind="int")
            return Scatter(op, (("i", Variable("a", Bint[n])), ("j", Variable("b", Bint[2]))), src,
                           frozenset([Variable("a", Bint[n]), Variable("b", Bint[2])]))
        if k == 2:
            src = _t(rng, OrderedDict(a=Bint[n]), kind="int")
            return Scatter(op, (("i", Variable("a", Bint[n])), ("j", Variable("a", Bint[n]))), src,
                           frozenset([Variable("a", Bint[n])]))                           # diagonal
        return Scatter(op, (("i", Variable("a", Bint[n])),), Number(float(rng.choice([1, 2, -1]))),
                       frozenset([Variable("a", Bint[n])]))                               # eager_scatter_number
    return thunk


def fam_misc(rng):
    """eager_approximate, eager_finitary_generic_tensors, eager_subs_subs"""
    from funsor.terms import Approximate

    def thunk():
        n = rng.choice([2, 3])
        ins = OrderedDict(i=Bint[n])
        k = 1 + rng.branch(3)
        t = _t(rng, ins, kind="int")
        if k == 0:
            # not driven: Approximate alpha-mangles approx_vars although they stay inputs of the term, so the lazy
            # term has input x__BOUND_n where eager_approximate's result (the model) has x — reported, not gated
            x = Variable("x", Real)
            return Approximate(ops.logaddexp, t + x * 2.0, t - x, frozenset([x]))
        if k == 1:
            return ops.stack((Number(float(rng.choice([1, 2]))), _t(rng, OrderedDict(), kind="int"), Number(3.0)), 0)
        with FI.reflect:                           # a Subs that stays lazy, then substituted again
            inner = (t * Variable("w", Real))(i=Variable("j", Bint[n]))
        if k == 2:
            return inner(j=Number(rng.randrange(n), n))
        return inner(w=_t(rng, OrderedDict(j=Bint[n]), kind="int"), j=Variable("m", Bint[n]))
    return thunk


def fam_subschain(rng):
    """chained substitutions f(b)(c) on a term that STAYS LAZY under normalize (free real variable under a
    non-associative op, lazy Stack), so that `normalize_fuse_subs` (a(b)(c) -> a(b(c), c)) runs; every overlap
    pattern between names(c), the free names of f and the free names of b's values."""
    def thunk():
        n = rng.choice([2, 3, 4])
        Y, W, U, Z = OrderedDict(y=Bint[n]), OrderedDict(w=Bint[n]), OrderedDict(u=Bint[2]), OrderedDict(z=Bint[n])

        def pos(ins):
            shape = tuple(d.dtype for d in ins.values())
            vals = [rng.choice([1.0, 2.0, 3.0, 0.5]) for _ in range(int(np.prod(shape)))]
            return Tensor(np.array(vals).reshape(shape), OrderedDict(ins))

        def idx(ins, size):
            shape = tuple(d.dtype for d in ins.values())
            vals = [rng.randrange(size) for _ in range(int(np.prod(shape)))]
            return Tensor(np.array(vals).reshape(shape), OrderedDict(ins), size)
        x = Variable("x", Real)
        body_ins = rng.choice([Y, OrderedDict(list(Y.items()) + list(U.items())), W, OrderedDict()])
        g = pos(body_ins) if body_ins else Number(2.0)
        shape_k = rng.randrange(3)
        if shape_k == 0:
            f = x ** g
        elif shape_k == 1:
            f = Stack("s", (x ** g, g ** x))
        else:
            f = (x ** g) ** pos(U)
        # b: the value substituted for x (mentions y / w / both / nothing)
        bk = rng.randrange(5)
        if bk == 0:
            b = pos(Y)
        elif bk == 1:
            b = pos(W)
        elif bk == 2:
            b = pos(OrderedDict(list(Y.items()) + list(W.items())))
        elif bk == 3:
            b = Number(float(rng.choice([2.0, 3.0])))
        else:
            b = pos(Y) * Variable("v", Real)             # a value that itself stays lazy
        s1 = f(x=b)
        # c: substitute y and/or w and/or u (index tensor over z / rename / number)
        c = {}
        for name, size in (("y", n), ("w", n), ("u", 2)):
            if name in s1.inputs and rng.random() < 0.7:
                ck = rng.randrange(3)
                c[name] = idx(Z, size) if ck == 0 else (Variable("q" + name, Bint[size]) if ck == 1
                                                        else Number(rng.randrange(size), size))
        if not c and s1.inputs:
            name = next(iter(s1.inputs))
            d = s1.inputs[name]
            c[name] = Number(rng.randrange(d.dtype), d.dtype) if isinstance(d.dtype, int) else Number(2.0)
        r = s1(**c)
        if rng.random() < 0.3 and "v" in r.inputs:
            r = r(v=Number(2.0))
        return r
    return thunk


def fam_tensordot(rng):
    """two-Tensor contractions with 3-4 shared reduced inputs of EQUAL size, in every relative order of those
    inputs in the two operands (all 6 permutations for 3, sampled for 4), 0-2 kept inputs on each side, all
    semirings incl. (logaddexp, add) — reached directly, through normalize->eager / the optimizer, and through
    funsor.einsum.einsum with the numpy / numpy_log backends."""
    import itertools as _it
    semis = [(ops.logaddexp, ops.add, "log", "funsor.einsum.numpy_log"), (ops.logaddexp, ops.add, "log", "funsor.einsum.numpy_log"),
             (ops.logaddexp, ops.add, "log", "funsor.einsum.numpy_log"), (ops.add, ops.mul, "int", "numpy"), (ops.max, ops.add, "int", "funsor.einsum.numpy_map"),
             (ops.min, ops.add, "int", None)]

    def thunk():
        red, bin_, kind, backend = rng.choice(semis)
        nshared = rng.choice([3, 3, 3, 4])
        size = rng.choice([2, 2, 3]) if nshared == 3 else 2
        shared = ["a", "b", "c", "d"][:nshared]
        perms = list(_it.permutations(shared))
        perm = list(rng.choice(perms))
        kx = ["i", "j"][: rng.choice([0, 1, 1, 2])]
        ky = ["l", "m"][: rng.choice([0, 1, 1, 2])]
        sizes = {n: size for n in shared}
        sizes.update({"i": 2, "j": 3, "l": 2, "m": 2})

        def tens(names):
            ins = OrderedDict((n, Bint[sizes[n]]) for n in names)
            shape = tuple(sizes[n] for n in names)
            n = int(np.prod(shape)) if shape else 1
            if kind == "log":
                with np.errstate(divide="ignore"):
                    vals = [float(np.log(rng.choice([0.25, 0.5, 1.0, 2.0, 3.0, 5.0]))) for _ in range(n)]
            else:
                vals = [float(rng.choice([-2, -1, 0, 1, 2, 3])) for _ in range(n)]
            return Tensor(np.array(vals).reshape(shape), ins)
        xnames = list(kx) + shared
        ynames = perm + list(ky)
        if rng.random() < 0.3:                       # kept inputs in other positions too
            rng.shuffle(xnames)
        x, y = tens(xnames), tens(ynames)
        rvars = frozenset(Variable(n, Bint[sizes[n]]) for n in shared)
        k = rng.branch(3)
        if k == 0:
            return Contraction(red, bin_, rvars, x, y)
        if k == 1 and backend is not None:
            from funsor.einsum import einsum as f_einsum
            sym = {n: chr(ord("a") + q) for q, n in enumerate(sorted(set(xnames + ynames)))}
            xs = Tensor(x.data, OrderedDict((sym[n], d) for n, d in x.inputs.items()))
            ys = Tensor(y.data, OrderedDict((sym[n], d) for n, d in y.inputs.items()))
            eqn = "".join(sym[n] for n in xnames) + "," + "".join(sym[n] for n in ynames) + "->" + \
                  "".join(sym[n] for n in kx + ky)
            return f_einsum(eqn, xs, ys, backend=backend)
        return bin_(x, y).reduce(red, rvars)
    return thunk


def fam_getitem(rng):
    """Binary(GetitemOp(offset), Tensor, index): Number / Variable / Tensor index at EVERY offset 0..r-1, tensors
    with 0-2 inputs and SQUARE event shapes (a wrong axis is then silent), built directly and lazily (index a
    Variable bound afterwards / reinterpretation)."""
    def thunk():
        n = rng.choice([2, 3])
        r = rng.choice([2, 2, 3])
        names = ["i", "j"][: rng.choice([0, 1, 2])]
        ins = OrderedDict((nm, Bint[2 if nm == "i" else 3]) for nm in names)
        shape = tuple(d.dtype for d in ins.values()) + (n,) * r
        vals = [float(rng.choice([-2, -1, 0, 1, 2, 3, 4, 5])) for _ in range(int(np.prod(shape)))]
        x = Tensor(np.array(vals).reshape(shape), ins)
        offset = rng.randrange(r)
        pre = (slice(None),) * offset
        kind = rng.branch(6)
        if kind == 0:
            return x[pre + (Number(rng.randrange(n), n),)]                      # eager_getitem_tensor_number
        if kind == 1:
            v = Variable("v", Bint[n])
            return x[pre + (v,)](v=Number(rng.randrange(n), n))                 # lazily built, then bound
        if kind == 2:
            return x[pre + (Variable("v", Bint[n]),)]                           # eager_getitem_tensor_variable
        if kind == 3:
            idx = Tensor(np.array([rng.randrange(n) for _ in range(2)]), OrderedDict(m=Bint[2]), n)
            return x[pre + (idx,)]                                              # eager_getitem_tensor_tensor
        if kind == 4 and r >= 2:
            o2 = rng.randrange(r - 1)
            return x[pre + (Number(rng.randrange(n), n),)][(slice(None),) * o2 + (Number(rng.randrange(n), n),)]
        idx = Tensor(np.array([rng.randrange(n) for _ in range(2)]), OrderedDict(i=Bint[2]), n)
        return x[pre + (idx,)]                                                  # index shares a batch input
    return thunk


def fam_function(rng):
    """funsor.function / Function terms: single- and MULTI-output functions applied, in ONE program, to several
    operands that are views of one buffer (rows, blocks, columns), interleaved (A, B, A), directly and lazily built
    then bound — the multi-output wrapper sits on a one-slot memo keyed by operand identity."""
    import typing
    from funsor.tensor import function

    def thunk():
        n = rng.choice([2, 3])
        rows = rng.choice([3, 4])
        base = np.array([float(rng.choice([-2, -1, 0, 1, 2, 3, 4, 5])) for _ in range(rows * n)]).reshape(rows, n)

        @function(Reals[n], typing.Tuple[Real, Bint[n]])
        def max_and_argmax(x):
            return x.max(-1), x.argmax(-1)

        @function(Reals[n], typing.Tuple[Real, Real])
        def sum_and_first(x):
            return x.sum(-1), x[..., 0]

        @function(Reals[n], Real)
        def total(x):
            return (x * np.arange(1, n + 1)).sum(-1)
        k = rng.branch(6)
        f = [max_and_argmax, sum_and_first, max_and_argmax, total, sum_and_first, max_and_argmax][k]
        if k in (0, 1, 3):
            views = [Tensor(base[r]) for r in range(rows)]                       # rows: same shape & strides
        elif k == 2:
            ins = OrderedDict(i=Bint[2])
            views = [Tensor(base[r:r + 2], ins) for r in range(rows - 1)]        # overlapping blocks, batched
        elif k == 4:
            sq = base[:n, :n]
            views = [Tensor(sq[:, c]) for c in range(n)] + [Tensor(sq[c]) for c in range(n)]   # columns and rows
        else:
            views = [Tensor(base[r]) for r in range(rows)]
        a, b = rng.sample(range(len(views)), 2)
        order = [views[a], views[b], views[a]] + [views[rng.randrange(len(views))] for _ in range(2)]
        outs = []
        if k == 5:
            lazy = f(Variable("x", Reals[n]))                                    # lazily built, then bound
            for v in order:
                outs.append(lazy(x=v) if isinstance(lazy, Funsor) else lazy)
        else:
            for v in order:
                outs.append(f(v))
        flat = []
        for o in outs:
            flat.extend(o.args if isinstance(o, Tuple) else [o])
        return Tuple(tuple(flat))
    return thunk


def fam_binalign(rng):
    """pointwise Binary of two Tensors sharing 4-5 named inputs (all of size 2) stored in DIFFERENT axis orders —
    every relative order incl. swaps of interior inputs only — with output shapes (), (k,), (k, l); also unary
    reductions / a further reduce of the aligned result.  (align_tensor / align_tensors bookkeeping.)"""
    import itertools as _it

    def thunk():
        nsh = rng.choice([4, 4, 5])
        names = ["a", "b", "c", "d", "e"][:nsh]
        k = rng.branch(6)
        if k in (0, 1):                                   # interior-only permutation: first and last stay put
            inner = names[1:-1]
            perms = [p for p in _it.permutations(inner) if list(p) != inner]
            ynames = [names[0]] + list(rng.choice(perms)) + [names[-1]]
        elif k == 2:
            ynames = list(reversed(names))
        else:
            ynames = names[:]
            while ynames == names:
                rng.shuffle(ynames)
        ev = rng.choice([(), (2,), (3,), (2, 3), (2, 2)])
        evy = ev if rng.random() < 0.7 else ()            # broadcasting against a scalar-output operand too

        def tens(order, event):
            shape = (2,) * len(order) + tuple(event)
            vals = [float(rng.choice([-3, -2, -1, 0, 1, 2, 3, 4, 5, 6])) for _ in range(int(np.prod(shape)))]
            return Tensor(np.array(vals).reshape(shape), OrderedDict((n, Bint[2]) for n in order))
        if k == 5:                                        # y mentions a strict subset, in another order
            ynames = [n for n in ynames if rng.random() < 0.8] or ynames[:2]
        x, y = tens(names, ev), tens(ynames, evy)
        op = rng.choice([ops.add, ops.sub, ops.mul, ops.sub, ops.max])
        r = op(x, y) if rng.random() < 0.7 else op(y, x)
        if k == 4:
            r = r.reduce(ops.add, frozenset(rng.sample(names, 2)))
        return r
    return thunk


# ---------------------------------------------------------------------------------------------
# plain-Python indexing  Unary(GetsliceOp(index), Tensor)  (eager_getslice_tensor and its lazy siblings)
# ---------------------------------------------------------------------------------------------

def _slice_pool(n):
    """every kind of basic-index component on an event dim of size n: full, reversals (implicit and with explicit
    bounds: the SAME extent, other values order), strides, partial / negative-step partial slices, ints."""
    S = slice(None)
    pool = [S, slice(None, None, -1), slice(n - 1, None, -1), slice(-1, -n - 1, -1), slice(0, n, 1),
            slice(None, None, 2), slice(None, None, -2), slice(1, None), slice(None, -1), slice(n - 2, None, -1),
            slice(None, 0, -1), slice(n, None, -1), 0, n - 1, -1]
    out = []
    for c in pool:
        if c not in out:
            out.append(c)
    return out


def _getslice_grid():
    """ENUMERATED grid (anchors): tensors with 0 / 1 / 2 named inputs and event shapes (n,), (n, n), (n, n, n)
    [square: a wrong axis is silent], n = 3; every index tuple over the component pool for rank 1 and 2
    (shape-preserving-but-permuting ones included: x[::-1], x[:, ::-1], x[::-1, ::-1], explicit-bound reversals),
    the same with a leading / trailing / middle Ellipsis and with None inserted, and for rank 3 every placement of
    reversals among full slices."""
    import itertools as _it
    n = 3
    pool = _slice_pool(n)
    S, R_ = slice(None), slice(None, None, -1)
    grid = []
    for nb in (0, 1, 2):
        for c in pool:                                              # rank 1: every component
            grid.append((nb, (n,), (c,)))
        for c in pool:                                              # rank 2: shorter index than rank
            grid.append((nb, (n, n), (c,)))
        for a, b in _it.product(pool[:11], repeat=2):               # rank 2: all pairs of slices
            if nb == 1 or a in (S, R_) or b in (S, R_) or pool.index(a) % 3 == pool.index(b) % 3:
                grid.append((nb, (n, n), (a, b)))
        for c in pool[:11] + [0]:                                   # Ellipsis / None placements
            grid.append((nb, (n, n), (Ellipsis, c)))
            grid.append((nb, (n, n), (c, Ellipsis)))
            grid.append((nb, (n, n), (None, c)))
            grid.append((nb, (n, n), (c, None)))
            grid.append((nb, (n, n, n), (S, Ellipsis, c)))
            grid.append((nb, (n, n, n), (c, Ellipsis, S)))
        grid.append((nb, (n, n), (Ellipsis,)))
        grid.append((nb, (n, n), ()))
        for combo in _it.product((S, R_, slice(n - 1, None, -1)), repeat=3):   # rank 3: placements of reversals
            grid.append((nb, (n, n, n), combo))
        for shp in [(1,), (1, n), (n, 1), (1, 1), (2, n), (n, 2), (4,)]:        # extents 1 (reversal = identity), non-square
            for idx in [(R_,), (Ellipsis, R_), (R_, R_)[: len(shp)], (S, R_)[: len(shp)]]:
                grid.append((nb, shp, idx))
    return grid


GETSLICE_GRID = _getslice_grid()


def _distinct_tensor(rng, nb, shape):
    """integer-valued data, ALL entries distinct (any permutation / wrong selection of entries changes the value)"""
    names = ["i", "j"][:nb]
    ins = OrderedDict((nm, Bint[2 if nm == "i" else 3]) for nm in names)
    full = tuple(d.dtype for d in ins.values()) + tuple(shape)
    cnt = int(np.prod(full)) if full else 1
    vals = list(range(-(cnt // 2), cnt - cnt // 2))
    rng.shuffle(vals)
    return Tensor(np.array(vals, dtype=np.float64).reshape(full), ins)


def fam_getslice(rng):
    """Unary(GetsliceOp(index), x): plain-Python indexing x[index] of a Tensor with 0-2 named inputs by every kind of
    basic index (ints, None, Ellipsis, full / partial / strided / NEGATIVE-step slices, incl. those that keep the
    whole extent of every dim and only permute the entries).  Subseeds < len(GETSLICE_GRID) enumerate the grid;
    beyond it random indices on random shapes, chained (x[a:][::-1], x[::-1][::-1], x[::-1][k]), lazily built on a
    Variable / lazy operand and bound afterwards, and consumed by a reduction or a binary op."""
    def rand_index(shape):
        comps = []
        for n in shape:
            comps.append(rng.choice(_slice_pool(n) + [slice(None), slice(None, None, -1)] * 3))
        k = rng.randrange(5)
        if k == 0 and len(comps) > 1:
            comps = comps[: rng.randrange(1, len(comps))]                       # shorter than the rank
        elif k == 1:
            cut = rng.randrange(len(comps) + 1)
            keep = rng.randrange(cut, len(comps) + 1)
            comps = comps[:cut] + [Ellipsis] + comps[keep:]                     # Ellipsis swallows cut..keep
        elif k == 2:
            comps.insert(rng.randrange(len(comps) + 1), None)
        return tuple(comps)

    def thunk():
        a = rng.anchor
        if a is not None and a < len(GETSLICE_GRID):
            nb, shape, idx = GETSLICE_GRID[a]
            return _distinct_tensor(rng, nb, shape)[idx]
        nb = rng.choice([0, 1, 1, 2])
        r = rng.choice([1, 2, 2, 3])
        n = rng.choice([2, 3, 4])
        shape = tuple(n if rng.random() < 0.7 else rng.choice([1, 2, 3]) for _ in range(r))
        x = _distinct_tensor(rng, nb, shape)
        idx = rand_index(shape)
        k = rng.randrange(7)
        if k == 0:
            return x[idx]
        if k == 1:                                                              # chained: slice of a slice
            y = x[idx]
            return y[rand_index(y.output.shape)] if y.output.shape else y
        if k == 2:                                                              # an already cut tensor, then reversed
            cut = x[(slice(1, None),)] if shape[0] > 1 else x
            return cut[(Ellipsis, slice(None, None, -1))] if rng.random() < 0.5 else cut[(slice(None, None, -1),)]
        if k == 3:                                                              # lazily built, then bound
            v = Variable("v", Reals[shape])
            return v[idx](v=x)
        if k == 4:                                                              # lazy operand (free real input) bound later
            w = Variable("w", Real)
            return (x * w)[idx](w=Number(2.0))
        if k == 5:                                                              # consumed: position-weighted sum
            y = x[idx]
            if not y.output.shape:
                return y
            wts = Tensor(np.arange(1.0, 1.0 + int(np.prod(y.output.shape))).reshape(y.output.shape))
            return (y * wts).sum()
        y = x[idx]                                                              # double reversal / against the original
        back = y[(slice(None, None, -1),)] if y.output.shape else y
        return back - x if back.output == x.output else back
    return thunk


FAMILIES = OrderedDict([
    ("binalign", fam_binalign),
    ("function", fam_function),
    ("getitem", fam_getitem),
    ("getslice", fam_getslice),
    ("tensordot", fam_tensordot),
    ("subschain", fam_subschain),
    ("integrate", fam_integrate), ("scatter", fam_scatter), ("misc", fam_misc),
    ("slices", fam_slices),
    ("contraction", fam_contraction),
    ("delta", fam_delta), ("independent", fam_independent), ("align", fam_align), ("tuple", fam_tuple),
    ("finitary", fam_finitary), ("lambda", fam_lambda), ("constant", fam_constant), ("arith", fam_arith),
    ("gaussian", fam_gaussian), ("markov", fam_markov),
])

EXTRA_MODES = ["eager", "normalize>eager", "normalize", "unfold", "moment_matching", "lazy>eager", "reflect>eager", "reflect>normalize", "lazy", "reflect>moment_matching",
               "reflect>optimizer", "reflect>sequential"]

_INTERP = {"eager": FI.eager, "lazy": FI.lazy, "reflect": FI.reflect, "normalize": FI.normalize,
           "sequential": FI.sequential, "moment_matching": FI.moment_matching}
try:
    import funsor.optimizer as _FO
    _INTERP["unfold"] = _FO.unfold
except Exception:       # pragma: no cover
    pass


class BranchRandom(random.Random):
    """random.Random whose PRIMARY branch selector is deterministic for small subseeds (the coverage anchors):
    `branch(n)` = subseed % n, so subseeds 0..n-1 visit every top-level branch of a family once."""
    anchor = None

    def branch(self, n):
        if self.anchor is not None:
            return self.anchor % n
        return self.randrange(n)


def build(family, subseed):
    rng = BranchRandom(f"C02-extra-{family}-{subseed}")
    if isinstance(subseed, int) and 0 <= subseed < 4096:
        rng.anchor = subseed
    return FAMILIES[family](rng)


INEXACT_SENSITIVE = {"gaussian", "integrate"}      # moment_matching approximates Gaussian mixtures: not an exact rewrite


def run_extra(rec, family, subseed, mode, prog_id=None):
    import funsor.optimizer as FO
    if family in INEXACT_SENSITIVE and "moment_matching" in mode:
        mode = "reflect>eager"

    def go():
        thunk = build(family, subseed)          # fresh rng: the same expression under every mode
        if ">" not in mode:
            with _INTERP[mode]:
                return thunk()
        first, second = mode.split(">")
        with _INTERP[first]:
            e = thunk()
        if second == "optimizer":
            return FO.apply_optimizer(e)
        with _INTERP[second]:
            return reinterpret(e)
    return rec.run(prog_id, go)


# ---------------------------------------------------------------------------------------------
# funsor-level evaluation oracle
# ---------------------------------------------------------------------------------------------

def _sample_value(rng, d):
    if isinstance(d.dtype, int):
        if d.shape:
            return Tensor(np.array([rng.randrange(d.dtype) for _ in range(int(np.prod(d.shape)))]).reshape(d.shape),
                          OrderedDict(), d.dtype)
        return Number(rng.randrange(d.dtype), d.dtype)
    if d.dtype == "real":
        if d.shape:
            return Tensor(np.array([rng.choice(GRID) for _ in range(int(np.prod(d.shape)))],
                                   dtype=np.float64).reshape(d.shape))
        return Number(float(rng.choice(GRID)))
    raise R.OracleUnsupported(f"domain {d}")


def _ground(v):
    """ground funsor value -> list of ndarrays, or None if still lazy"""
    if isinstance(v, (Tensor, Number)):
        return [np.asarray(v.data, dtype=np.float64)] if not v.inputs else None
    if isinstance(v, Tuple):
        out = []
        for a in v.args:
            g = _ground(a)
            if g is None:
                return None
            out += g
        return out
    return None


def delta_supports(*terms):
    """name -> candidate values (ndarrays of the event shape) harvested from the points of Delta terms, so that
    sample points hit the support of point masses (elsewhere both sides are -inf and nothing is compared)."""
    out = {}
    seen = set()
    stack = [t for t in terms if isinstance(t, Funsor)]
    while stack and len(seen) < 5000:
        t = stack.pop()
        if id(t) in seen:
            continue
        seen.add(id(t))
        if isinstance(t, Delta):
            for name, (point, _) in t.terms:
                if isinstance(point, (Tensor, Number)):
                    data = np.asarray(point.data, dtype=np.float64)
                    ev = tuple(point.output.shape)
                    flat = data.reshape((-1,) + ev) if data.ndim > len(ev) else data.reshape((1,) + ev)
                    out.setdefault((name, ev), []).extend(list(flat[:8]))
        stack.extend(R.subfunsors(t))
    return out


def funsor_eval_check(refl, res, rng, npoints=6, rtol=1e-6):
    """-> ('same'|'differ'|'declined'|'unsupported', detail).  Both terms are evaluated by funsor itself
    (eager) at sample points of the reflected term's inputs."""
    if isinstance(refl, R.Pseudo) or not isinstance(res, Funsor):
        return "unsupported", "pseudo reflected term"
    decided = 0
    supports = delta_supports(refl, res)
    by_shape = {}
    for (name, ev), vals in supports.items():
        by_shape.setdefault(ev, []).extend(vals)
    for it in range(npoints):
        try:
            point = {}
            for k, d in refl.inputs.items():
                cands = supports.get((k, tuple(d.shape))) or by_shape.get(tuple(d.shape))
                if d.dtype == "real" and cands and (it % 3 != 2):
                    v = np.asarray(cands[rng.randrange(len(cands))], dtype=np.float64)
                    point[k] = Tensor(v) if v.shape else Number(float(v))
                else:
                    point[k] = _sample_value(rng, d)
        except R.OracleUnsupported as e:
            return "unsupported", str(e)
        env = {k: np.asarray(v.data) for k, v in point.items()}

        def value_at(term, is_refl):
            # independent brute-force semantics first (no funsor rule involved); funsor's own eager evaluation
            # only where the term is outside py_denote (Gaussians, Integrate, …) — for the reflected term that
            # re-dispatches through eager rules, possibly the very rule under test (a weaker, cross-rule check)
            try:
                return [np.asarray(R.py_denote(term, env), dtype=np.float64)], None
            except (R.OracleUnsupported, KeyError, TypeError, ValueError, IndexError, AttributeError,
                    AssertionError, NotImplementedError, ZeroDivisionError):
                pass
            with FI.eager:
                sub = {k: v for k, v in point.items() if k in term.inputs}
                v = reinterpret(term(**sub)) if sub else reinterpret(term)
            return _ground(v), v
        try:
            ga, a = value_at(refl, True)
            gb, b = value_at(res, False)
        except (NotImplementedError, AssertionError, ValueError, TypeError, KeyError, IndexError, AttributeError,
                ZeroDivisionError, RecursionError, np.linalg.LinAlgError) as e:
            return "declined", f"{type(e).__name__}: {str(e)[:80]}"
        if ga is None or gb is None:
            continue
        decided += 1
        if len(ga) != len(gb):
            return "differ", {"point": {k: str(v) for k, v in point.items()}, "reflected": str(a)[:200], "result": str(b)[:200]}
        for x, y in zip(ga, gb):
            with np.errstate(all="ignore"):
                try:
                    x2, y2 = np.broadcast_arrays(x, y)
                    ok = x.shape == y.shape and bool(np.all(np.isclose(x2, y2, rtol=rtol, atol=1e-8, equal_nan=True)))
                except ValueError:
                    ok = False
            if not ok:
                return "differ", {"point": {k: str(getattr(v, "data", v)) for k, v in point.items()},
                                  "reflected": np.asarray(x).tolist(), "result": np.asarray(y).tolist()}
    if decided == 0:
        return "declined", "no sample point made both sides ground"
    return "same", decided
