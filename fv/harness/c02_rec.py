"""
fv/harness/c02_rec.py — run-time observation of rule firings + an independent Python oracle.

  Recorder          wraps the instance attribute `dispatch` of every DispatchedInterpretation found in
                    funsor's modules (nothing in /repo is touched); while `rec.on` is set, every call
                    `rule_fn(*args) -> result` with result not None is appended to `rec.firings`.
  all_interps()     {display name: DispatchedInterpretation}; optimizer's two anonymous instances are
                    named after their module attribute (unfold / optimize).
  py_denote(t, env) brute-force value of a funsor *term* (textbook semantics: binders by environment
                    update) in float64 — the Python-side oracle used (i) for firings outside the exact
                    Lean fragment (logaddexp / exp / log …, compared with rtol) and (ii) by `search`.
"""
import itertools
import math
import sys
from collections import OrderedDict

import numpy as np

from .. import futil
from ..futil import funsor, Tensor, Number, Variable

import funsor.interpretations as FI
import funsor.optimizer as FO
import funsor.ops as ops
from funsor.terms import (Unary, Binary, Reduce, Subs, Slice, Stack, Cat, Lambda, Independent, Align, Funsor)
from funsor.cnf import Contraction
from funsor.interpretations import reflect

# modules that register rules (import for their side effect so that the registries are complete)
import funsor.cnf, funsor.tensor, funsor.delta, funsor.gaussian, funsor.joint, funsor.integrate  # noqa: E401,F401
import funsor.constant, funsor.sum_product, funsor.affine, funsor.distribution, funsor.approximations  # noqa: E401,F401
import funsor.recipes, funsor.precondition, funsor.adjoint, funsor.factory, funsor.montecarlo  # noqa: E401,F401

EXACT = ["eager", "normalize", "lazy", "sequential", "moment_matching", "unfold", "optimize"]


def all_interps():
    """Every DispatchedInterpretation instance reachable as a module attribute of a loaded funsor module."""
    out = OrderedDict()
    seen = {}
    for mname in sorted(m for m in sys.modules if m == "funsor" or m.startswith("funsor.")):
        mod = sys.modules[mname]
        if mod is None or ".torch" in mname or ".jax" in mname:
            continue
        for attr, v in sorted(vars(mod).items()):
            if isinstance(v, FI.DispatchedInterpretation) and id(v) not in seen:
                nm = v.__name__
                if nm == "dispatched":           # anonymous: name it after the attribute (unfold_base -> unfold)
                    nm = attr[:-5] if attr.endswith("_base") else attr
                seen[id(v)] = nm
                out[nm] = v
    return out


def qualname(fn):
    return f"{getattr(fn, '__module__', '?')}.{getattr(fn, '__qualname__', getattr(fn, '__name__', repr(fn)))}"


class Firing:
    __slots__ = ("interp", "cls", "fn", "args", "result", "prog", "region")

    def __init__(self, interp, cls, fn, args, result, prog):
        self.interp, self.cls, self.fn, self.args, self.result, self.prog = interp, cls, fn, args, result, prog
        self.region = False     # args lie in the region of the open finding KF-shared-binder-unfold

    @property
    def rule(self):
        return qualname(self.fn)

    def reflected(self):
        """The lazy term `cls(*args)` the result is compared against.  Where the class constructor or
        reflect's alpha-mangling refuses the argument combination (a Contraction that is not in normal
        form, a Reduce over a variable absent from its argument) an un-mangled `Pseudo` term stands for it."""
        try:
            return reflect.interpret(self.cls, *self.args)
        except (AssertionError, KeyError, NotImplementedError):
            p = pseudo_reflect(self.cls, self.args)
            if p is None:
                raise
            return p


class Pseudo:
    """Stand-in for `cls(*args)` (kind 'reduce' | 'contraction'); read by py_denote and c02.wire_of."""

    def __init__(self, kind, args, inputs, bound, **kw):
        self.kind = kind
        self._ast_values = args
        self.inputs = inputs
        self.bound = bound
        self.__dict__.update(kw)

    def __str__(self):
        return f"{self.kind.capitalize()}(" + ", ".join(str(a) for a in self._ast_values) + ")"


def pseudo_reflect(cls, args):
    name = cls.__name__
    if name == "Reduce" and len(args) == 3:
        op, arg, rvars = args
        if not (isinstance(arg, Funsor) and isinstance(rvars, frozenset)):
            return None
        names = {v.name for v in rvars}
        inputs = OrderedDict((k, d) for k, d in arg.inputs.items() if k not in names)
        return Pseudo("reduce", args, inputs, {v.name: v.output for v in rvars}, op=op, arg=arg, reduced_vars=rvars)
    if name == "Align" and len(args) == 2 and isinstance(args[0], Funsor):
        # the class refuses names that are not exactly the inputs; an Align means its argument
        arg = args[0]
        return Pseudo("same", args, OrderedDict(arg.inputs), {}, arg=arg)
    if name == "Binary" and len(args) == 3 and type(args[1]).__name__ == "Tuple" and isinstance(args[2], Number) \
            and ser_opname(args[0]) == "getitem":
        # the lazy term Tuple[...][Number] has no statically inferable domain (reflect raises); it means the component
        tup, k = args[1], int(args[2].data)
        if 0 <= k < len(tup.args):
            return Pseudo("same", args, OrderedDict(tup.inputs), {}, arg=tup.args[k])
        return None
    if name == "Independent" and len(args) == 4:
        fn, reals_var, bint_var, diag_var = args
        # the class refuses a `fn` without the diagonal input; its meaning fn(x_i = x[i]).reduce(add, i) is then
        # just the sum over the plate
        if isinstance(fn, Funsor) and diag_var not in fn.inputs and bint_var in fn.inputs:
            v = Variable(bint_var, fn.inputs[bint_var])
            inputs = OrderedDict((k, d) for k, d in fn.inputs.items() if k != bint_var)
            return Pseudo("reduce", (ops.add, fn, frozenset([v])), inputs, {bint_var: v.output}, op=ops.add, arg=fn,
                          reduced_vars=frozenset([v]))
        return None
    if name == "Contraction" and len(args) >= 4:
        red_op, bin_op, rvars = args[:3]
        terms = args[3] if len(args) == 4 and isinstance(args[3], tuple) else tuple(args[3:])
        if not (isinstance(rvars, frozenset) and terms and all(isinstance(t, Funsor) for t in terms)):
            return None
        names = {v.name for v in rvars}
        inputs = OrderedDict()
        for t in terms:
            inputs.update((k, d) for k, d in t.inputs.items() if k not in names)
        return Pseudo("contraction", args, inputs, {v.name: v.output for v in rvars}, red_op=red_op, bin_op=bin_op,
                      reduced_vars=rvars, terms=terms)
    return None


class Recorder:
    def __init__(self):
        self.on = False
        self.firings = []
        self.prog = None
        self.installed = []
        self.calls = 0
        self.declined = 0

    def install(self):
        if self.installed:
            return
        for name, it in all_interps().items():
            orig = it.dispatch
            it.dispatch = self._wrap(name, orig)
            self.installed.append((it, orig))

    def uninstall(self):
        for it, orig in self.installed:
            it.dispatch = orig
        self.installed = []

    def _wrap(self, name, orig):
        rec = self

        def dispatch(cls, *args):
            fn = orig(cls, *args)
            if not rec.on:
                return fn

            def rule(*a):
                rec.calls += 1
                res = fn(*a)
                if res is None:
                    rec.declined += 1
                elif rec.on:
                    rec.firings.append(Firing(name, cls, fn, a, res, rec.prog))
                return res
            return rule
        return dispatch

    def run(self, prog, thunk):
        """Evaluate thunk() with recording on; returns (status, value)."""
        self.prog = prog
        self.on = True
        try:
            return ("value", thunk())
        except (NotImplementedError, AssertionError, ValueError, TypeError, KeyError, IndexError,
                AttributeError, ZeroDivisionError, RecursionError) as e:
            return ("declined", f"{type(e).__name__}: {str(e)[:80]}")
        finally:
            self.on = False
            self.prog = None


# ---------------------------------------------------------------------------------------------
# structural helpers
# ---------------------------------------------------------------------------------------------

def struct_key(x):
    """Hashable structural key of a rule argument (funsors are hash-consed: id() is structural while the
    object is alive — the Firing keeps it alive)."""
    if isinstance(x, Funsor):
        return ("F", id(x))
    if isinstance(x, (tuple, list)):
        return ("T",) + tuple(struct_key(y) for y in x)
    if isinstance(x, frozenset):
        return ("S",) + tuple(sorted(struct_key(y) for y in x))
    if isinstance(x, (dict, OrderedDict)):
        return ("D",) + tuple((k, struct_key(v)) for k, v in x.items())
    if isinstance(x, np.ndarray):
        return ("A", id(x))
    try:
        hash(x)
        return ("H", x)
    except TypeError:
        return ("R", repr(x))


def subfunsors(x):
    """Direct funsor children of a term (through tuples / frozensets / dicts of its ast values)."""
    out = []

    def go(v):
        if isinstance(v, Funsor):
            out.append(v)
        elif isinstance(v, (tuple, frozenset, list)):
            for y in v:
                go(y)
        elif isinstance(v, (dict, OrderedDict)):
            for y in v.values():
                go(y)
    for v in getattr(x, "_ast_values", ()):
        go(v)
    return out


def shares_binder(x, _limit=20000):
    """True iff some binder node (a term with bound variables) is reachable along two different paths of
    `x` or of a funsor inside the python structure `x` — the region of KF-shared-binder-unfold."""
    count = {}
    budget = [_limit]

    def walk(t):
        budget[0] -= 1
        if budget[0] < 0:
            return True
        if getattr(t, "bound", None):
            c = count.get(id(t), 0) + 1
            count[id(t)] = c
            if c > 1:
                return True
        for c_ in subfunsors(t):
            if walk(c_):
                return True
        return False

    def top(v):
        if isinstance(v, Funsor):
            return walk(v)
        if isinstance(v, (tuple, frozenset, list)):
            return any(top(y) for y in v)
        return False
    return top(x)


def bound_name_clash(args, _limit=20000):
    """True iff some name is bound at two binder positions of a firing `cls(*args)`: the variables the
    firing itself reduces (a frozenset of Variables among `args`) and every binder node inside the operands,
    counted per path (a hash-consed binder reachable twice counts twice).  Mangled names are unique per binder
    object, so a clash means a shared binder — the region of KF-shared-binder-unfold."""
    count = {}
    budget = [_limit]

    def add(name):
        c = count.get(name, 0) + 1
        count[name] = c
        return c > 1

    def walk(t):
        budget[0] -= 1
        if budget[0] < 0:
            return True
        b = getattr(t, "bound", None)
        if b:
            for name in b:
                if add(name):
                    return True
        return any(walk(c) for c in subfunsors(t) if not isinstance(c, Variable))

    def top(v):
        if isinstance(v, Funsor):
            return walk(v)
        if isinstance(v, frozenset) and v and all(isinstance(y, Variable) for y in v):
            return any(add(y.name) for y in v)
        if isinstance(v, (tuple, list)):
            return any(top(y) for y in v)
        return False
    if any(top(a) for a in args):
        return True
    # capture risk: a name bound inside one operand occurs FREE in a sibling operand (mangled bound names are
    # unique per binder object, so this only happens after a shared binder was stripped from one sibling)
    operands = []
    for a in args:
        if isinstance(a, Funsor):
            operands.append(a)
        elif isinstance(a, (tuple, list)):
            operands.extend(x for x in a if isinstance(x, Funsor))
    if len(operands) < 2:
        return False
    bound_in = []
    for o in operands:
        names = set()
        stack = [o]
        seen = set()
        while stack and len(seen) < _limit:
            t = stack.pop()
            if id(t) in seen:
                continue
            seen.add(id(t))
            b = getattr(t, "bound", None)
            if b:
                names.update(b)
            stack.extend(c for c in subfunsors(t) if not isinstance(c, Variable))
        bound_in.append(names)
    for i, o in enumerate(operands):
        free = set(getattr(o, "inputs", ()))
        for j, names in enumerate(bound_in):
            if i != j and names & free:
                return True
    return False


def term_size(t, cap=10000):
    n = 0
    stack = [t]
    while stack and n < cap:
        x = stack.pop()
        n += 1
        stack.extend(subfunsors(x))
    return n


# ---------------------------------------------------------------------------------------------
# Python oracle
# ---------------------------------------------------------------------------------------------

class OracleUnsupported(Exception):
    pass


def _fold(op, vals):
    if op is ops.null:
        if len(vals) != 1:
            raise OracleUnsupported("null reduction over several points")
        return vals[0]
    acc = vals[0]
    for v in vals[1:]:
        acc = op(acc, v)
    return acc


def _assignments(vars_):
    vs = sorted(vars_, key=lambda v: v.name)
    for v in vs:
        if not isinstance(v.output.dtype, int) or v.output.shape:
            raise OracleUnsupported(f"binder {v.name}: {v.output}")
    for p in itertools.product(*[range(v.output.dtype) for v in vs]):
        yield {v.name: p_ for v, p_ in zip(vs, p)}


def py_denote(t, env):
    """Value of term `t` at the point `env` (name -> python int / float / ndarray) as an ndarray."""
    with np.errstate(all="ignore"):
        return _den(t, env)


def _den(t, env):
    if isinstance(t, Variable):
        return np.asarray(env[t.name])
    if isinstance(t, Number):
        return np.asarray(t.data)
    if isinstance(t, Tensor):
        idx = tuple(int(env[k]) for k in t.inputs)
        return np.asarray(t.data)[idx] if idx else np.asarray(t.data)
    if isinstance(t, Align):
        return _den(t.arg, env)
    if isinstance(t, Unary):
        return np.asarray(t.op(_den(t.arg, env)))
    if isinstance(t, Binary):
        a, b = _den(t.lhs, env), _den(t.rhs, env)
        if ser_opname(t.op) == "getitem":
            off = int(t.op.defaults.get("offset", 0))
            return a[(slice(None),) * off + (int(b),)]
        return np.asarray(t.op(a, b))
    if isinstance(t, Pseudo) and t.kind == "same":
        return _den(t.arg, env)
    if isinstance(t, Reduce) or (isinstance(t, Pseudo) and t.kind == "reduce"):
        vals = [_den(t.arg, {**env, **a}) for a in _assignments(t.reduced_vars)]
        return np.asarray(_fold(t.op, vals))
    if isinstance(t, Subs):
        bound = {k: _den(v, env) for k, v in t.subs.items()}
        return _den(t.arg, {**env, **bound})
    if isinstance(t, Slice):
        s = t.slice
        return np.asarray(s.start + s.step * int(env[t.name]))
    if isinstance(t, Stack):
        return _den(t.parts[int(env[t.name])], env)
    if isinstance(t, Cat):
        g = int(env[t.name])
        for p in t.parts:
            sz = p.inputs[t.part_name].size
            if g < sz:
                return _den(p, {**env, t.part_name: g})
            g -= sz
        raise OracleUnsupported("cat index out of range")
    if isinstance(t, Lambda):
        return np.stack([_den(t.expr, {**env, t.var.name: i}) for i in range(t.var.output.size)])
    if isinstance(t, Independent):
        x = np.asarray(env[t.reals_var])
        n = t.fn.inputs[t.bint_var].size
        vals = [_den(t.fn, {**env, t.bint_var: i, t.diag_var: x[i]}) for i in range(n)]
        return np.asarray(_fold(ops.add, vals))
    if isinstance(t, Contraction) or (isinstance(t, Pseudo) and t.kind == "contraction"):
        vals = []
        for a in _assignments(t.reduced_vars):
            e = {**env, **a}
            parts = [_den(x, e) for x in t.terms]
            vals.append(parts[0] if len(parts) == 1 else _fold(t.bin_op, parts))
        return np.asarray(_fold(t.red_op, vals))
    if type(t).__name__ == "Function":
        # the RAW python function on owned copies of the operands' data — never through funsor's one-slot memo
        vals = [np.array(_den(a, env), copy=True) for a in t.args]
        return np.asarray(_raw_call(t.fn, vals))
    if type(t).__name__ == "Constant":
        return _den(t.arg, env)              # constant w.r.t. its const inputs: they are ignored
    if type(t).__name__ == "Delta":
        total = np.asarray(0.0)
        for name, (point, logd) in t.terms:
            x = np.asarray(env[name], dtype=np.float64)
            pt = np.asarray(_den(point, env), dtype=np.float64)
            hit = x.shape == pt.shape and bool(np.all(x == pt))
            total = total + (np.asarray(_den(logd, env), dtype=np.float64) if hit else -np.inf)
        return np.asarray(total)
    if type(t).__name__ == "Scatter":
        # value at the destination point: fold `op` over the reduced assignments whose indices hit the point
        # (the unit of `op` where nothing is scattered)
        unit = ops.UNITS.get(t.op)
        if unit is None:
            raise OracleUnsupported("scatter op without unit")
        acc = np.asarray(float(unit))
        for a in _assignments(t.reduced_vars):
            e = {**env, **a}
            if all(int(np.asarray(_den(v, e))) == int(env[k]) for k, v in t.subs):
                acc = np.asarray(t.op(acc, _den(t.source, e)))
        return acc
    raise OracleUnsupported(type(t).__name__)


def _raw_call(fn, vals):
    import functools
    if isinstance(fn, functools.partial) and getattr(fn.func, "__name__", "") == "_select":
        inner, i = fn.args[0], fn.args[1]
        return _raw_call(inner, vals)[i]
    if type(fn).__name__ == "_Memoized":
        return fn.fn(*vals)
    return fn(*vals)


def ser_opname(op):
    n = getattr(op, "name", None) or getattr(op, "__name__", None)
    return {"and_": "and", "or_": "or"}.get(n, n)


REAL_POINTS = [-1.0, 0.5, 2.0]


def joint_points(inputs, cap=5000):
    """All points of the Bint inputs x sample points of real scalar inputs; None if unsupported / too big."""
    names, ranges = [], []
    for k, d in inputs.items():
        if d.shape:
            return None
        if isinstance(d.dtype, int):
            ranges.append(range(d.dtype))
        elif d.dtype == "real":
            ranges.append(REAL_POINTS)
        else:
            return None
        names.append(k)
    total = 1
    for r in ranges:
        total *= len(r)
    if total > cap:
        return None
    return [dict(zip(names, p)) for p in itertools.product(*ranges)]


def py_equal(a, b, rtol):
    a, b = np.asarray(a, dtype=np.float64), np.asarray(b, dtype=np.float64)
    if a.shape != b.shape:
        try:
            a, b = np.broadcast_arrays(a, b)
        except ValueError:
            return False
    if rtol == 0:
        return bool(np.all((a == b) | (np.isnan(a) & np.isnan(b))))
    return bool(np.all(np.isclose(a, b, rtol=rtol, atol=rtol, equal_nan=True)))
