"""
C03 — exact interpretations are interchangeable (deferred = immediate); Memoize.

extract     class table of every Funsor subclass importable under the numpy backend (AST of each
            `__init__` + live `_ast_fields`) and live probes of every candidate key collision
            -> lean/FunsorVerif/Gen/C03ClassTable.lean (obligation `class_table_ok` in Props/C03/Table.lean).
correspond  seeded recipes (fv/gen_terms.py + sum-product shapes + lazy real-variable reductions) are
            evaluated by sub-process workers (fv/harness/c03_worker.py) for FUNSOR_USE_TCO x
            FUNSOR_TYPECHECK in {0,1}^2: eagerly; built under lazy / reflect / normalize / memoize() and
            reinterpreted eagerly with reinterpret / recursion_reinterpret / stack_reinterpret; under
            sequential and moment_matching; under nestings of two context managers in both orders.
            Gate: every completed evaluation has the same output domain and the same value at every point
            as the eager build and as Lean `denote` of the expression (the spec is translated from the
            RECIPE, independently of funsor, and cross-checked against `reflect` syntax), inputs a subset.
            Memoize histories, anf orderings and sequential_reduce are compared with the Lean models.
search      10x volume against the python-side oracle (eager build) + demonstration of key collisions.
"""
import ast
import inspect
import itertools
import json
import os
import subprocess
import sys
import textwrap
from collections import OrderedDict
from fractions import Fraction
from pathlib import Path

import numpy as np

from ..common import sx, Q, parse_sx, VERIF, LEAN, REPO, _env
from .. import futil, ser, gen_terms
from ..futil import funsor, Tensor, Number, Variable, Bint, Real, ops
from . import c03_worker as W

from funsor.terms import Funsor
from funsor.interpretations import reflect, lazy, eager, memoize
from funsor.domains import Domain

import warnings
warnings.filterwarnings("ignore", category=SyntaxWarning)
GEN = LEAN / "FunsorVerif" / "Gen"
CONFIGS = [(0, 0), (1, 0), (0, 1), (1, 1)]          # (FUNSOR_USE_TCO, FUNSOR_TYPECHECK)


# ---------------------------------------------------------------------------------------------
# extract: class table + collision probes
# ---------------------------------------------------------------------------------------------

def funsor_classes():
    import importlib
    import pkgutil
    skipped = []
    for m in pkgutil.walk_packages(funsor.__path__, "funsor."):
        if m.name.startswith(("funsor.torch", "funsor.jax", "funsor.pyro", "funsor.minipyro", "funsor.testing")):
            continue
        try:
            importlib.import_module(m.name)
        except Exception as e:    # optional back ends
            skipped.append(f"{m.name}: {type(e).__name__}")
    seen = []

    def walk(c):
        for s in c.__subclasses__():
            if s not in seen:
                seen.append(s)
                walk(s)
    walk(Funsor)
    # classes defined in funsor's own source (user terms made with make_funsor at run time report
    # __module__ == "funsor.factory" but are not attributes of that module: they are exercised by
    # make_funsor_stream / the user-terms family, not listed in the table)
    out = [c for c in seen if not getattr(c, "__args__", None) and c.__module__.startswith("funsor.")
           and getattr(sys.modules.get(c.__module__), c.__name__, None) is c]
    return sorted(out, key=lambda c: c.__name__), skipped


def classify_type(t):
    from funsor.ops import Op
    import numbers
    if isinstance(t, tuple):
        out = []
        for x in t:
            out += classify_type(x)
        return sorted(set(out))
    if not isinstance(t, type):
        return ["other"]
    if issubclass(t, Funsor):
        return ["funsor"]
    if issubclass(t, Op):
        return ["op"]
    if t is str:
        return ["str"]
    if t is int or t is bool:
        return ["int"]
    if t is float or t is numbers.Number or t is numbers.Real:
        return ["int", "number"]
    if t is tuple:
        return ["tuple"]
    if t is frozenset or t is set:
        return ["frozenset"]
    if issubclass(t, Domain) or t.__name__ in ("ArrayType", "BintType", "RealsType", "Domain"):
        return ["domain"]
    if t is np.ndarray:
        return ["array"]
    return ["other"]


def field_kinds(cls):
    """AST of cls.__init__: every isinstance(F, T) / callable(F) / is_numeric_array(F) on a field F."""
    fields = list(cls._ast_fields)
    kinds = {f: set() for f in fields}
    try:
        src = textwrap.dedent(inspect.getsource(cls.__init__))
        tree = ast.parse(src)
    except (OSError, TypeError, SyntaxError):
        return [(f, []) for f in fields], False
    fn = tree.body[0]
    ast_args = [a.arg for a in fn.args.args][1:]
    consistent = ast_args[:len(fields)] == fields or bool(fn.args.vararg)
    mod = sys.modules[cls.__module__].__dict__
    for node in ast.walk(tree):
        if not isinstance(node, ast.Call):
            continue
        fname = ast.unparse(node.func)
        if fname == "isinstance" and len(node.args) == 2 and isinstance(node.args[0], ast.Name) \
                and node.args[0].id in kinds:
            try:
                t = eval(ast.unparse(node.args[1]), dict(mod))
            except Exception:
                t = None
            kinds[node.args[0].id] |= set(classify_type(t))
        elif fname == "callable" and node.args and isinstance(node.args[0], ast.Name) and node.args[0].id in kinds:
            kinds[node.args[0].id] |= {"op", "callable", "funsor"}
        elif fname.endswith("is_numeric_array") and node.args and isinstance(node.args[0], ast.Name) \
                and node.args[0].id in kinds:
            kinds[node.args[0].id] |= {"array"}
    return [(f, sorted(kinds[f])) for f in fields], consistent


VKS = ["funsor", "op", "str", "int", "number", "tuple", "frozenset", "array", "domain", "callable", "other"]


def probe_pool():
    with reflect:
        t = Tensor(np.array([1.0, 2.0]), OrderedDict(i=Bint[2]))
        v = Variable("v", Bint[2])
        vi = Variable("i", Bint[2])
        n0 = Number(0, 2)
    return {
        "funsor": [t, v, vi, Number(1.0)],
        "op": [ops.add, ops.neg, ops.logaddexp],
        "str": ["i", "v"],
        "int": [0, 2],
        "number": [1.0],
        "tuple": [(), ("i",), (("i", n0),), (t,), (("i", Bint[2]),), (t, t)],
        "frozenset": [frozenset(), frozenset([vi]), frozenset(["i"])],
        "array": [np.array([1.0, 2.0])],
        "domain": [Bint[2], Real],
        "callable": [len],
        "other": [None],
    }


def overlap(x, y):
    if not x or not y:
        return sorted(set(x) | set(y)) or list(VKS)
    return sorted(set(x) & set(y))


def candidate(fa, fb):
    if len(fa) != len(fb):
        return None
    per = []
    for (_, x), (_, y) in zip(fa, fb):
        if x and y and not (set(x) & set(y)):
            return None
        per.append(overlap(x, y))
    return per


def probe_pair(A, B, per, pool, cap=4000):
    """Try to construct A(*args) and B(*args) under reflect with a common argument tuple such that the
    Memoize keys of the two requests (post-metaclass arguments) are equal."""
    from funsor.interpretations import Interpretation
    choices = [[x for k in ks for x in pool[k]] for ks in per]
    witnesses = []
    tried = 0
    for args in itertools.product(*choices):
        tried += 1
        if tried > cap:
            break
        res = []
        for cls in (A, B):
            try:
                with reflect:
                    r = cls(*args)
                res.append(r if isinstance(r, cls) else None)
            except Exception:
                res.append(None)
        if res[0] is None or res[1] is None:
            continue
        ka = Interpretation.make_hash_key(A, *res[0]._ast_values)
        kb = Interpretation.make_hash_key(B, *res[1]._ast_values)
        try:
            same = ka == kb
        except Exception:
            same = False
        if same:
            witnesses.append(args)
    return witnesses, tried


def class_table():
    classes, skipped = funsor_classes()
    entries = []
    for c in classes:
        f, consistent = field_kinds(c)
        entries.append((c, f, consistent))
    pool = probe_pool()
    probes = []
    for (A, fa, _), (B, fb, _) in itertools.combinations(entries, 2):
        per = candidate(fa, fb)
        if per is None:
            continue
        if not fa:   # no constructor arguments at all (abstract Distribution): nothing to key on
            probes.append((A, B, "refuted", [], 0))
            continue
        wit, tried = probe_pair(A, B, per, pool)
        if not wit:
            outcome = "refuted"
        elif all(any(isinstance(a, tuple) and a == () for a in args) for args in wit):
            outcome = "witnessEmptyTuple"
        else:
            outcome = "witness"
        probes.append((A, B, outcome, wit, tried))
    return entries, probes, skipped


def anf_source():
    """AST of funsor.interpreter.anf: how the wait count is initialised, how parents are recorded, how the
    emission loop decrements; plus a live run on a node with a duplicated child next to a deeper sibling."""
    import funsor.interpreter as I
    src = textwrap.dedent(inspect.getsource(I.anf))
    tree = ast.parse(src).body[0]
    count_rule, parent_rule, dec, leaf0 = "unknown", "unknown", False, 0
    count_stmt, parent_stmt = "", ""
    for loop in ast.walk(tree):
        if isinstance(loop, ast.For) and ast.unparse(loop.iter).startswith("children("):
            cvar = ast.unparse(loop.target)
            for st in loop.body:                       # statements directly in the loop body = per occurrence
                u = ast.unparse(st)
                if isinstance(st, ast.AugAssign) and u.replace(" ", "") == "children_counts[h]+=1":
                    count_rule, count_stmt = "perOccurrence", u
                if isinstance(st, ast.Expr) and u.replace(" ", "") == f"child_to_parents[{cvar}].append(h)":
                    parent_rule, parent_stmt = "perOccurrence", u
            for st in ast.walk(loop):                  # nested under a condition = not per occurrence
                u = ast.unparse(st).replace(" ", "")
                if isinstance(st, ast.If):
                    for inner in ast.walk(st):
                        ui = ast.unparse(inner).replace(" ", "")
                        if isinstance(inner, ast.Expr) and ui == f"child_to_parents[{cvar}].append(h)" \
                                and parent_rule != "perOccurrence":
                            parent_rule, parent_stmt = "perDistinct", ast.unparse(inner)
    for st in ast.walk(tree):
        u = ast.unparse(st)
        if isinstance(st, ast.Assign) and u.replace(" ", "").startswith("children_counts[h]=len("):
            count_rule, count_stmt = "perDistinct", u
        if isinstance(st, ast.For) and ast.unparse(st.iter).replace(" ", "") == "child_to_parents[h]":
            dec = any(isinstance(x, ast.AugAssign) and
                      ast.unparse(x).replace(" ", "") == f"children_counts[{ast.unparse(st.target)}]-=1"
                      for x in st.body)
        if isinstance(st, ast.If) and ast.unparse(st.test).replace(" ", "") in (
                "children_counts[h]==0", "children_counts[parent]==0"):
            leaf0 += 1
    # live: root -> (a, a, b), b deeper than a
    a = ("a",)
    b = ((("d",),),)
    node = (a, a, b)
    root = (node,)
    order = list(I.anf(root, stop=lambda x: isinstance(x, str)))
    pos = {id(k): i for i, k in enumerate(order)}
    live_ok = all(id(k) in pos for k in (a, b, node, root)) and pos[id(b)] < pos[id(node)] and pos[id(a)] < pos[id(node)]
    return dict(count_rule=count_rule, parent_rule=parent_rule, dec=dec, leaf0=(leaf0 == 2),
                count_stmt=count_stmt, parent_stmt=parent_stmt, live_ok=live_ok)



def write_if_changed(path, text):
    if path.exists() and path.read_text() == text:
        return False
    path.write_text(text)
    return True


def extract(ctx):
    entries, probes, skipped = class_table()
    L = ["/- GENERATED by fv/harness/c03.py extract() from FUNSOR_REPO (AST of every Funsor subclass's `__init__`",
         "   + live `_ast_fields` + live probes of candidate key collisions) — DO NOT EDIT. -/",
         "import FunsorVerif.Model.C03", "namespace FV.C03.Gen", "open FV.C03", "",
         "def classTable : List ClassEntry := ["]
    rows = []
    for c, f, consistent in entries:
        fs = ", ".join('("%s", [%s])' % (n, ", ".join("VK." + k for k in ks)) for n, ks in f)
        rows.append(f'  /- {c.__module__} -/ ⟨"{c.__name__}", [{fs}]⟩')
    L.append(",\n".join(rows) + "]")
    L.append("")
    L.append("/-- `get_origin(cls)` of every class, fully qualified: the class component of Memoize's key. -/")
    L.append("def classOrigins : List String := [" +
             ", ".join('"%s.%s"' % (c.__module__, c.__qualname__) for c, _, _ in entries) + "]")
    L.append("")
    L.append("def probes : List Probe := [")
    L.append(",\n".join(f'  ⟨"{A.__name__}", "{B.__name__}", ProbeOutcome.{o}⟩' for A, B, o, _, _ in probes) + "]")
    L.append("")
    L.append("end FV.C03.Gen")
    changed = write_if_changed(GEN / "C03ClassTable.lean", "\n".join(L) + "\n")
    a = anf_source()
    A = ["/- GENERATED by fv/harness/c03.py extract() from funsor/interpreter.py (AST of `anf`) — DO NOT EDIT. -/",
         "import FunsorVerif.Model.C03", "namespace FV.C03.Gen", "open FV.C03", "",
         "def anfSource : AnfSource :=",
         f"  {{ countRule := CountRule.{a['count_rule']}, parentRule := CountRule.{a['parent_rule']},",
         f"    decrementPerEntry := {'true' if a['dec'] else 'false'}, leafTestZero := {'true' if a['leaf0'] else 'false'},",
         f"    countStmt := {json.dumps(a['count_stmt'])}, parentStmt := {json.dumps(a['parent_stmt'])} }}", "",
         "/-- live run of `anf` on root -> (a, a, b) with b deeper than a: both a and b precede the node -/",
         f"def anfLiveDuplicateChildOk : Bool := {'true' if a['live_ok'] else 'false'}", "",
         "end FV.C03.Gen"]
    changed_a = write_if_changed(GEN / "C03AnfSource.lean", "\n".join(A) + "\n")
    ctx.extra["extract_anf"] = dict(a, rewritten=changed_a)
    bad = [c.__name__ for c, _, ok in entries if not ok]
    ctx.extra["extract"] = {
        "classes": len(entries), "candidate_pairs": len(probes),
        "probe_outcomes": {o: sum(1 for p in probes if p[2] == o) for o in ("refuted", "witnessEmptyTuple", "witness")},
        "witness_pairs": [[A.__name__, B.__name__, o] for A, B, o, _, _ in probes if o != "refuted"],
        "ast_fields_vs_init_signature_mismatch": bad, "skipped_modules": skipped, "rewritten": changed}
    if bad:
        ctx.assumptions.append(f"_ast_fields differ from the AST signature of __init__ for {bad}")
    ctx._c03_table = (entries, probes)
    try:
        from funsor.ops.op import Op
        found = []
        for n_ in sorted(dir(ops)):
            o_ = getattr(ops, n_)
            if isinstance(o_, Op) and getattr(o_, "arity", 1) == 1:
                try:
                    ps_ = list(inspect.signature(o_.default if hasattr(o_, "default") else o_).parameters)
                except (TypeError, ValueError):
                    continue
                if len(ps_) > 1:
                    found.append(n_)
        ctx.extra["parametrised_unary_ops"] = {"found_in_funsor.ops": found,
                                               "generated": [n_ for n_ in found if n_ in W.PUNARY_GENERATED] +
                                                            (["getslice"] if "getslice" not in found else []),
                                               "not_generated": [n_ for n_ in found if n_ not in W.PUNARY_GENERATED]}
    except Exception as e_:
        ctx.extra["parametrised_unary_ops"] = {"error": repr(e_)[:200]}


# ---------------------------------------------------------------------------------------------
# spec: recipe -> wire term (independent of funsor), with the expression's free inputs
# ---------------------------------------------------------------------------------------------

IllFormed = W.IllFormed
recipe_wire = W.recipe_wire


def case_spec(recipe, env):
    wire, free = recipe_wire(recipe)
    ins = sorted((k, v) for k, v in free.items() if v != "real")
    reals = sorted(k for k, v in free.items() if v == "real")
    for k in reals:
        if k not in env:
            raise IllFormed(f"unbound real input {k}")
    return wire, ins


# ---------------------------------------------------------------------------------------------
# workers
# ---------------------------------------------------------------------------------------------

def launch_workers(base_seed, n, nshards, tier, configs=CONFIGS):
    """Workers write to temporary files (a pipe would stall every worker but the one being read)."""
    import tempfile
    procs = []
    for tco, tc in configs:
        for sh in range(nshards):
            e = _env()
            e["FUNSOR_USE_TCO"] = str(tco)
            e["FUNSOR_TYPECHECK"] = str(tc)
            e["FUNSOR_BACKEND"] = "numpy"
            e["PYTHONDONTWRITEBYTECODE"] = "1"
            e["PYTHONHASHSEED"] = "0"
            e["OMP_NUM_THREADS"] = "1"
            out = tempfile.TemporaryFile(mode="w+")
            err = tempfile.TemporaryFile(mode="w+")
            p = subprocess.Popen([sys.executable, "-B", "-m", "fv.harness.c03_worker", str(base_seed), str(n),
                                  str(sh), str(nshards), tier],
                                 cwd=str(VERIF), env=e, stdout=out, stderr=err, text=True)
            procs.append(((tco, tc), sh, p, out, err))
    return procs


def collect(procs, ctx, timeout):
    """-> {config: {case index: record}}"""
    import time
    deadline = time.time() + timeout
    out = {}
    for cfg, sh, p, fo, fe in procs:
        try:
            p.wait(timeout=max(1, deadline - time.time()))
        except subprocess.TimeoutExpired:
            p.kill()
            ctx.infra_errors.append(f"worker {cfg} shard {sh} timed out")
            continue
        fo.seek(0)
        fe.seek(0)
        so, se = fo.read(), fe.read()
        fo.close()
        fe.close()
        recs = out.setdefault(cfg, {})
        done = False
        for line in so.splitlines():
            if not line.startswith("{"):
                continue
            o = json.loads(line)
            if "config" in o:
                if (o["config"]["tco"], o["config"]["typecheck"]) != cfg:
                    ctx.infra_errors.append(f"worker config {o['config']} != requested {cfg}")
            elif "done" in o:
                done = True
            else:
                recs[o["i"]] = o
        if not done:
            ctx.infra_errors.append(f"worker {cfg} shard {sh} died (rc={p.returncode}): {se[-800:]}")
    return out


# ---------------------------------------------------------------------------------------------
# replay snippets
# ---------------------------------------------------------------------------------------------

SNIPPET_HELPERS = '''
import itertools
from funsor.interpreter import reinterpret, recursion_reinterpret, stack_reinterpret
from funsor.interpretations import lazy, reflect, normalize, eager, sequential, moment_matching, memoize
CM = {"lazy": lambda: lazy, "reflect": lambda: reflect, "normalize": lambda: normalize, "eager": lambda: eager,
      "sequential": lambda: sequential, "moment_matching": lambda: moment_matching, "memoize": lambda: memoize()}
RE = {"auto": reinterpret, "rec": recursion_reinterpret, "stack": stack_reinterpret}
def under(cms, thunk):
    if not cms:
        return thunk()
    with CM[cms[0]]():
        return under(cms[1:], thunk)
def table(f, ins, env):
    if env:
        f = f(**{k: Number(v) for k, v in env.items() if k in f.inputs})
    assert set(f.inputs) <= set(n for n, _ in ins), ("foreign input", f.inputs)
    out = []
    for p in itertools.product(*[range(s) for _, s in ins]):
        c = f(**{n: Number(v, s) for (n, s), v in zip(ins, p) if n in f.inputs})
        out.append(np.asarray(c.data).tolist())
    return str(f.output), out
'''


def replay_python(recipe, ins, env, cfg, mode, spec=None):
    name, bcm, rcm, which = mode
    spec_vals = None
    if spec is not None:
        spec_vals = [[_spec_str(x) for x in cell[1]] for cell in spec]
    return (f"# run as: FUNSOR_USE_TCO={cfg[0]} FUNSOR_TYPECHECK={cfg[1]} /venv/bin/python this_file.py\n"
            + gen_terms.PY_HEADER + "from funsor.domains import Real\n" + SNIPPET_HELPERS
            + (W.USER_SRC if W.has_user(recipe) else "")
            + f"def mk():\n    return {py_of(recipe)}\n"
            + f"ins = {[(n, s) for n, s in ins]!r}\nenv = {env!r}\n"
            + "expected = table(mk(), ins, env)\n"
            + f"t = under({tuple(bcm)!r}, mk)\n"
            + (f"t = under({tuple(rcm)!r}, lambda: RE[{which!r}](t))\n" if rcm is not None else "")
            + "got = table(t, ins, env)\nprint('eager   ', expected)\nprint(" + repr(name) + ", got)\n"
            + f"SPEC = {spec_vals!r}   # value of the expression at every point of ins (Lean denote), row-major\n"
            + "flat = [list(np.asarray(c, dtype=float).reshape(-1)) for c in got[1]]\n"
            + "print('spec    ', SPEC)\n"
            + GATE_SRC
            + "spec_ok = SPEC is None or (len(flat) == len(SPEC) and all(len(a) == len(b) and all(same_as_spec(x, y) "
              "for x, y in zip(a, b)) for a, b in zip(flat, SPEC)))\n"
            + "FAILS = (expected != got) or not spec_ok\n")


def py_of(r):
    if r[0] == "user":
        p = dict(r[2])
        args = [py_of(p[n]) if n in ("x", "w") else repr(p[n]) for n in W.USER_CLASSES[r[1]][0].split()]
        return f"{r[1]}({', '.join(args)})"
    if r[0] == "reduceall":
        return f"({py_of(r[2])}).reduce(ops.{gen_terms._pyop(r[1])})"
    if r[0] == "align":
        return f"({py_of(r[1])}).align({tuple(r[2])!r})"
    if r[0] == "punary":
        return f"ops.{r[1]}({py_of(r[3])}, " + ", ".join(repr(p) for p in r[2]) + ")"
    if r[0] == "pslice":
        return f"({py_of(r[2])})[" + ", ".join("slice(%r, %r, %r)" % s_ for s_ in r[1]) + "]"
    if r[0] == "tensor" and r[3]:
        _, ins_, dtype_, ev_, data_ = r
        return (f"Tensor(np.array({data_.tolist()}, dtype=np.float64), OrderedDict([" +
                ", ".join(f"({n!r}, Bint[{s_}])" for n, s_ in ins_) + f"]), {dtype_!r})")
    if r[0] == "subs":
        return f"({py_of(r[1])})(**{{" + ", ".join(f"{k!r}: {py_of(v)}" for k, v in r[2]) + "})"
    if r[0] == "var" and not isinstance(r[2], int):
        return f"Variable({r[1]!r}, Real)"
    if r[0] in ("binary",):
        return f"ops.{gen_terms._pyop(r[1])}({py_of(r[2])}, {py_of(r[3])})"
    if r[0] == "unary":
        return f"ops.{gen_terms._pyop(r[1])}({py_of(r[2])})"
    if r[0] == "reduce":
        _, op, a, rv, absent = r
        vs = "frozenset([" + ", ".join([repr(n) for n in rv] + [f"Variable({n!r}, Bint[{s}])" for n, s in absent]) + "])"
        return f"({py_of(a)}).reduce(ops.{gen_terms._pyop(op)}, {vs})"
    return gen_terms.python_of(r)


def replay(ctx, doc):
    py = doc.get("python")
    if not py:
        return True
    cfg = (doc.get("witness") or {}).get("config", [0, 0]) if isinstance(doc.get("witness"), dict) else [0, 0]
    e = _env()
    e["FUNSOR_USE_TCO"], e["FUNSOR_TYPECHECK"] = str(cfg[0]), str(cfg[1])
    code = ("import sys\nsys.path.insert(0, %r)\n" % str(REPO)) + py + "\nprint('FAILS=%s' % FAILS)\n"
    p = subprocess.run([sys.executable, "-B", "-c", code], env=e, stdout=subprocess.PIPE,
                       stderr=subprocess.STDOUT, text=True, timeout=600)
    print(p.stdout[-3000:])
    return "FAILS=True" in p.stdout or p.returncode != 0


# ---------------------------------------------------------------------------------------------
# gates
# ---------------------------------------------------------------------------------------------

# The ONE comparison of an implementation value (a float64) with the spec value (an exact rational or inf/-inf/nan
# from Lean denote), used by the run's gate and pasted verbatim into every replay snippet.
GATE_SRC = '''
from fractions import Fraction as _Fr
def same_as_spec(x, spec):
    """x: float; spec: "p/q" | "p" | "inf" | "-inf" | "nan".  Exact when the rational is a float64 value; when it is
    not exactly representable (|value| beyond 2**53 with low bits set, or a non-dyadic rational) the float must be the
    spec up to relative 1e-12 — float arithmetic cannot do better, and deferred-vs-immediate stays bit-exact."""
    x = float(x)
    if spec in ("inf", "-inf", "nan"):
        return (x != x) if spec == "nan" else x == float(spec)
    if x != x or x in (float("inf"), float("-inf")):
        return False
    y = _Fr(spec)
    if _Fr(x) == y:
        return True
    try:
        representable = _Fr(float(y)) == y
    except OverflowError:
        representable = False
    if representable:
        return False
    return abs(_Fr(x) - y) <= _Fr(1, 10 ** 12) * max(1, abs(y))
'''
exec(GATE_SRC)


def _spec_str(y):
    if isinstance(y, float):
        return "nan" if y != y else ("inf" if y > 0 else "-inf")
    return str(y)


def table_matches_model(tab, model):
    """worker canonical table vs parse_table(driver answer)."""
    if len(tab["vals"]) != len(model):
        return False
    for cell, m in zip(tab["vals"], model):
        if m is None:
            return False
        if list(m[0]) != list(tab["shape"]) or len(m[1]) != len(cell):
            return False
        for x, y in zip(cell, m[1]):
            if not same_as_spec(float(x) if x in ("inf", "-inf", "nan") else float(Fraction(x)), _spec_str(y)):
                return False
    return True


def mode_tuple(name, idx, base_seed):
    """Recover (name, build nesting, reinterpret nesting, reinterpreter) of a mode of case idx."""
    import random
    rng = random.Random(f"C03-modes-{base_seed}-{idx}")
    for m in W.mode_list(rng):
        if m[0] == name:
            return m
    return (name, (), None, None)


def check_records(ctx, cs, recs_by_cfg, base_seed, specs, use_model=True):
    """specs: {idx: (ins, model_table | None)}"""
    nfail = 0
    for cfg, recs in sorted(recs_by_cfg.items()):
        ctag = f"tco{cfg[0]}-tc{cfg[1]}"
        for idx, o in sorted(recs.items()):
            c, recipe, fam, env = cs[idx]
            if "crash" in o:
                ctx.infra_errors.append(f"worker crash on case {idx} {ctag}: {o['crash'][-600:]}")
                continue
            if "skip" in o:
                ctx.count(f"skip:{o['skip']}")
                continue
            ins = [tuple(x) for x in o["ins"]]
            spec = specs.get(idx)
            # A repeated identical reduced sub-term (one hash-consed object, ONE bound name) is the region of the
            # open finding KF-shared-binder-unfold — but that finding needs optimizer.unfold / apply_optimizer,
            # which no mode of this check goes through: lazy / reflect / normalize / memoize / sequential /
            # moment_matching are correct there on the pinned tree, so these cases are gated like all others.
            known_region = False
            if W.shared_reduce_subrecipes(recipe):
                ctx.count("region:shared-reduce-subterm (gated: no mode passes through unfold/optimizer)")
            eager_d = o["modes"].get("eager")
            ref = None          # reference digest
            ref_src = None
            if spec is not None and spec[1] is not None:
                if [tuple(x) for x in spec[0]] != ins:
                    ctx.infra_errors.append(f"case {idx}: spec inputs {spec[0]} != worker inputs {ins}")
                    continue
                for d, tab in o["tables"].items():
                    if table_matches_model(tab, spec[1]):
                        ref, ref_src = d, "Lean denote"
                        break
                if ref is None and o["tables"]:
                    ref, ref_src = "none-matches-denote", "Lean denote"
            elif isinstance(eager_d, str):
                ref, ref_src = eager_d, "eager build"
                ctx.count("reference:eager-only (spec undefined)")
            completed = 0
            for name, v in o["modes"].items():
                fam_mode = name.split(">")[0] if ">" in name else name
                if isinstance(v, list):
                    if v[0] == "bad-inputs":
                        if known_region:
                            continue
                        nfail += 1
                        m = mode_tuple(name, idx, base_seed)
                        ctx.fail("input", "C03.result-has-foreign-input",
                                 witness={"expr": gen_terms.describe(recipe), "mode": name, "config": list(cfg)},
                                 expected=f"inputs among {ins}", got=v[1],
                                 python=replay_python(recipe, ins, env, cfg, m))
                    else:
                        ctx.count(f"declined:{name.split(':')[0].split('>')[0]}:{v[0]}:{v[1]}")
                    continue
                completed += 1
                ok = True
                if ref is not None and v != ref:
                    ok = False
                if isinstance(eager_d, str) and v != eager_d:
                    ok = False
                if ok:
                    continue
                if known_region:
                    ctx.count("known-region-mismatch (not gated)")
                    continue
                nfail += 1
                m = mode_tuple(name, idx, base_seed)
                exp = spec[1] if (spec is not None and spec[1] is not None) else o["tables"].get(eager_d)
                ctx.fail("input", f"C03.deferred-ne-immediate[{fam_mode}]" if name != "eager" else "C03.eager-ne-denote",
                         witness={"expr": gen_terms.describe(recipe), "mode": name, "config": list(cfg),
                                  "inputs": ins, "env": env},
                         expected=f"{ref_src}: " + str(exp)[:600],
                         got=str(o["tables"].get(v))[:600],
                         python=replay_python(recipe, ins, env, cfg, m,
                                              spec[1] if (spec is not None and spec[1] is not None) else None))
            ctx.count(f"cfg:{ctag}")
            ctx.count(f"family:{fam}")
            ctx.count("completed-evaluations", completed)
            ctx.count("attempted-evaluations", len(o["modes"]))
            nt = gen_terms.recipe_size(recipe) >= 3 and completed >= 10 and len(ins) >= 1
            ctx.case(sample={"expr": py_of(recipe)[:240], "inputs": ins, "config": ctag,
                             "modes": len(o["modes"]), "completed": completed},
                     nontrivial_key=(repr(gen_terms.describe(recipe)) + ctag) if nt else None)
    return nfail


def check_memo(ctx, recs_by_cfg, use_driver=True):
    reqs, meta = [], []
    for cfg, recs in sorted(recs_by_cfg.items()):
        for idx, o in sorted(recs.items()):
            m = o.get("memo")
            if not m:
                continue
            meta.append((cfg, idx, m))
            reqs.append("C03 memo real " + sx([[c, k] for c, k in m["reqs"]]))
            reqs.append("C03 memo full " + sx([[c, k] for c, k in m["reqs"]]))
    raw = ctx.driver.ask(reqs) if (use_driver and reqs) else [None] * len(reqs)
    answers = list(zip(raw[0::2], raw[1::2]))
    for (cfg, idx, m), (ans, ans_full) in zip(meta, answers):
        n = len(m["reqs"])
        ctx.count("memo-histories")
        ctx.count("memo-requests", n)
        # python-side oracle: identical (cls, args) => identical object; value = base's value
        first = {}
        for i, (c, k) in enumerate(m["reqs"]):
            j = first.setdefault((c, k), i)
            if m["obj"][i] != m["obj"][j]:
                ctx.fail("input", "C03.memoize-not-same-object",
                         witness={"history": m["desc"], "request": i, "first": j, "config": list(cfg), "base": m["base"]},
                         expected="identical object for a repeated identical request", got="a different object",
                         python=None)
            if j != i:
                ctx.count("memo-repeats")
        ctx.count("memo-value-inconclusive (a side stays lazy)", sum(1 for ok in m["value_ok"] if ok is None))
        ctx.count("memo-value-checked", sum(1 for ok in m["value_ok"] if ok is True))
        for i, ok in enumerate(m["value_ok"]):
            if ok is False:
                ctx.fail("input", "C03.memoize-wrong-result",
                         witness={"history": m["desc"], "request": i, "config": list(cfg), "base": m["base"]},
                         expected="the value the base interpretation computes for these arguments",
                         got="a result computed for different arguments", python=m.get("python"))
        cross = sum(1 for i, (c, k) in enumerate(m["reqs"])
                    if any(k2 == k and c2 != c for c2, k2 in m["reqs"][:i]))
        if cross:
            ctx.count("memo-cross-class-key-collisions", cross)
        if ans is None:
            continue
        if not ans.startswith("ok "):
            ctx.infra_errors.append(f"driver memo: {ans}")
            continue
        # Two key disciplines are modelled: `real` = make_hash_key as pinned (arguments only) and `full` =
        # (class, arguments).  The implementation must behave exactly like one of them.
        verdicts = {}
        for kind, a_ in (("real", ans), ("full", ans_full)):
            if a_ is None or not a_.startswith("ok "):
                continue
            model = parse_sx(a_[3:])
            miss_model = [int(r[2]) == i for i, r in enumerate(model)]
            src_model = [int(r[2]) for r in model]
            verdicts[kind] = (miss_model == m["miss"] and
                              all(m["obj"][i] == m["obj"][s_] for i, s_ in enumerate(src_model)), miss_model)
        if verdicts.get("full", (False,))[0]:
            ctx.count("memo-model-agrees")
            if not verdicts.get("real", (False,))[0]:
                ctx.count("memo-histories-separating-class+args-from-args-only")
        elif verdicts.get("real", (False,))[0]:
            # behaves like the pre-99d933f key (class dropped): cross-class collisions return the wrong class's object
            ctx.fail("correspondence", "C03.memo-key-drops-class",
                     witness={"history": m["desc"], "reqs": m["reqs"], "impl_miss": m["miss"],
                              "model_miss_class_args": verdicts["full"][1] if "full" in verdicts else None,
                              "config": list(cfg)},
                     expected="Memoize keyed by (origin class, arguments) [headKey]",
                     got="hit/miss pattern of the key without the class [realKey]")
        else:
            ctx.fail("correspondence", "C03.memo-hit-miss-pattern",
                     witness={"history": m["desc"], "reqs": m["reqs"],
                              "model_miss_args_only": verdicts.get("real", (None, None))[1],
                              "model_miss_class_args": verdicts.get("full", (None, None))[1],
                              "impl_miss": m["miss"], "impl_obj": m["obj"], "config": list(cfg)})


def check_anf(ctx, recs_by_cfg, use_driver=True):
    reqs, meta = [], []
    for cfg, recs in sorted(recs_by_cfg.items()):
        for idx, o in sorted(recs.items()):
            a = o.get("anf")
            if not a:
                if "anf_error" in o:
                    ctx.count("anf-declined")
                continue
            meta.append((cfg, idx, a, o.get("calls")))
            reqs.append(f"C03 anf {a['root']} " + sx([[i, ks] for i, ks, _ in a["graph"]]))
    answers = ctx.driver.ask(reqs) if (use_driver and reqs) else []
    for (cfg, idx, a, calls), ans in zip(meta, answers):
        if not ans.startswith("ok "):
            ctx.infra_errors.append(f"driver anf: {ans}")
            continue
        if ans == "ok none":
            ctx.fail("correspondence", "C03.anf-model-out-of-fuel", witness={"graph": a["graph"], "root": a["root"]})
            continue
        order, topo, tree = parse_sx(ans[3:])
        order = [int(x) for x in order]
        if topo != "true":
            ctx.infra_errors.append(f"model anf order not topological for case {idx}: {order}")
        # gate: the ordering the REAL anf returned satisfies the hypothesis of reinterpret_rec_eq_stack
        kids = {i: ks for i, ks, _ in a["graph"]}
        seen, ok = set(), len(set(a["order"])) == len(a["order"]) and a["order"][-1:] == [a["root"]]
        for nid in a["order"]:
            ok = ok and all(k in seen for k in kids.get(nid, []))
            seen.add(nid)
        ok = ok and seen == set(kids)
        if not ok:
            ctx.fail("correspondence", "C03.anf-not-topological",
                     witness={"graph": a["graph"], "root": a["root"], "impl_order": a["order"], "config": list(cfg)},
                     expected="children before parents, every node once, root last (hypothesis Topo of "
                              "reinterpret_rec_eq_stack)", got=str(a["order"]))
            continue
        ctx.count("anf-real-order-topological")
        if order != a["order"]:
            ctx.count("anf-order-differs-from-model (both topological: harmless)")
        else:
            ctx.count("anf-order-agrees")
        if calls:
            nf = sum(1 for _, _, isf in a["graph"] if isf)
            if calls["stack"] != nf:
                ctx.fail("correspondence", "C03.stack-interpret-calls",
                         witness={"graph": a["graph"], "calls": calls, "funsor_nodes": nf, "config": list(cfg)})
            else:
                ctx.count("stack-calls=distinct-nodes")
            if calls["rec"] > calls["stack"]:
                ctx.count("dag-with-sharing (rec visits more than stack)")


# ---------------------------------------------------------------------------------------------
# correspond
# ---------------------------------------------------------------------------------------------

def spec_requests(ctx, cs):
    """Lean denote of every case (spec from the recipe) + cross-check against reflect syntax."""
    reqs, meta = [], []
    for idx, (c, recipe, fam, env) in enumerate(cs):
        try:
            wire, ins = case_spec(recipe, env)
        except IllFormed as e:
            ctx.count(f"spec-ill-formed:{str(e).split(':')[0][:30]}")
            continue
        if env.get("__pyoracle__"):
            ctx.count("spec-skipped:python-oracle route (ops outside Lean's Term; numpy oracle is a mode)")
            continue
        if env.get("__approx__"):
            ctx.count("spec-skipped:inexact-ops (reference = eager build, rounded)")
            continue
        envw = sx(ser.env_wire({k: np.float64(v) for k, v in env.items() if not k.startswith("__")}))
        reqs.append(f"C03 denote {sx(wire)} {sx(ser.ins_wire(ins))} {envw}")
        meta.append((idx, "spec", ins))
        try:
            if W.has_user(recipe):
                raise ser.Unsupported("user term")
            with reflect:
                syn = gen_terms.build(recipe)
            w2 = ser.to_wire(syn)
            reqs.append(f"C03 denote {sx(w2)} {sx(ser.ins_wire(ins))} {envw}")
            meta.append((idx, "reflect", ins))
            reqs.append(f"C03 refold {sx(wire)} {sx(ser.ins_wire(ins))} {envw}")
            meta.append((idx, "refold", ins))
        except ser.Unsupported:
            pass
        except W.DECLINE:
            ctx.count("reflect-syntax-unavailable (spec from recipe only)")
        if fam == "seq-lazy" and recipe[0] == "reduce":
            _, op, a, rv, absent = recipe
            try:
                wa, fa = recipe_wire(a)
                vars_ = sorted((n, fa[n]) for n in rv)
                reqs.append(f"C03 seqreduce {op} {sx(wa)} {sx(ser.ins_wire(vars_))} {sx(ser.ins_wire(ins))} {envw}")
                meta.append((idx, "seqreduce", ins))
            except (IllFormed, KeyError):
                pass
    answers = ctx.driver.ask(reqs) if reqs else []
    specs, aux = {}, {}
    for (idx, kind, ins), ans in zip(meta, answers):
        tab = ser.parse_table(ans) if ans.startswith("ok (") else None
        if tab is None and ans != "ok defer":
            ctx.infra_errors.append(f"driver {kind} case {idx}: {ans[:200]}")
            continue
        if kind == "spec":
            if tab is None or any(x is None for x in tab):
                specs[idx] = (ins, None)
                ctx.count("spec-undefined")
            else:
                specs[idx] = (ins, tab)
        else:
            aux[(idx, kind)] = tab
    for (idx, kind), tab in aux.items():
        sp = specs.get(idx)
        if sp is None or sp[1] is None or tab is None:
            continue
        same = len(tab) == len(sp[1]) and all(
            a is not None and b is not None and list(a[0]) == list(b[0]) and
            all(futil.same_num(x, y) for x, y in zip(a[1], b[1])) for a, b in zip(tab, sp[1]))
        if same:
            ctx.count(f"lean-echo-agrees:{kind}")
        elif kind == "reflect":
            ctx.infra_errors.append(f"case {idx}: spec from recipe and spec from reflect syntax differ "
                                    f"({gen_terms.describe(cs[idx][1])})")
        else:
            ctx.infra_errors.append(f"case {idx}: Lean model `{kind}` disagrees with Lean denote (theorem echo)")
    return specs


def sizes(ctx):
    if ctx.tier == "quick":
        return 240, 3
    return 4000, 4


def correspond(ctx):
    n, nshards = sizes(ctx)
    base_seed = ctx.rng.getrandbits(48)
    ctx.rule = ("seeded cases: 1/5 random type-directed recipes of fv/gen_terms.py (depth <= 4, 1-4 Bint inputs of size 1-4), "
                "2/10 normal-form grid shapes (unary neg/abs/reciprocal/exp/log of a max/min/add/mul/logaddexp reduction of a binary "
                "add/mul/sub/max/min or a three-term product, bare or wrapped in sub / truediv / add / outer reduce / second "
                "unary / substitution / renaming; the exact (unary, red_op, bin_op) grid is walked first, in order; "
                "expressions with inexact ops are compared after rounding to 8 digits against the eager build), "
                "1/10 simultaneous substitutions with overlapping keys and values into a product/sum of 2-3 tensors over "
                "equal-size inputs (a key replaced by a Number / index tensor / Slice while another input is renamed onto it, "
                "swaps, chains, 3-cycles, diagonals, index tensors mentioning other keys; keyword order shuffled), "
                "1/10 variadic nodes listing ONE hash-consed child twice next to a deeper sibling (Stack/Cat parts (a,a,b) in all "
                "positions, nested, sum/product/max chains that normalize to Contraction terms (a,a,b)), below a root, bare or "
                "substituted at names of both children (numbers, swap) or reduced, "
                "1/10 non-commutative binary ops (sub, truediv, pow, lt/le/gt/ge) whose right / left / both operands are "
                "`.align(names)` (full permutations and partial tuples) of compound sub-terms, bare, reduced, negated or nested, "
                "1/10 products / sums whose operands repeat ONE reduced sub-expression (s*s, s*w*s, (s+t)*s, s+s, nested, "
                "three occurrences; s, t reductions over the same user-level name; semirings (add,mul) (max,add) (min,add) "
                "(max,mul) and logaddexp/add rounded), "
                "1/12 the same operand twice under every associative op (add, mul, max, min, logaddexp rounded, and_/or_/xor on "
                "Bint[2] data): (t.u).t, t.t, t.(u.t), (t.u).(t.u), ((t.u).t).u, t a leaf / a compound built twice / a reduction, "
                "also with a free Variable inside t (the eager build stays lazy), "
                "1/12 directly nested parametrised array ops (flip, transpose, getslice incl. negative steps, unsqueeze, "
                "sum/prod/amax/amin(axis, keepdims), clamp; same class with other parameters, same parameters twice, inverse pairs "
                "neg/neg, reciprocal/reciprocal, exp/log; triples) on asymmetric data with non-cubic event shapes, checked "
                "against a numpy oracle (python-oracle route: Lean's Term lacks these ops), "
                "1/24 ground tensors with -inf cells and rows, +inf and nan under t-t, (t+u)-t, (t-t)+u, -t-(-t), t+(-t), max/min "
                "repeats and a reduction of t-t (nan == nan, inf == inf exactly; reference = eager build), "
                "1/24 reductions (add, mul, logaddexp rounded, max) over Variable objects fully or partly ABSENT from the argument "
                "(tensor over other inputs, 0-d tensor, Number, compound, lazy body with a free real variable), "
                "1/12 user-defined terms made with funsor.factory.make_funsor (15 classes: every declaration order of Bound / "
                "Funsor / Has / Fresh parameters, one and two binders, Fresh output names; bare, followed by .reduce(op) over ALL "
                "inputs, by (t+z).reduce(op), or by substituting an index tensor that depends on a free variable named like the "
                "bound one; spec = Lean denote of the defining expression), "
                "1/5 sum-product shapes (product of 2-4 factors reduced by add/max/min, optionally in two elimination steps), "
                "1/5 reductions of LAZY bodies with a free real variable (exercise sequential_reduce); each case is run in 4 "
                "sub-process configurations FUNSOR_USE_TCO x FUNSOR_TYPECHECK under ~32 modes (eager; lazy/reflect/normalize/"
                "memoize() then reinterpret with the env-selected, the recursive and the stack-free reinterpreter; sequential, "
                "moment_matching; 5 random ordered pairs of nested context managers in both orders; reinterpretation under 2 "
                "nested evaluating interpretations in both orders). One evaluated case = one (expression, configuration). "
                "Non-trivial = expression with >= 3 constructors and >= 1 input for which >= 10 modes completed; distinct by "
                "content and configuration.")
    procs = launch_workers(base_seed, n, nshards, ctx.tier)
    cs = W.cases(base_seed, n)
    specs = spec_requests(ctx, cs)
    recs = collect(procs, ctx, timeout=600 if ctx.tier == "quick" else 2400)
    for cfg in CONFIGS:
        got = len(recs.get(cfg, {}))
        if got != n:
            ctx.infra_errors.append(f"configuration {cfg}: {got} of {n} cases reported")
    check_records(ctx, cs, recs, base_seed, specs)
    done_, att_ = ctx.distribution.get("completed-evaluations", 0), ctx.distribution.get("attempted-evaluations", 0)
    ctx.extra["completion_rate"] = round(done_ / max(att_, 1), 3)
    if att_ and done_ / att_ < 0.65:
        ctx.infra_errors.append(f"only {done_} of {att_} evaluations completed (normally ~83%): the gate 'whenever it "
                                f"completes' would be vacuous — funsor raises almost everywhere on this tree")
    check_memo(ctx, recs)
    check_anf(ctx, recs)
    table_stream(ctx)
    make_funsor_stream(ctx)
    lifetime_stream(ctx)
    ctx.assumptions.append("moment_matching is exercised only where it falls back to eager (no Gaussian mixtures, as the "
                           "property states); transcendental ops are outside the exact fragment of Model/Term.lean")
    ctx.assumptions.append("hash-consing (identity determines the object within one expression) is the hypothesis "
                           "`Consistent` of stack_reinterpret_eq_rec; the harness observes identities through the dict "
                           "keys `anf` itself uses")
    ctx.extra["configurations"] = [f"FUNSOR_USE_TCO={a} FUNSOR_TYPECHECK={b}" for a, b in CONFIGS]


def table_stream(ctx):
    """Collisions recorded by extract: demonstrate each under memoize() and compare with the base."""
    tab = getattr(ctx, "_c03_table", None)
    if tab is None:
        return
    entries, probes = tab
    for A, B, outcome, wit, tried in probes:
        ctx.count(f"class-table:candidate-pair:{outcome}")
        if outcome == "refuted":
            continue
        bad = demonstrate_collision(A, B, wit)
        benign = {A.__name__, B.__name__} == {"Subs", "Align"} and outcome == "witnessEmptyTuple"
        if bad is not None:
            ctx.fail("input", "KF-memoize-key-cls", witness={"classes": [A.__name__, B.__name__], "args": bad["args"]},
                     expected=bad["expected"], got=bad["got"], python=bad["python"])
        elif benign:
            ctx.count("class-table:benign-collision-demonstrated (Subs/Align at ())")
        else:
            ctx.fail("input", "KF-memoize-key-cls",
                     witness={"classes": [A.__name__, B.__name__], "args": [repr(w)[:200] for w in wit[:3]]},
                     expected="distinct Memoize keys for requests of different classes",
                     got="equal keys (cache hit returns the other class's result)", python=None)


# ---------------------------------------------------------------------------------------------
# user-defined classes sharing a signature (funsor.make_funsor): how a real key collision arises
# ---------------------------------------------------------------------------------------------

MAKE_FUNSOR_SNIPPET = """import numpy as np
from collections import OrderedDict
import funsor
from funsor.domains import Bint, Real
from funsor.tensor import Tensor
from funsor.terms import Funsor, Number
from funsor.factory import make_funsor, Fresh
from funsor.interpretations import memoize

@make_funsor
def {a}({sig}) -> Fresh[lambda x: x]:
    return {abody}

@make_funsor
def {b}({sig}) -> Fresh[lambda x: x]:
    return {bbody}

args = {args}
want = {b}(*args)
with memoize():
    first = {a}(*args)
    got = {b}(*args)
print('without memoize:', want)
print('with memoize   :', got)
FAILS = not np.array_equal(np.asarray(want.data), np.asarray(got.data))
"""


def make_funsor_stream(ctx):
    """Pairs of make_funsor classes with the same field signature, requested with the same arguments under
    memoize() in both orders and interleaved with repeats; gate: the value of every request is the value the
    class computes without memoize, repeated identical requests return the identical object."""
    from funsor.factory import make_funsor, Fresh
    rng = ctx.rng

    @make_funsor
    def C03Double(x: Funsor) -> Fresh[lambda x: x]:
        return x + x

    @make_funsor
    def C03Negate(x: Funsor) -> Fresh[lambda x: x]:
        return -x

    @make_funsor
    def C03AddC(x: Funsor, y: Funsor) -> Fresh[lambda x: x]:
        return x + y

    @make_funsor
    def C03MulC(x: Funsor, y: Funsor) -> Fresh[lambda x: x]:
        return x * y

    pairs = [((C03Double, "x + x"), (C03Negate, "-x"), "x: Funsor", 1),
             ((C03AddC, "x + y"), (C03MulC, "x * y"), "x: Funsor, y: Funsor", 2)]
    ins = [("i", 2), ("j", 3)]
    n = 40 if ctx.tier == "quick" else 400
    reproduced = None
    for _ in range(n):
        (A, abody), (B, bbody), sig, ar = rng.choice(pairs)
        if rng.random() < 0.5:
            (A, abody), (B, bbody) = (B, bbody), (A, abody)
        names = [nm for nm, _ in ins if rng.random() < 0.6]
        shape = tuple(dict(ins)[nm] for nm in names)
        data = np.array([rng.choice([-2, -1, 1, 2, 3]) for _ in range(int(np.prod(shape)) if shape else 1)],
                        dtype=np.float64).reshape(shape)
        t = Tensor(data, OrderedDict((nm, Bint[dict(ins)[nm]]) for nm in names))
        args = (t,) * ar
        script = [A, B, A, B] if rng.random() < 0.5 else [A, A, B, B]
        want = {cls: cls(*args) for cls in (A, B)}
        got = []
        with memoize():
            for cls in script:
                got.append(cls(*args))
        ctx.count("make_funsor-histories")
        first = {}
        for i, (cls, r) in enumerate(zip(script, got)):
            j = first.setdefault(cls, i)
            if got[j] is not r:
                ctx.fail("input", "C03.memoize-not-same-object",
                         witness={"classes": [A.__name__, B.__name__], "script": [c.__name__ for c in script]},
                         expected="identical object for a repeated identical request", got="a different object")
            a, b = W.force(want[cls], ins), W.force(r, ins)
            if a[0] == "value" and b[0] == "value" and W.digest(a[1]) != W.digest(b[1]) and reproduced is None:
                argsrc = ("(Tensor(np.array(%r), OrderedDict(%s)),) * %d"
                          % (data.tolist(), ", ".join(f"{nm}=Bint[{dict(ins)[nm]}]" for nm in names), ar))
                reproduced = {
                    "witness": {"classes": [A.__name__, B.__name__], "script": [c.__name__ for c in script],
                                "request": i, "args": argsrc},
                    "expected": f"{cls.__name__}(*args) = {a[1]['vals']}",
                    "got": f"under memoize(): {b[1]['vals']} (the object cached for {script[0].__name__})",
                    "python": MAKE_FUNSOR_SNIPPET.format(a=script[0].__name__, b=cls.__name__, sig=sig,
                                                         abody=abody if script[0] is A else bbody,
                                                         bbody=bbody if cls is B else abody, args=argsrc)}
    # direct construction and reinterpretation of the same term hit the same entry (that is why the key uses
    # get_origin): identical object, right value
    from funsor.interpreter import reinterpret as _re, recursion_reinterpret as _rec, stack_reinterpret as _stk
    for _ in range(n):
        (A, abody), (B, bbody), sig, ar = rng.choice(pairs)
        data = np.array([rng.choice([-2, -1, 1, 2, 3]) for _ in range(2)], dtype=np.float64)
        t = Tensor(data, OrderedDict(i=Bint[2]))
        args = (t,) * ar
        kind = rng.choice(["user", "binary", "reduce"])
        if kind == "user":
            mk = lambda: A(*args)
        elif kind == "binary":
            mk = lambda: ops.add(t, t) if ar == 1 else ops.mul(t, t)
        else:
            mk = lambda: t.reduce(ops.add, "i")
        with lazy:
            e = mk()
        want = mk()
        fn = rng.choice([_re, _rec, _stk])
        with memoize():
            if rng.random() < 0.5:
                a1, a2 = mk(), fn(e)
            else:
                a2, a1 = fn(e), mk()
        ctx.count(f"memo-direct-vs-reinterpret:{kind}")
        va, vb, vw = W.force(a1, ins), W.force(a2, ins), W.force(want, ins)
        if va[0] == vb[0] == vw[0] == "value" and not (W.digest(va[1]) == W.digest(vb[1]) == W.digest(vw[1])):
            ctx.fail("input", "C03.memoize-wrong-result",
                     witness={"kind": kind, "class": A.__name__, "data": data.tolist()},
                     expected=str(vw[1]["vals"]), got=f"direct {va[1]['vals']} / reinterpreted {vb[1]['vals']}")
        elif a1 is not a2 and kind != "reduce":
            # same class, same arguments (no binder is renamed in these two kinds): must be one cache entry
            ctx.fail("input", "C03.memoize-not-same-object",
                     witness={"kind": kind, "class": A.__name__, "data": data.tolist(), "reinterpreter": fn.__name__},
                     expected="direct construction and reinterpretation of the same term return the identical object "
                              "under memoize() (key uses get_origin(cls))", got="two different objects")
        elif a1 is not a2:
            ctx.count("memo-direct-vs-reinterpret:reduce-not-identical (binder renamed by alpha-conversion: other arguments)")
        else:
            ctx.count("memo-direct-vs-reinterpret:identical")
    what = ("Memoize keys its cache by the arguments only (make_hash_key drops cls): two make_funsor classes with the "
            "same signature called with the same arguments under memoize() share an entry; the second request "
            "returns the first class's result")
    if reproduced is not None:
        ctx.count("make_funsor-collision-wrong-value")
        if not ctx.known("KF-memoize-key-cls", True, what):
            ctx.fail("input", "KF-memoize-key-cls", **reproduced)
    elif ctx.is_open("KF-memoize-key-cls"):
        ctx.known("KF-memoize-key-cls", False)


# ---------------------------------------------------------------------------------------------
# a cache that outlives its inputs: one dict shared by successive memoize(cache) blocks
# ---------------------------------------------------------------------------------------------

LIFETIME_SNIPPET = """import gc
import numpy as np
from collections import OrderedDict
import funsor, funsor.ops as ops
from funsor.domains import Bint
from funsor.tensor import Tensor
from funsor.interpretations import memoize

cache, bad = {{}}, 0
rs = np.random.RandomState({seed})
for rnd in range({rounds}):
    a = Tensor(rs.randint(-3, 4, size=(2, 3)).astype(float), OrderedDict(i=Bint[2], j=Bint[3]))
    b = Tensor(rs.randint(-3, 4, size=(2, 3)).astype(float), OrderedDict(i=Bint[2], j=Bint[3]))
    with memoize(cache):
        got = {expr}
    want = {numpy}
    bad += not np.array_equal(np.asarray(got.data), want)
    del a, b, got
    gc.collect()
print('rounds with a result computed for other arguments:', bad)
FAILS = bad > 0
"""

LIFE_EXPRS = [("ops.add(a, b)", "a.data + b.data"), ("ops.mul(a, b)", "a.data * b.data"),
              ("a.reduce(ops.add, 'i')", "a.data.sum(0)"), ("ops.neg(a)", "-a.data"),
              ("ops.add(a, b).reduce(ops.max, 'j')", "(a.data + b.data).max(1)"),
              ("ops.sub(a, b)", "a.data - b.data")]


def lifetime_stream(ctx):
    """Multi-round histories: fresh leaf tensors (same shapes, different data) are created OUTSIDE the block,
    a small expression is built under memoize(cache) with the shared dict, compared with numpy, and every
    reference is dropped + gc.collect() — except in `keep` rounds, which keep the inputs and rebuild the same
    expression next round (must be a cache hit returning the identical object).  Also checks the model's
    well-formedness clause on the real heap: no fresh funsor is ever allocated at the address of an argument
    that a live cache key refers to."""
    import gc
    rng = ctx.rng
    n_hist = 3 if ctx.tier == "quick" else 12
    for _h in range(n_hist):
        rounds = rng.randrange(30, 81)
        seed = rng.randrange(10 ** 6)
        rs = np.random.RandomState(seed)
        expr_src, np_src = rng.choice(LIFE_EXPRS)
        cache = {}
        key_ids = {}            # id of an argument funsor used in a request of this cache -> round
        events = []
        kept = None
        wrong = None
        recycled = 0
        for rnd in range(rounds):
            if kept is not None:
                a, b, prev = kept
                kept = None
                with memoize(cache):
                    got = eval(expr_src, {"ops": ops, "a": a, "b": b})
                ctx.count("lifetime-rounds:kept-inputs")
                if got is not prev:
                    ctx.fail("input", "C03.memoize-not-same-object",
                             witness={"stream": "lifetime", "expr": expr_src, "round": rnd, "seed": seed},
                             expected="rebuilding the same expression from inputs that are still alive is a cache hit "
                                      "(identical object)", got="a different object")
                events.append(["request", id(a), key_ids.get(id(a), rnd)])
            else:
                a = Tensor(rs.randint(-3, 4, size=(2, 3)).astype(float), OrderedDict(i=Bint[2], j=Bint[3]))
                b = Tensor(rs.randint(-3, 4, size=(2, 3)).astype(float), OrderedDict(i=Bint[2], j=Bint[3]))
                for x in (a, b):
                    if id(x) in key_ids and key_ids[id(x)] is not None:
                        recycled += 1      # an address inside a live cache key was handed out again
                    events.append(["alloc", id(x), rnd])
                with memoize(cache):
                    got = eval(expr_src, {"ops": ops, "a": a, "b": b})
                ctx.count("lifetime-rounds:fresh-inputs")
                events.append(["request", id(a), rnd])
            key_ids.setdefault(id(a), rnd)
            if "b" in expr_src.replace("ops.sub", "").replace("ops.neg", ""):
                key_ids.setdefault(id(b), rnd)
            want = eval(np_src, {"a": a, "b": b, "np": np})
            if not np.array_equal(np.asarray(got.data), want) and wrong is None:
                wrong = {"round": rnd, "expected": want.tolist(), "got": np.asarray(got.data).tolist()}
            if rng.random() < 0.2:
                kept = (a, b, got)
            else:
                events.append(["drop", id(a)])
                events.append(["drop", id(b)])
            del a, b, got, want
            gc.collect()
        ctx.count("lifetime-histories")
        ctx.count("lifetime-cache-entries", len(cache))
        # the Lean state machine with object-holding keys must find this history possible
        ans = ctx.driver.ask1("C03 memolife keep " + sx(events)) if ctx.driver.available() else None
        if wrong is not None:
            ctx.fail("input", "C03.memoize-stale-hit",
                     witness={"stream": "lifetime", "expr": expr_src, "rounds": rounds, "seed": seed, **wrong,
                              "recycled_key_addresses": recycled},
                     expected=f"round {wrong['round']}: {wrong['expected']}",
                     got=f"{wrong['got']} (a result computed for different arguments)",
                     python=LIFETIME_SNIPPET.format(seed=seed, rounds=rounds, expr=expr_src, numpy=np_src))
        elif recycled or ans == "ok impossible":
            ctx.fail("correspondence", "C03.memo-key-does-not-keep-arguments-alive",
                     witness={"stream": "lifetime", "expr": expr_src, "rounds": rounds, "seed": seed,
                              "recycled_key_addresses": recycled, "model": ans},
                     expected="no funsor is allocated at the address of an argument of a live cache key "
                              "(memo_keys_keep_args_alive's well-formedness)", got=f"{recycled} recycled addresses")
        else:
            ctx.count("lifetime-model-history-possible")
        del cache
        gc.collect()


def demonstrate_collision(A, B, wit):
    """Under memoize(): A(*args) then B(*args) (and the reverse); wrong iff the second result differs in
    value or inputs from B(*args) evaluated without memoize.  -> None | description"""
    ins = [("i", 2), ("v", 2)]
    for args in wit[:20]:
        for X, Y in ((A, B), (B, A)):
            try:
                with lazy:
                    want = Y(*args)
                with lazy:
                    with memoize():
                        X(*args)
                        got = Y(*args)
            except Exception:
                continue
            a, b = W.force(want, ins), W.force(got, ins)
            if a[0] != "value" or b[0] != "value":
                continue             # a side stays lazy (e.g. Align(Number, ())): inconclusive
            if W.digest(a[1]) != W.digest(b[1]):
                py = ("import numpy as np\nfrom numpy import array\nfrom collections import OrderedDict\nimport funsor\n"
                      "import funsor.ops as ops\nfrom funsor.domains import Bint, Real, Reals\nfrom funsor.tensor import Tensor\n"
                      "from funsor.terms import Number, Variable\nfrom funsor.interpretations import lazy, memoize\n"
                      f"from {X.__module__} import {X.__name__}\nfrom {Y.__module__} import {Y.__name__}\n"
                      f"args = {args!r}\n"
                      f"with lazy:\n    want = {Y.__name__}(*args)\n"
                      f"with lazy:\n    with memoize():\n        first = {X.__name__}(*args)\n        got = {Y.__name__}(*args)\n"
                      "print('without memoize:', want)\nprint('with memoize   :', got)\n"
                      f"FAILS = (got is first) and not isinstance(got, {Y.__name__})\n")
                return {"args": repr(args)[:300], "expected": f"{Y.__name__}{args!r} = {a}"[:500],
                        "got": f"cached {X.__name__} result {b}"[:500],
                        "python": py}
    return None


# ---------------------------------------------------------------------------------------------
# search
# ---------------------------------------------------------------------------------------------

def search(ctx, broken):
    """A proof, the build or a correspondence broke: hunt for a concrete wrong value at ~10x volume against the
    python-side oracle (the eager build in the same process), and demonstrate key collisions of the class table."""
    before = len([f for f in ctx.failures if f.witness is not None])
    # (1) class table / memo key: every non-refuted pair, demonstrated on the real Memoize
    try:
        entries, probes, _ = class_table()
        ctx._c03_table = (entries, probes)
        table_stream(ctx)
        make_funsor_stream(ctx)
        lifetime_stream(ctx)
    except Exception as e:
        ctx.extra["search_table_error"] = repr(e)[:300]
    if len([f for f in ctx.failures if f.witness is not None]) > before:
        return
    # (2) 10x volume of the worker stream, python oracle only
    n, nshards = sizes(ctx)
    n = min(n * 10, 2600)
    base_seed = ctx.rng.getrandbits(48)
    procs = launch_workers(base_seed, n, 4, ctx.tier)
    cs = W.cases(base_seed, n)
    recs = collect(procs, ctx, timeout=900)
    check_records(ctx, cs, recs, base_seed, {}, use_model=False)
    check_memo(ctx, recs, use_driver=False)
