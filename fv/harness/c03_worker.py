"""
fv/harness/c03_worker.py — sub-process worker of the C03 harness.

FUNSOR_USE_TCO and FUNSOR_TYPECHECK are read by funsor/interpreter.py at import time, so each
configuration needs its own python process.  The parent (fv/harness/c03.py) starts

    /venv/bin/python -B -m fv.harness.c03_worker BASE_SEED N SHARD NSHARDS TIER

with the two variables set in the environment.  The worker regenerates the seeded case list
(`cases(base_seed, n)` below — the parent generates the very same list), evaluates every case of
its shard under every mode and prints one JSON line per case:

    {"i": case index, "tables": {digest: canonical table}, "modes": {mode: digest | [status, reason]},
     "memo": [...], "anf": {...}}

A canonical table is {"out": output-domain string, "shape": event shape, "vals": [[str…] per point of
the expression's sorted inputs]}; values are exact (Fractions printed as p/q, or inf/-inf/nan).
"""
import collections
import hashlib
import itertools
import json
import os
import random
import sys
from collections import OrderedDict

import numpy as np

from ..common import Q
from .. import futil, ser, gen_terms
from ..futil import funsor, Tensor, Number, Variable, Bint, Real, ops
from funsor import interpreter
from funsor.interpreter import reinterpret, recursion_reinterpret, stack_reinterpret
from funsor.interpretations import (lazy, reflect, normalize, eager, sequential, moment_matching,
                                    memoize, Memoize, Interpretation)
from funsor.terms import Funsor, Subs, Align, Binary, Unary, Reduce, Stack, Lambda, Cat, Slice
from funsor.cnf import Contraction
from funsor.sum_product import sum_product, naive_sequential_sum_product

DECLINE = (NotImplementedError, AssertionError, ValueError, TypeError, KeyError, IndexError,
           AttributeError, RecursionError)

# ---------------------------------------------------------------------------------------------
# Case generation (shared with the parent: pure function of (base_seed, n, tier))
# ---------------------------------------------------------------------------------------------

NAMES = ["i", "j", "k", "l"]


def gen_ctx(rng):
    n = rng.choice([1, 2, 2, 3, 3, 4])
    ctx = OrderedDict()
    for nm in NAMES[:n]:
        ctx[nm] = rng.choice([1, 2, 2, 3, 3, 4])
    return ctx


def at_least2(ctx, name):
    """A reduced / bound variable of size 1 makes every reduction the identity: keep those shapes non-degenerate."""
    if ctx[name] < 2:
        ctx[name] = 2
    return name


def gen_sum_product(rng):
    """A sum-product style expression: ⨁_{elim} ⨂ factors, written with binary ops and one reduce
    (recipe of gen_terms, so that `build` goes through the public API under the active interpretation)."""
    ctx = gen_ctx(rng)
    sr = rng.choice([("add", "mul"), ("add", "mul"), ("max", "add"), ("min", "add"), ("max", "mul")])
    nf = rng.choice([2, 2, 3, 3, 4])
    factors = []
    for _ in range(nf):
        names = [n for n in ctx if rng.random() < 0.6] or [rng.choice(list(ctx))]
        rng.shuffle(names)
        shape = tuple(ctx[n] for n in names)
        cnt = int(np.prod(shape))
        vals = [rng.choice([0, 1, 1, 2, 3]) for _ in range(cnt)]
        data = np.array(vals, dtype=np.float64).reshape(shape)
        factors.append(("tensor", tuple((n, ctx[n]) for n in names), "real", (), data))
    prod = factors[0]
    for f in factors[1:]:
        prod = ("binary", sr[1], prod, f)
    used = sorted(set(n for f in factors for n, _ in f[1]))
    elim = [n for n in used if rng.random() < 0.6] or [rng.choice(used)]
    nested = rng.random() < 0.4 and len(elim) >= 2
    if nested:
        # eliminate in two steps with a factor multiplied in between (variable elimination shape)
        a, b = elim[:1], elim[1:]
        inner = ("reduce", sr[0], prod, tuple(a), ())
        names = [n for n in used if n not in a and rng.random() < 0.7]
        shape = tuple(ctx[n] for n in names)
        cnt = int(np.prod(shape)) if shape else 1
        data = np.array([rng.choice([0, 1, 2]) for _ in range(cnt)], dtype=np.float64).reshape(shape)
        extra = ("tensor", tuple((n, ctx[n]) for n in names), "real", (), data)
        recipe = ("reduce", sr[0], ("binary", sr[1], inner, extra), tuple(b), ())
    else:
        recipe = ("reduce", sr[0], prod, tuple(elim), ())
    return ctx, recipe


# Profiles of LAZY bodies (they mention a free real variable x).  funsor rewrites lazy products with the
# pairs of ops.DISTRIBUTIVE_OPS; (max, mul) and (min, mul) are semirings on the NON-NEGATIVE reals only (the
# carrier the property assumes for them), so mul is mixed with max/min only over non-negative data.
#   ring      add/mul/sub, any sign; reductions add, mul      ((mul, add) does not distribute: stays lazy)
#   tropical  add/sub/max/min, any sign; reductions add, max, min   ((add, max) does not distribute: stays lazy)
#   nonneg    add/mul/max/min over data >= 0 and x >= 0; reductions add, mul, max, min
LAZY_PROFILES = {
    "ring": (["add", "mul", "sub"], ["add", "add", "mul"], "mul", True),
    "tropical": (["add", "sub", "max", "min"], ["add", "max", "min"], "add", True),
    "nonneg": (["add", "mul", "max", "min"], ["add", "mul", "max", "min"], "mul", False),
}


def gen_seq_lazy(rng):
    """A reduction whose body stays LAZY (it mentions a free real variable x), so that `sequential`
    really runs Funsor.sequential_reduce (terms.py:537-560) instead of the Tensor reduction, and eager has
    to go through the Contraction rules of funsor/cnf.py with a lazy operand."""
    ctx = gen_ctx(rng)
    profile = rng.choice(["ring", "tropical", "nonneg"])
    allowed, red_ops, scale, signed = LAZY_PROFILES[profile]
    op = rng.choice(red_ops)

    def tensor(c, names=None):
        t = gen_terms.gen_tensor(rng, c, "real", names=names)
        if not signed:
            t = t[:4] + (np.abs(t[4]),)
        return t

    def leaf():
        if rng.random() < 0.3:
            return ("var", "x", Real)
        return tensor(ctx)

    def body(d):
        if d <= 0 or rng.random() < 0.25:
            return leaf()
        c = rng.random()
        if c < 0.7:
            return ("binary", rng.choice(allowed), body(d - 1), body(d - 1))
        if c < 0.85 and signed and profile == "tropical":
            return ("unary", rng.choice(["neg", "abs"]), body(d - 1))
        name = rng.choice(list(ctx))
        sub = {k: v for k, v in ctx.items() if k != name}
        parts = []
        for _ in range(ctx[name]):
            parts.append(("binary", scale, ("var", "x", Real), tensor(sub)))
        return ("stack", name, tuple(parts))
    b = ("binary", rng.choice(allowed if signed or True else allowed), ("var", "x", Real), body(rng.choice([1, 2, 2, 3])))
    if b[1] == "sub" and not signed:
        b = ("binary", "add") + b[2:]
    try:
        _, free = recipe_wire(b)
    except IllFormed:
        free = {}
    names = sorted(k for k, v in free.items() if v != "real")
    if not names:
        t = tensor(ctx, names=[rng.choice(list(ctx))])
        b = ("binary", scale, b, t)
        names = [t[1][0][0]]
    rv = [n for n in names if rng.random() < 0.6] or [rng.choice(names)]
    while len(rv) > 1 and int(np.prod([free[n] for n in rv if n in free] or [1])) > 8:
        rv = rv[:-1]            # sequential_reduce enumerates the product of the reduced sizes: keep it small
    xs = [-1.0, 0.0, 0.5, 2.0, 3.0] if signed else [0.0, 0.5, 2.0, 3.0]
    return ctx, ("reduce", op, b, tuple(sorted(rv)), ()), {"x": rng.choice(xs)}


def carrier_risky(recipe):
    """mul together with max/min somewhere in the expression: funsor treats (max, mul) and (min, mul) as
    semirings (ops.DISTRIBUTIVE_OPS), which they are on the non-negative reals only."""
    has = set()

    def go(r):
        if isinstance(r, tuple):
            if r and r[0] in ("binary", "reduce") and isinstance(r[1], str):
                has.add(r[1])
            for x in r:
                go(x)
    go(recipe)
    # truediv / pow / reciprocal normalize to products (x / y -> x * reciprocal(y))
    return bool(has & {"mul", "truediv", "pow", "reciprocal"}) and bool(has & {"max", "min"})


def demax(recipe):
    """Replace a top-level max/min reduction by an add reduction (keeps the shape, leaves the carrier-sensitive region)."""
    if recipe[0] == "reduce" and recipe[1] in ("max", "min"):
        return ("reduce", "add") + recipe[2:]
    return recipe


def to_nonneg(r):
    """Map a recipe into the non-negative carrier: |data|, sub -> add, neg -> abs."""
    if not isinstance(r, tuple) or not r:
        return r
    tag = r[0]
    if tag == "tensor":
        return r[:4] + (np.abs(r[4]),) if r[2] == "real" else r
    if tag == "num":
        return ("num", abs(r[1]), r[2]) if r[2] == "real" else r
    if tag == "binary" and r[1] == "sub":
        return ("binary", "add", to_nonneg(r[2]), to_nonneg(r[3]))
    if tag == "unary" and r[1] == "neg":
        return ("unary", "abs", to_nonneg(r[2]))
    return tuple(to_nonneg(x) if isinstance(x, tuple) else x for x in r)


# ops the shared generator's table lacks (fv/gen_terms.py is read-only; this extends the dict in this process)
for _n, _o in (("exp", ops.exp), ("log", ops.log), ("reciprocal", ops.reciprocal)):
    gen_terms.OPS.setdefault(_n, _o)

CNF_RED = ["max", "min", "add", "mul"]
CNF_BIN = ["add", "mul", "sub", "max", "min"]
# exact part, walked first: every (unary, red_op, bin_op) once in 40 consecutive cases
CNF_CORE = [("none", u, r, b) for u in ("neg", "abs") for r in CNF_RED for b in CNF_BIN]
# inexact part (float rounding: compared after rounding to 8 significant digits, reference = eager build)
CNF_APPROX = ([("none", u, r, b) for u in ("reciprocal", "exp", "log") for r in ("max", "min", "add") for b in ("add", "mul")]
              + [("none", u, "logaddexp", b) for u in ("neg", "abs") for b in ("add", "max")]
              + [("none", "reciprocal", r, "mul") for r in ("mul", "max", "min")])
CNF_WRAPPED = [(w_, u, r, b) for w_ in ("sub-from", "add-to", "outer-reduce", "double", "subs", "rename", "three-terms",
                                         "div-by")
               for u in ("neg", "abs", "reciprocal") for r in CNF_RED for b in ("add", "mul", "max")]
INEXACT = {"exp", "log", "reciprocal", "logaddexp", "truediv"}
DOUBLE_OF = {"neg": "neg", "abs": "neg", "reciprocal": "reciprocal", "exp": "log", "log": "exp"}


def recipe_ops(recipe):
    out = set()

    def go(r):
        if isinstance(r, tuple):
            if r and r[0] in ("binary", "unary", "reduce") and isinstance(r[1], str):
                out.add(r[1])
            for x in r:
                go(x)
    go(recipe)
    return out


def gen_cnf_grid(rng, k, rot):
    """Normal-form shapes: a unary op applied to a reduction of a binary op (or of a three-term product),
    bare or wrapped in sub / add / an outer reduction / a second unary / a substitution / a division — the
    shapes on which the normalize rules of funsor/cnf.py fire (unary_contract, unary_log_exp, binary_subtract,
    binary_divide, fusion, distribution, distribute_subs_contraction)."""
    if k < len(CNF_CORE):
        wrap, u, r, b = CNF_CORE[k]
    elif k < len(CNF_CORE) + len(CNF_APPROX):
        wrap, u, r, b = CNF_APPROX[k - len(CNF_CORE)]
    else:
        wrap, u, r, b = CNF_WRAPPED[(k + rot) % len(CNF_WRAPPED)]
    ctx = gen_ctx(rng)
    names = list(ctx)
    i = at_least2(ctx, rng.choice(names))
    na = sorted(set([i] + [n for n in names if rng.random() < 0.5]))
    nb = sorted(set([i] + [n for n in names if rng.random() < 0.5]))
    inexact = bool({u, r, b} & INEXACT) or wrap == "div-by"

    def tensor(ns):
        tt = gen_terms.gen_tensor(rng, ctx, "real", names=ns)
        if inexact:        # positive data: log / reciprocal defined, powers of two keep products exact
            vals = np.array([rng.choice([1.0, 2.0, 4.0, 0.5]) for _ in range(tt[4].size)]).reshape(tt[4].shape)
            tt = tt[:4] + (vals,)
        return tt
    A, B = tensor(na), tensor(nb)
    body = ("binary", b, A, B)
    if wrap == "three-terms":
        body = ("binary", b, body, tensor(sorted(set([i] + [n for n in names if rng.random() < 0.5]))))
    red = ("reduce", r, body, (i,), ())
    core = ("unary", u, red)
    X = tensor([n for n in names if rng.random() < 0.5])
    rest = sorted((set(na) | set(nb)) - {i})
    if wrap == "sub-from":
        recipe = ("binary", "sub", X, red)              # X - red(...)  (normalize: X + (-(red …)))
    elif wrap == "div-by":
        recipe = ("binary", "truediv", X, red)          # X / red(...)  (normalize: X * reciprocal(red …))
    elif wrap == "add-to":
        recipe = ("binary", "add", core, X)
    elif wrap == "outer-reduce" and rest:
        recipe = ("reduce", rng.choice(CNF_RED), core, (rest[0],), ())
    elif wrap == "double":
        recipe = ("unary", DOUBLE_OF[u], core)
    elif wrap == "subs" and rest:
        recipe = ("subs", core, ((rest[0], ("num", rng.randrange(ctx[rest[0]]), ctx[rest[0]])),))
    elif wrap == "rename" and rest:
        cands = [n for n in names if n != rest[0] and ctx[n] == ctx[rest[0]]]
        recipe = ("subs", core, ((rest[0], ("var", rng.choice(cands), ctx[rest[0]])),)) if cands else core
    else:
        recipe = core
    return ctx, recipe


# ---------------------------------------------------------------------------------------------
# user-defined terms (funsor.factory.make_funsor): every declaration order of Bound / Funsor / Has / Fresh
# ---------------------------------------------------------------------------------------------

USER_SRC = '''
from funsor.factory import make_funsor, Bound, Fresh, Has
from funsor.terms import Funsor
import funsor.ops as ops

@make_funsor
def WS_xiw(x: Funsor, i: Bound, w: Funsor) -> Fresh[lambda x: x]:
    return (x * w).reduce(ops.add, i)

@make_funsor
def WS_ixw(i: Bound, x: Funsor, w: Funsor) -> Fresh[lambda x: x]:
    return (x * w).reduce(ops.add, i)

@make_funsor
def WS_xwi(x: Funsor, w: Funsor, i: Bound) -> Fresh[lambda x: x]:
    return (x * w).reduce(ops.add, i)

@make_funsor
def MA_xiw(x: Funsor, i: Bound, w: Funsor) -> Fresh[lambda x: x]:
    return (x + w).reduce(ops.max, i)

@make_funsor
def MA_iwx(i: Bound, w: Funsor, x: Funsor) -> Fresh[lambda x: x]:
    return (x + w).reduce(ops.max, i)

@make_funsor
def HS_xiw(x: Has[{"i"}], i: Bound, w: Funsor) -> Fresh[lambda x: x]:
    return (x * w).reduce(ops.add, i)

@make_funsor
def HS_ixw(i: Bound, x: Has[{"i"}], w: Funsor) -> Fresh[lambda x: x]:
    return (x * w).reduce(ops.add, i)

@make_funsor
def HS_wix(w: Funsor, i: Bound, x: Has[{"i"}]) -> Fresh[lambda x: x]:
    return (x * w).reduce(ops.add, i)

@make_funsor
def D2_xijw(x: Funsor, i: Bound, j: Bound, w: Funsor) -> Fresh[lambda x: x]:
    return (x * w).reduce(ops.add, frozenset([i, j]))

@make_funsor
def D2_ixjw(i: Bound, x: Funsor, j: Bound, w: Funsor) -> Fresh[lambda x: x]:
    return (x * w).reduce(ops.add, frozenset([i, j]))

@make_funsor
def D2_xwij(x: Funsor, w: Funsor, i: Bound, j: Bound) -> Fresh[lambda x: x]:
    return (x * w).reduce(ops.add, frozenset([i, j]))

@make_funsor
def RN_xik(x: Funsor, i: Bound, k: Fresh[lambda i: i]) -> Fresh[lambda x: x]:
    return x(**{i.name: k})

@make_funsor
def RN_ikx(i: Bound, k: Fresh[lambda i: i], x: Funsor) -> Fresh[lambda x: x]:
    return x(**{i.name: k})

@make_funsor
def RS_xikw(x: Funsor, i: Bound, k: Fresh[lambda i: i], w: Funsor) -> Fresh[lambda x: x]:
    return x(**{i.name: k}) * w

@make_funsor
def RS_ikwx(i: Bound, k: Fresh[lambda i: i], w: Funsor, x: Funsor) -> Fresh[lambda x: x]:
    return x(**{i.name: k}) * w
'''
USER_NS = {}
exec(USER_SRC, USER_NS)
# class -> (parameter order, kind)
USER_CLASSES = {
    "WS_xiw": ("x i w", "sum-mul"), "WS_ixw": ("i x w", "sum-mul"), "WS_xwi": ("x w i", "sum-mul"),
    "MA_xiw": ("x i w", "max-add"), "MA_iwx": ("i w x", "max-add"),
    "HS_xiw": ("x i w", "sum-mul"), "HS_ixw": ("i x w", "sum-mul"), "HS_wix": ("w i x", "sum-mul"),
    "D2_xijw": ("x i j w", "sum2-mul"), "D2_ixjw": ("i x j w", "sum2-mul"), "D2_xwij": ("x w i j", "sum2-mul"),
    "RN_xik": ("x i k", "rename"), "RN_ikx": ("i k x", "rename"),
    "RS_xikw": ("x i k w", "rename-mul"), "RS_ikwx": ("i k w x", "rename-mul"),
}
USER_WRAPS = ["reduceall", "plusz-reduceall", "none", "subs-same-name"]
USER_GRID = [(wr, c) for wr in USER_WRAPS for c in USER_CLASSES]


def user_spec(r):
    """The defining expression of a user term, as an ordinary recipe (its textbook meaning)."""
    _, cname, parts = r
    p = dict(parts)
    kind = USER_CLASSES[cname][1]
    if kind == "sum-mul":
        return ("reduce", "add", ("binary", "mul", p["x"], p["w"]), (p["i"],), ())
    if kind == "max-add":
        return ("reduce", "max", ("binary", "add", p["x"], p["w"]), (p["i"],), ())
    if kind == "sum2-mul":
        return ("reduce", "add", ("binary", "mul", p["x"], p["w"]), tuple(sorted((p["i"], p["j"]))), ())
    size = dict(p["x"][1])[p["i"]]
    ren = ("subs", p["x"], ((p["i"], ("var", p["k"], size)),))
    if kind == "rename":
        return ren
    return ("binary", "mul", ren, p["w"])


def build_any(r):
    """gen_terms.build extended with user terms and `.reduce(op)` over all inputs."""
    tag = r[0]
    if tag == "user":
        _, cname, parts = r
        p = dict(parts)
        args = [build_any(p[n]) if n in ("x", "w") else p[n] for n in USER_CLASSES[cname][0].split()]
        return USER_NS[cname](*args)
    if tag == "reduceall":
        return build_any(r[2]).reduce(gen_terms.OPS[r[1]])
    if tag == "align":
        return build_any(r[1]).align(tuple(r[2]))
    if tag == "punary":
        return getattr(ops, r[1])(build_any(r[3]), *r[2])
    if tag == "pslice":
        return build_any(r[2])[tuple(slice(*s_) if isinstance(s_, tuple) else s_ for s_ in r[1])]
    if tag == "binary":
        return gen_terms.OPS[r[1]](build_any(r[2]), build_any(r[3]))
    if tag == "unary":
        return gen_terms.OPS[r[1]](build_any(r[2]))
    if tag == "reduce":
        _, op, a, rv, absent = r
        vs = frozenset(rv) | frozenset(Variable(n, Bint[s]) for n, s in absent)
        return build_any(a).reduce(gen_terms.OPS[op], vs)
    if tag == "subs":
        a = build_any(r[1])
        return a(**{k: build_any(v) for k, v in r[2]})
    return gen_terms.build(r)


def has_user(r):
    if isinstance(r, tuple):
        return (bool(r) and r[0] in ("user", "reduceall")) or any(has_user(x) for x in r)
    return False


def gen_user_term(rng, k, rot):
    wrap, cname = USER_GRID[k] if k < len(USER_CLASSES) else USER_GRID[(k + rot) % len(USER_GRID)]
    order, kind = USER_CLASSES[cname]
    ctx = gen_ctx(rng)
    while len(ctx) < 3:
        ctx[NAMES[len(ctx)]] = rng.choice([2, 3])
    names = list(ctx)
    rng.shuffle(names)
    i, j = at_least2(ctx, names[0]), at_least2(ctx, names[1])
    others = names[2:]
    bound = [i, j] if kind == "sum2-mul" else [i]
    xn = sorted(set(bound + [n for n in others if rng.random() < 0.6]))
    x = gen_terms.gen_tensor(rng, ctx, "real", names=xn)
    parts = {"x": x, "i": i}
    if "j" in order.split():
        parts["j"] = j
    if "w" in order.split():
        # (a body must eliminate its Bound variables: the renaming classes bind i only in x)
        wb = [] if kind.startswith("rename") else [n for n in bound if rng.random() < 0.7]
        wn = sorted(set(wb + [n for n in others if rng.random() < 0.6]
                        + ([others[-1]] if others else [])))
        parts["w"] = gen_terms.gen_tensor(rng, ctx, "real", names=wn)
    if "k" in order.split():
        parts["k"] = "q"                               # fresh output name
    core = ("user", cname, tuple(sorted(parts.items(), key=lambda kv: kv[0])))
    if wrap == "reduceall":
        recipe = ("reduceall", rng.choice(["add", "add", "max", "min"]), core)
    elif wrap == "plusz-reduceall":
        _, free = recipe_wire(core)
        zn = [n for n in sorted(free) if free[n] != "real" and rng.random() < 0.6]
        z = gen_terms.gen_tensor(rng, dict(ctx, q=ctx[i]), "real", names=zn)
        recipe = ("reduceall", rng.choice(["add", "max"]), ("binary", "add", core, z))
    elif wrap == "subs-same-name":
        _, free = recipe_wire(core)
        cands = [n for n in sorted(free) if n != "q"]
        if cands:
            c = rng.choice(cands)
            # an index tensor that depends on a FREE variable named like the bound one
            data = np.array([rng.randrange(free[c]) for _ in range(ctx[i])], dtype=np.int64)
            val = ("tensor", ((i, ctx[i]),), free[c], (), data)
            recipe = ("subs", core, ((c, val),))
        else:
            recipe = core
    else:
        recipe = core
    return ctx, recipe


# ---------------------------------------------------------------------------------------------
# simultaneous substitution maps with overlapping keys and values, into combinations of >= 2 tensors
# ---------------------------------------------------------------------------------------------

SUBS_PATTERNS = ["num+rename-onto-key", "index+rename-onto-key", "swap", "chain", "diagonal",
                 "slice+rename-onto-key", "rename-onto-survivor", "index-on-other-key+num", "index-same-name+rename",
                 "num+rename-onto-key+third", "chain3", "index+swap"]
SUBS_GRID = [(p, b) for b in ("mul", "add", "sub") for p in SUBS_PATTERNS]


def gen_subs_grid(rng, k, rot):
    """z = X op Y (op Z) over inputs i, j, k of EQUAL size, then ONE substitution call whose keys and values
    overlap: the immediate route substitutes into the combined ground Tensor (Tensor.eager_subs' rename /
    diagonal bookkeeping), the deferred routes distribute the substitution over the factors."""
    pat, bop = SUBS_GRID[k] if k < len(SUBS_PATTERNS) else SUBS_GRID[(k + rot) % len(SUBS_GRID)]
    s = rng.choice([2, 3, 3])
    ctx = OrderedDict((n, s) for n in ("i", "j", "k", "l"))
    X = gen_terms.gen_tensor(rng, ctx, "real", names=["i"] + [n for n in ("k", "l") if rng.random() < 0.4])
    Y = gen_terms.gen_tensor(rng, ctx, "real", names=["j"] + [n for n in ("k", "l") if rng.random() < 0.4])
    z = ("binary", bop, X, Y)
    if rng.random() < 0.35 or pat in ("chain3", "num+rename-onto-key+third"):
        Zt = gen_terms.gen_tensor(rng, ctx, "real", names=["k"] + [n for n in ("i", "j") if rng.random() < 0.4])
        z = ("binary", rng.choice(["mul", "add"]), z, Zt)
    if rng.random() < 0.25:
        z = ("unary", "neg", z)

    def num():
        return ("num", rng.randrange(s), s)

    def index(over):
        shape = tuple(s for _ in over)
        data = np.array([rng.randrange(s) for _ in range(int(np.prod(shape)) if shape else 1)],
                        dtype=np.int64).reshape(shape)
        return ("tensor", tuple((n, s) for n in over), s, (), data)

    def var(n):
        return ("var", n, s)
    if pat == "num+rename-onto-key":
        sub = (("i", num()), ("j", var("i")))
    elif pat == "index+rename-onto-key":
        sub = (("i", index([rng.choice(["k", "l"])])), ("j", var("i")))
    elif pat == "swap":
        sub = (("i", var("j")), ("j", var("i")))
    elif pat == "chain":
        sub = (("i", var("j")), ("j", var("k")))
    elif pat == "diagonal":
        sub = (("i", var("l")), ("j", var("l")))
    elif pat == "slice+rename-onto-key":
        sub = (("i", ("slice", "m", 0, s, 1, s)), ("j", var("i")))
    elif pat == "rename-onto-survivor":
        sub = (("j", var("i")),)
    elif pat == "index-on-other-key+num":
        sub = (("i", index(["j"])), ("j", num()))
    elif pat == "index-same-name+rename":
        sub = (("i", index(["i"])), ("j", var("i")))
    elif pat == "num+rename-onto-key+third":
        sub = (("i", num()), ("j", var("i")), ("k", var("j")))
    elif pat == "chain3":
        sub = (("i", var("j")), ("j", var("k")), ("k", var("i")))
    else:  # index+swap
        sub = (("i", index(["j"])), ("j", var("i")))
    sub = list(sub)
    rng.shuffle(sub)                      # keyword order of the call
    recipe = ("subs", z, tuple(sub))
    if rng.random() < 0.3:
        _, free = recipe_wire(recipe)
        names = sorted(n for n, v in free.items() if v != "real")
        if names:
            recipe = ("reduce", rng.choice(["add", "max"]), recipe, (rng.choice(names),), ())
    return ctx, recipe


# ---------------------------------------------------------------------------------------------
# variadic nodes that list the SAME child twice next to a deeper sibling
# ---------------------------------------------------------------------------------------------

DUP_SHAPES = ["stack-aab", "stack-baa", "stack-aba", "cat-aab", "sum-aab", "prod-aab", "stack-aab-in-stack",
              "max-aab", "sub-aab", "sub-baa", "lse-aab", "lse-aba"]
DUP_WRAPS = ["subs-both", "plain", "subs-swap", "reduce"]
DUP_GRID = [(wr, sh) for wr in DUP_WRAPS for sh in DUP_SHAPES]


def gen_dup_children(rng, k, rot):
    """V(a, a, b): `a` is ONE hash-consed object (the same ndarray builds the same Tensor) occurring twice,
    `b` is a deeper sibling; placed below a root and, in the subs wrappers, substituted at names of both
    (the lazy routes rebuild V through substitute()/anf, the stack-free reinterpreter through anf)."""
    wrap, shape = DUP_GRID[k] if k < len(DUP_SHAPES) else DUP_GRID[(k + rot) % len(DUP_GRID)]
    s = rng.choice([2, 3])
    ctx = OrderedDict((n, s) for n in ("i", "j", "l"))
    ctx["k"] = 3
    t1 = gen_terms.gen_tensor(rng, ctx, "real", names=["i"])
    t2 = gen_terms.gen_tensor(rng, ctx, "real", names=["j"])
    a = ("binary", rng.choice(["mul", "add"]), t1, gen_terms.gen_tensor(rng, ctx, "real", names=["i", "l"]))
    b = ("unary", "neg", ("binary", "add", ("binary", "mul", t2, gen_terms.gen_tensor(rng, ctx, "real", names=["i", "j"])),
                          ("unary", "abs", gen_terms.gen_tensor(rng, ctx, "real", names=["j", "l"]))))
    if rng.random() < 0.3:
        a = t1                                   # the repeated child may be a leaf
    if shape == "stack-aab":
        V = ("stack", "k", (a, a, b))
    elif shape == "stack-baa":
        V = ("stack", "k", (b, a, a))
    elif shape == "stack-aba":
        V = ("stack", "k", (a, b, a))
    elif shape == "cat-aab":
        def part(x):       # Cat parts need the concatenated input
            return ("binary", "add", x, gen_terms.gen_tensor(rng, dict(ctx, k=1), "real", names=["k"]))
        pa = part(a)
        V = ("cat", "k", (pa, pa, part(b)))
    elif shape == "sum-aab":
        V = ("binary", "add", ("binary", "add", a, a), b)      # normalize: Contraction(null, add, (a, a, b))
    elif shape == "prod-aab":
        V = ("binary", "mul", ("binary", "mul", a, a), b)
    elif shape == "max-aab":
        V = ("binary", "max", ("binary", "max", a, a), b)
    elif shape == "lse-aab":
        V = ("binary", "logaddexp", ("binary", "logaddexp", a, a), b)
    elif shape == "lse-aba":
        V = ("binary", "logaddexp", ("binary", "logaddexp", a, b), a)
    elif shape == "sub-aab":
        V = ("binary", "sub", ("binary", "sub", a, a), b)
    elif shape == "sub-baa":
        V = ("binary", "sub", b, ("binary", "sub", a, a))
    else:
        inner = ("stack", "k", (a, a, b))
        V = ("stack", "m", (inner, inner, ("unary", "neg", inner)))
    root = ("binary", "add", V, gen_terms.gen_tensor(rng, ctx, "real", names=["l"]))
    if wrap == "subs-both":
        recipe = ("subs", root, (("i", ("num", rng.randrange(s), s)), ("j", ("num", rng.randrange(s), s))))
    elif wrap == "subs-swap":
        recipe = ("subs", root, (("i", ("var", "j", s)), ("j", ("var", "i", s))))
    elif wrap == "reduce":
        recipe = ("reduce", rng.choice(["add", "max"]), root, ("i",), ())
    else:
        recipe = ("unary", "neg", root)
    return ctx, recipe


# ---------------------------------------------------------------------------------------------
# lazy Align wrappers as operands of NON-COMMUTATIVE binary ops
# ---------------------------------------------------------------------------------------------

for _n, _o in (("pow", ops.pow),):
    gen_terms.OPS.setdefault(_n, _o)
NONCOMM = ["sub", "truediv", "pow", "lt", "le", "gt", "ge", "sub", "truediv"]
ALIGN_POS = ["right", "left", "both"]
ALIGN_GRID = [(pos, op) for pos in ALIGN_POS for op in ("sub", "truediv", "pow", "lt", "le", "gt", "ge")]


def gen_align_noncomm(rng, k, rot):
    """L op R with a non-commutative op, where the right / left / both operands are `.align(names)` of a
    compound sub-term (a real re-ordering: full permutations and partial name tuples).  Eagerly `.align` is
    Tensor.align (a plain Tensor); under lazy / reflect it is a lazy Align that reaches the
    (Binary, Op, Funsor|Align, Align|Funsor) rules on reinterpretation."""
    pos, op = ALIGN_GRID[k] if k < len(ALIGN_GRID) else ALIGN_GRID[(k + rot) % len(ALIGN_GRID)]
    ctx = gen_ctx(rng)
    while len(ctx) < 2:
        ctx[NAMES[len(ctx)]] = rng.choice([2, 3])
    names = list(ctx)

    def tensor(ns, vals):
        tt = gen_terms.gen_tensor(rng, ctx, "real", names=ns)
        data = np.array([rng.choice(vals) for _ in range(tt[4].size)], dtype=np.float64).reshape(tt[4].shape)
        return tt[:4] + (data,)

    def compound(role):
        ns1 = [n for n in names if rng.random() < 0.7] or [names[0]]
        ns2 = [n for n in names if rng.random() < 0.7] or [names[-1]]
        if op == "truediv" and role == "right":
            vals, bop = [1.0, 2.0, 4.0, -2.0, 0.5], "mul"          # power-of-two denominators: exact
        elif op == "truediv":
            vals, bop = [1.0, 2.0, 3.0, -1.0, 0.0], rng.choice(["mul", "add", "sub"])
        elif op == "pow" and role == "right":
            vals, bop = [0.0, 1.0], "add"                            # exponents in {0, 1, 2}
        elif op == "pow":
            vals, bop = [-2.0, -1.0, 1.0, 2.0, 3.0], rng.choice(["mul", "add"])
        else:
            vals, bop = [-2.0, -1.0, 0.0, 1.0, 2.0, 3.0], rng.choice(["mul", "add", "sub"])
        c = ("binary", bop, tensor(ns1, vals), tensor(ns2, vals))
        return c, sorted(set(ns1) | set(ns2))

    def aligned(role):
        c, ns = compound(role)
        perm = list(ns)
        if len(perm) >= 2:
            while perm == ns:
                rng.shuffle(perm)
            if rng.random() < 0.3:
                perm = perm[:-1]                                     # partial name tuple
                if perm == ns[:len(perm)]:
                    perm = [ns[-1]]
        return ("align", c, tuple(perm))
    L = aligned("left") if pos in ("left", "both") else compound("left")[0]
    R = aligned("right") if pos in ("right", "both") else compound("right")[0]
    if rng.random() < 0.3:
        (L if False else None)
        if pos == "right":
            L = L[2]                                                 # a plain Tensor on the other side
        elif pos == "left":
            R = R[3]
    recipe = ("binary", op, L, R)
    wrap = rng.choice(["none", "none", "reduce", "neg", "sub-again"])
    if op in ("lt", "le", "gt", "ge"):
        wrap = "none"
    if wrap == "reduce":
        _, free = recipe_wire(recipe)
        fn = sorted(free)
        if fn:
            recipe = ("reduce", rng.choice(["add", "max"]), recipe, (rng.choice(fn),), ())
    elif wrap == "neg":
        recipe = ("unary", "neg", recipe)
    elif wrap == "sub-again" and op != "pow":
        c2, ns2 = compound("left")
        recipe = ("binary", "sub", c2, ("align", recipe, tuple(reversed(sorted(recipe_wire(recipe)[1])))))
    return ctx, recipe


# ---------------------------------------------------------------------------------------------
# the same reduced (binder-carrying) sub-expression used twice as an operand
# ---------------------------------------------------------------------------------------------

SHARED_SHAPES = ["s*s", "s*w*s", "(s+t)*s", "s+s", "s*s*s", "s*(w*s)", "nested", "s*t-same-arg", "reduce(s*s)",
                 "s-s*s"]
SHARED_SR = [("add", "mul"), ("max", "add"), ("min", "add"), ("add", "mul"), ("logaddexp", "add"), ("max", "mul")]
SHARED_GRID = [(sh, sr) for sr in SHARED_SR[:2] for sh in SHARED_SHAPES] + \
              [(sh, sr) for sr in SHARED_SR[2:] for sh in SHARED_SHAPES]


def gen_shared_reduction(rng, k, rot):
    """s = x.reduce(red, 'i') occurs twice (the recipe node is literally the same tuple with the same ndarray, so
    funsor's cons-hashing makes the two occurrences ONE object with ONE alpha-renamed bound name); `t` is
    another reduction over the same user-level name.  (Σ_i x)·(Σ_i x) must not become Σ_i x·x."""
    shape, (red, bop) = SHARED_GRID[k] if k < 2 * len(SHARED_SHAPES) else SHARED_GRID[(k + rot) % len(SHARED_GRID)]
    ctx = gen_ctx(rng)
    while len(ctx) < 2:
        ctx[NAMES[len(ctx)]] = rng.choice([2, 3])
    names = list(ctx)
    i = at_least2(ctx, rng.choice(names))
    nonneg = bop == "mul" and red in ("max", "min")
    inexact = red == "logaddexp"

    def tensor(ns):
        tt = gen_terms.gen_tensor(rng, ctx, "real", names=ns)
        if nonneg or inexact:
            tt = tt[:4] + (np.abs(tt[4]),)
        return tt
    xs = sorted(set([i] + [n for n in names if rng.random() < 0.5]))
    x = tensor(xs)
    if rng.random() < 0.4:
        x = ("binary", bop if rng.random() < 0.5 else "add", x, tensor(sorted(set([i] + [n for n in names if rng.random() < 0.4]))))
    s = ("reduce", red, x, (i,), ())
    t = ("reduce", red, tensor(sorted(set([i] + [n for n in names if rng.random() < 0.5]))), (i,), ())
    w_ = tensor([n for n in names if n != i and rng.random() < 0.6])
    B = lambda a, b: ("binary", bop, a, b)
    if shape == "s*s":
        r = B(s, s)
    elif shape == "s*w*s":
        r = B(B(s, w_), s)
    elif shape == "(s+t)*s":
        r = B(("binary", red if red in ("add", "max", "min") else "add", s, t), s)
    elif shape == "s+s":
        r = ("binary", red if red in ("add", "max", "min") else "add", s, s)
    elif shape == "s*s*s":
        r = B(B(s, s), s)
    elif shape == "s*(w*s)":
        r = B(s, B(w_, s))
    elif shape == "nested":
        inner = B(s, s)
        rest = sorted(set(recipe_wire(inner)[1]))
        r = B(("reduce", red, inner, (rest[0],), ()), ("reduce", red, inner, (rest[0],), ())) if rest else inner
    elif shape == "s*t-same-arg":
        s2 = ("reduce", red, s[2], (i,), ())        # rebuilt identically: the same object after cons-hashing
        r = B(B(s, w_), s2)
    elif shape == "reduce(s*s)":
        inner = B(s, s)
        rest = sorted(set(recipe_wire(inner)[1]))
        r = ("reduce", red, inner, (rest[0],), ()) if rest else inner
    else:
        r = ("binary", "sub", s, B(s, s))
    env = {"__approx__": 1.0} if inexact else {}
    return ctx, r, env


# ---------------------------------------------------------------------------------------------
# the same operand twice under EVERY associative op (flattened by normalize)
# ---------------------------------------------------------------------------------------------

ASSOC_OPS = ["logaddexp", "xor", "add", "mul", "max", "min", "and", "or"]
REPEAT_SHAPES = ["(t.u).t", "t.t", "t.(u.t)", "(t.u).(t.u)", "((t.u).t).u", "open:(t.u).t", "open:t.t", "red:(s.u).s"]
REPEAT_GRID = [(sh, o) for sh in REPEAT_SHAPES for o in ASSOC_OPS]


def gen_repeat_operand(rng, k, rot):
    """⊕(⊕(t, u), t) and friends for every associative op funsor has — add, mul, max, min, logaddexp (rounded),
    and_, or_, xor (Bint[2] data) — with `t` ONE hash-consed object (a leaf or a compound built twice from the
    same arrays).  `open:` variants keep a free Variable in t, so the eager build stays lazy (it goes through
    normalize) and is compared point by point with the deferred builds; `red:` makes t a reduction."""
    shape, o = REPEAT_GRID[k] if k < 2 * len(ASSOC_OPS) else REPEAT_GRID[(k + rot) % len(REPEAT_GRID)]
    ctx = gen_ctx(rng)
    names = list(ctx)
    bitwise = o in ("and", "or", "xor")
    env = {}

    def tensor(ns=None):
        ns = [n for n in names if rng.random() < 0.6] if ns is None else ns
        if bitwise:
            return gen_terms.gen_tensor(rng, ctx, 2, names=ns)
        tt = gen_terms.gen_tensor(rng, ctx, "real", names=ns)
        if o in ("logaddexp",):
            tt = tt[:4] + (np.abs(tt[4]),)
        return tt
    inner_op = o if bitwise else rng.choice(["add", o])
    t_ = tensor() if rng.random() < 0.4 else ("binary", inner_op, tensor(), tensor())
    u_ = tensor() if rng.random() < 0.5 else ("binary", inner_op, tensor(), tensor())
    if shape.startswith("open:"):
        if bitwise:
            t_ = ("binary", o, ("var", "v", 2), t_)
        else:
            t_ = ("binary", "add", ("var", "x", Real), t_)
            env["x"] = rng.choice([0.0, 0.5, 2.0, 3.0])
        shape = shape[5:]
    if shape.startswith("red:"):
        i = at_least2(ctx, rng.choice(names))
        body = tensor(sorted(set([i] + [n for n in names if rng.random() < 0.5])))
        t_ = ("reduce", o if not bitwise else rng.choice(["or", "and", "xor"]), body, (i,), ()) if not bitwise else \
            ("reduce", "add", gen_terms.gen_tensor(rng, ctx, "real", names=[i]), (i,), ())
        if bitwise:          # a reduction of Bint[2] data stays integer only for and/or: keep the repeated operand a compound
            t_ = ("binary", o, tensor(), tensor())
        shape = "(t.u).t"
    B = lambda a_, b_: ("binary", o, a_, b_)
    if shape == "(t.u).t":
        r = B(B(t_, u_), t_)
    elif shape == "t.t":
        r = B(t_, t_)
    elif shape == "t.(u.t)":
        r = B(t_, B(u_, t_))
    elif shape == "(t.u).(t.u)":
        r = B(B(t_, u_), B(t_, u_))
    else:
        r = B(B(B(t_, u_), t_), u_)
    if o == "logaddexp":
        env["__approx__"] = 1.0
    if o == "mul" and carrier_risky(r):
        r = to_nonneg(r)
    return ctx, r, env


# ---------------------------------------------------------------------------------------------
# parametrised array ops, directly nested (Unary of Unary), with a numpy oracle
# ---------------------------------------------------------------------------------------------

def _neg_axes(rank, k=1):
    return [-(a + 1) for a in range(rank)]


PUNARY_NP = {
    "transpose": lambda d, a1, a2: np.swapaxes(d, a1, a2),
    "flip": lambda d, ax: np.flip(d, ax),
    "unsqueeze": lambda d, ax: np.expand_dims(d, ax),
    "sum": lambda d, ax, keep: d.sum(ax, keepdims=keep),
    "prod": lambda d, ax, keep: d.prod(ax, keepdims=keep),
    "amax": lambda d, ax, keep: d.max(ax, keepdims=keep),
    "amin": lambda d, ax, keep: d.min(ax, keepdims=keep),
    "clamp": lambda d, lo, hi: np.clip(d, lo, hi),
    "neg": lambda d: -d, "abs": lambda d: np.abs(d), "exp": lambda d: np.exp(d), "log": lambda d: np.log(d),
    "reciprocal": lambda d: 1.0 / d,
}
PUNARY_GENERATED = ["transpose", "flip", "unsqueeze", "sum", "prod", "amax", "amin", "clamp", "getslice"]
NEST_KINDS = ["same-class-other-params", "same-params-twice", "inverse-pair", "mixed", "triple"]
NEST_GRID = [(kd, o) for kd in NEST_KINDS for o in ("flip", "transpose", "getslice", "sum", "unsqueeze", "clamp")]


def np_eval(r):
    """numpy oracle of a unary-nest recipe: the ops applied to the leaf's data (negative axes = event dims)."""
    if r[0] == "tensor":
        return np.asarray(r[4], dtype=np.float64)
    if r[0] == "punary":
        return PUNARY_NP[r[1]](np_eval(r[3]), *r[2])
    if r[0] == "pslice":
        d = np_eval(r[2])
        nb = len(_leaf(r)[1])
        return d[(slice(None),) * nb + tuple(slice(*s) if isinstance(s, tuple) else s for s in r[1])]
    if r[0] == "unary":
        return PUNARY_NP[r[1]](np_eval(r[2]))
    raise ValueError(r[0])


def _leaf(r):
    while r[0] != "tensor":
        r = r[3] if r[0] == "punary" else r[2]
    return r


def gen_unary_nest(rng, k, rot):
    kind, first = NEST_GRID[k] if k < 12 else NEST_GRID[(k + rot) % len(NEST_GRID)]
    ctx = gen_ctx(rng)
    names = [n for n in ctx if rng.random() < 0.6]
    ev = rng.choice([(2, 3), (3, 2), (2, 3, 4), (3, 1, 2), (4, 2)])
    leaf = gen_terms.gen_tensor(rng, ctx, "real", names=names, event_shape=ev)
    shape = tuple(ctx[n] for n in names) + ev
    data = np.array([rng.choice([-3.0, -2.0, -1.0, 1.0, 2.0, 3.0, 4.0, 5.0]) for _ in range(int(np.prod(shape)))]).reshape(shape)
    leaf = leaf[:4] + (data,)
    env = {"__pyoracle__": 1.0}

    def rank_of(r):
        return np_eval(r).ndim - len(names)

    def one(opname, r, avoid=None):
        rk = rank_of(r)
        if opname == "flip":
            axs = [a for a in _neg_axes(rk) if (a,) != avoid] or _neg_axes(rk)
            return ("punary", "flip", (rng.choice(axs),), r)
        if opname == "transpose":
            if rk < 2:
                return one("flip", r, avoid)
            pairs = [(a, b) for a in _neg_axes(rk) for b in _neg_axes(rk) if a > b and (a, b) != avoid]
            return ("punary", "transpose", rng.choice(pairs or [(-1, -2)]), r)
        if opname == "getslice":
            idx = []
            sh = np_eval(r).shape[len(names):]
            for s_ in sh[:rng.randrange(1, rk + 1)]:
                idx.append(rng.choice([(None, None, -1), (None, None, None), (0, s_, 1), (s_ - 1, None, -1) if s_ > 1 else (None, None, -1),
                                       (1, None, 1) if s_ > 1 else (None, None, None)]))
            if tuple(idx) == avoid:
                idx[0] = (None, None, -1) if idx[0] != (None, None, -1) else (None, None, None)
            return ("pslice", tuple(idx), r)
        if opname in ("sum", "prod", "amax", "amin"):
            return ("punary", rng.choice(["sum", "amax", "amin", "prod"]) if avoid is None else opname,
                    (rng.choice(_neg_axes(rk)), True), r)
        if opname == "unsqueeze":
            return ("punary", "unsqueeze", (rng.choice(_neg_axes(rk + 1)),), r)
        lo = rng.choice([-2.0, -1.0, 0.0])
        return ("punary", "clamp", (lo, lo + rng.choice([1.0, 2.0, 3.0])), r)

    def params(r):
        return r[2] if r[0] == "punary" else r[1]
    inner = one(first, leaf)
    if kind == "same-class-other-params":
        cls = inner[1] if inner[0] == "punary" else "getslice"
        r = one(cls, inner, avoid=params(inner))
    elif kind == "same-params-twice":
        r = (inner[0], inner[1], inner[2], inner) if inner[0] == "punary" else ("pslice", inner[1], inner)
        try:
            np_eval(r)
        except Exception:
            r = one("flip", inner)
    elif kind == "inverse-pair":
        pair = rng.choice([("neg", "neg"), ("reciprocal", "reciprocal"), ("log", "exp"), ("exp", "log")])
        base = inner
        vals = np_eval(inner)
        if "reciprocal" in pair and (vals == 0).any():
            pair = ("neg", "neg")                  # funsor clips 1/0 to the largest float: keep the oracle exact
        if pair[0] in ("log",):
            base = ("unary", "abs", inner)
            if (vals == 0).any():
                pair = ("neg", "neg")
                base = inner
        if pair == ("exp", "log") and np.abs(vals).max() > 20:
            pair = ("neg", "neg")
        r = ("unary", pair[1], ("unary", pair[0], base))
        if set(pair) & {"exp", "log", "reciprocal"}:
            env["__approx__"] = 1.0
    elif kind == "mixed":
        r = one(rng.choice(["flip", "transpose", "getslice", "unsqueeze", "sum", "clamp"]), inner)
    else:
        r = one(rng.choice(["flip", "transpose"]), one(rng.choice(["flip", "transpose", "getslice"]), inner))
    if rng.random() < 0.3:
        r = ("unary", "neg", r)
    return ctx, r, env


def oracle_funsor(r):
    leaf = _leaf(r)
    return Tensor(np_eval(r), OrderedDict((n, Bint[s]) for n, s in leaf[1]), "real")


# ---------------------------------------------------------------------------------------------
# non-finite data (-inf cells and rows, +inf, nan) under algebraic simplifications
# ---------------------------------------------------------------------------------------------

NONFINITE_SHAPES = ["t-t", "(t+u)-t", "t-u", "(t-t)+u", "neg(t)-neg(t)", "max(max(t,u),t)", "reduce(t-t)", "min(t,t)-free",
                    "t-t:scalar", "t+neg(t)"]


def gen_nonfinite(rng, k, rot):
    """Ground tensors holding -inf (cells and whole rows), +inf and nan, combined with add/sub/neg only or with
    max/min only (sums and lattice ops are order-independent on these values; mixing them is not).  The
    immediate build computes t - t = nan at every infinite cell; a deferred route must do the same.  Reference
    = the eager build (nan == nan, inf == inf exactly); Lean's XR spec is skipped here."""
    shape = NONFINITE_SHAPES[k] if k < len(NONFINITE_SHAPES) else NONFINITE_SHAPES[(k + rot) % len(NONFINITE_SHAPES)]
    ctx = gen_ctx(rng)
    names = list(ctx)

    def tensor(ns):
        tt = gen_terms.gen_tensor(rng, ctx, "real", names=ns)
        d = tt[4].astype(np.float64).copy()
        flat = d.reshape(-1)
        for j in range(flat.size):
            r = rng.random()
            if r < 0.25:
                flat[j] = -np.inf
            elif r < 0.33:
                flat[j] = np.inf
            elif r < 0.38:
                flat[j] = np.nan
        if d.ndim >= 1 and d.shape[0] > 1 and rng.random() < 0.3:
            d[0] = -np.inf                                   # a whole row of -inf (log-probability tables)
        if not np.isinf(d).any():
            d.reshape(-1)[0] = -np.inf
        return tt[:4] + (d,)
    ns = [n for n in names if rng.random() < 0.6]
    if shape == "t-t:scalar":
        ns = []
    t_ = tensor(ns)
    u_ = tensor([n for n in names if rng.random() < 0.6])
    S = lambda a, b: ("binary", "sub", a, b)
    A = lambda a, b: ("binary", "add", a, b)
    if shape in ("t-t", "t-t:scalar"):
        r = S(t_, t_)
    elif shape == "(t+u)-t":
        r = S(A(t_, u_), t_)
    elif shape == "t-u":
        r = S(t_, u_)
    elif shape == "(t-t)+u":
        r = A(S(t_, t_), u_)
    elif shape == "neg(t)-neg(t)":
        r = S(("unary", "neg", t_), ("unary", "neg", t_))
    elif shape == "max(max(t,u),t)":
        r = ("binary", "max", ("binary", "max", t_, u_), t_)
    elif shape == "reduce(t-t)":
        r = S(t_, t_)
        if ns:
            r = ("reduce", "add", r, (ns[0],), ())
    elif shape == "min(t,t)-free":
        r = ("binary", "min", t_, t_)
    else:
        r = A(t_, ("unary", "neg", t_))
    return ctx, r, {"__approx__": 1.0, "__nonfinite__": 1.0}


# ---------------------------------------------------------------------------------------------
# reductions over Variable objects the argument does not mention (multiplicity of constant factors)
# ---------------------------------------------------------------------------------------------

ABSENT_GRID = [(kind, op) for kind in ("fully-absent", "partly-absent") for op in ("add", "mul", "logaddexp", "max")]
ABSENT_ARGS = ["tensor-other-inputs", "scalar-tensor", "number", "compound", "lazy-x"]


def gen_absent_reduce(rng, k, rot):
    """x.reduce(op, {Variable(j), …}) where NONE (or only some) of the reduced Variables is an input of x: the
    value is x combined with itself |j| times — n·x, x**n, x + log n, x.  Every interpretation, `sequential`
    included, has to apply that multiplicity."""
    kind, op = ABSENT_GRID[k % len(ABSENT_GRID)]
    argk = ABSENT_ARGS[(k // len(ABSENT_GRID) + rot) % len(ABSENT_ARGS)]
    ctx = gen_ctx(rng)
    while len(ctx) < 3:
        ctx[NAMES[len(ctx)]] = rng.choice([2, 3])
    names = list(ctx)
    rng.shuffle(names)
    absent = [at_least2(ctx, n) for n in names[:rng.choice([1, 1, 2])]]
    if op == "mul":
        # x ** |absent domain| : keep every intermediate exactly representable (values in {1, 2, -1, 0.5}, power <= 4)
        absent = absent[:1]
    others = [n for n in names if n not in absent]
    env = {}

    def tensor(ns):
        tt = gen_terms.gen_tensor(rng, ctx, "real", names=ns)
        if op == "mul":
            vals = np.array([rng.choice([1.0, 2.0, -1.0, 0.5]) for _ in range(tt[4].size)]).reshape(tt[4].shape)
            tt = tt[:4] + (vals,)
        elif op == "logaddexp":
            tt = tt[:4] + (np.abs(tt[4]),)
        return tt
    if argk == "tensor-other-inputs":
        a = tensor([n for n in others if rng.random() < 0.7] or others[:1])
    elif argk == "scalar-tensor":
        a = tensor([])
    elif argk == "number":
        a = ("num", float(rng.choice([1, 2] if op == "mul" else [1, 2, 3])), "real")
    elif argk == "compound":
        a = ("binary", "mul" if op == "mul" else rng.choice(["add", "mul"]), tensor(others[:1]),
             tensor([n for n in others if rng.random() < 0.5]))
    else:
        a = ("binary", "mul" if op == "mul" else "add", ("var", "x", Real), tensor(others[:1]))
        env["x"] = rng.choice([0.5, 2.0] if op == "mul" else [0.5, 2.0, 3.0])
    present = ()
    if kind == "partly-absent":
        _, free = recipe_wire(a)
        fn = sorted(n for n, v in free.items() if v != "real")
        if fn:
            present = (rng.choice(fn),)
    r = ("reduce", op, a, present, tuple((n, ctx[n]) for n in sorted(absent)))
    if op == "logaddexp":
        env["__approx__"] = 1.0
    return ctx, r, env


def cases(base_seed, n):
    """The seeded case list: [(ctx, recipe, family, env)]; env binds the free real inputs; the pseudo-binding
    "__approx__" marks expressions with inexact ops (compared after rounding).  Families by idx mod 12."""
    rng = random.Random(f"C03-cases-{base_seed}")
    rot = rng.randrange(10 ** 6)
    out = []
    cnt = collections.Counter()
    for idx in range(n):
        m = idx % 12
        if m == 4:
            ctx, recipe = gen_sum_product(rng)
            out.append((ctx, recipe, "sum-product", {}))
        elif m == 7:
            ctx, recipe = gen_dup_children(rng, cnt["dup"], rot)
            cnt["dup"] += 1
            env = {"__approx__": 1.0} if "logaddexp" in recipe_ops(recipe) else {}
            if carrier_risky(recipe):
                recipe = to_nonneg(recipe)
            out.append((ctx, recipe, "dup-children(variadic node lists one child twice)", env))
        elif m == 2 and (idx // 12) % 2 == 1:
            ctx, recipe, env = gen_absent_reduce(rng, cnt["absent"], rot)
            cnt["absent"] += 1
            if carrier_risky(recipe):
                recipe = to_nonneg(recipe)
            out.append((ctx, recipe, "absent-reduce(reduced Variables not among the argument's inputs)", env))
        elif m == 2:
            ctx, recipe, env = gen_seq_lazy(rng)
            out.append((ctx, recipe, "seq-lazy", env))
        elif m == 0:
            ctx, recipe = gen_user_term(rng, cnt["user"], rot)
            cnt["user"] += 1
            out.append((ctx, recipe, "user-terms(make_funsor)", {}))
        elif m == 9:
            ctx, recipe, env = gen_shared_reduction(rng, cnt["shared"], rot)
            cnt["shared"] += 1
            out.append((ctx, recipe, "shared-reduction(one reduced sub-term used twice)", env))
        elif m == 10:
            ctx, recipe, env = gen_repeat_operand(rng, cnt["repeat"], rot)
            cnt["repeat"] += 1
            out.append((ctx, recipe, "repeat-operand(every associative op)", env))
        elif m == 8:
            ctx, recipe = gen_align_noncomm(rng, cnt["align"], rot)
            cnt["align"] += 1
            if carrier_risky(recipe):
                recipe = demax(recipe)
            out.append((ctx, recipe, "align-noncommutative(lazy Align operands of sub/truediv/pow/comparisons)", {}))
        elif m == 3:
            ctx, recipe = gen_subs_grid(rng, cnt["subs"], rot)
            cnt["subs"] += 1
            if carrier_risky(recipe):
                recipe = to_nonneg(recipe)
            out.append((ctx, recipe, "subs-grid(overlapping keys/values)", {}))
        elif m == 11:
            ctx, recipe, env = gen_unary_nest(rng, cnt["nest"], rot)
            cnt["nest"] += 1
            out.append((ctx, recipe, "unary-nest(parametrised array ops, numpy oracle)", env))
        elif m in (1, 6):
            ctx, recipe = gen_cnf_grid(rng, cnt["cnf"], rot)
            cnt["cnf"] += 1
            used = recipe_ops(recipe)
            if used & INEXACT:
                out.append((ctx, recipe, "cnf-grid:inexact(rounded, reference eager)", {"__approx__": 1.0}))
            elif carrier_risky(recipe):
                out.append((ctx, to_nonneg(recipe), "cnf-grid:nonneg(max-mul carrier)", {}))
            else:
                out.append((ctx, recipe, "cnf-grid", {}))
        elif m == 5 and (idx // 12) % 2 == 1:
            ctx, recipe, env = gen_nonfinite(rng, cnt["nonfinite"], rot)
            cnt["nonfinite"] += 1
            out.append((ctx, recipe, "nonfinite-data(-inf/+inf/nan cells, reference eager)", env))
        else:
            ctx = gen_ctx(rng)
            depth = rng.choice([1, 2, 2, 3, 3, 4])
            recipe, _free = gen_terms.gen_expr(rng, ctx, depth, "real")
            if carrier_risky(recipe):
                out.append((ctx, to_nonneg(recipe), "gen_terms:nonneg(max-mul carrier)", {}))
            else:
                out.append((ctx, recipe, "gen_terms", {}))
    return out


def shared_reduce_subrecipes(recipe):
    """True iff the same ("reduce", …) sub-recipe (same arrays) occurs twice: the region of the open
    finding KF-shared-binder-unfold (hash-consed sibling reductions share one mangled binder).  Not in
    C03's scope; such cases are evaluated but only counted."""
    seen = set()
    dup = [False]

    def key(r):
        if isinstance(r, np.ndarray):
            return ("arr", r.shape, r.dtype.str, r.tobytes())
        if isinstance(r, tuple):
            return tuple(key(x) for x in r)
        return r

    def go(r):
        if isinstance(r, tuple):
            if r and r[0] == "reduce":
                k = key(r)
                if k in seen:
                    dup[0] = True
                seen.add(k)
            for x in r:
                go(x)
    go(recipe)
    return dup[0]


# ---------------------------------------------------------------------------------------------
# spec: recipe -> wire term (independent of funsor), with the expression's free inputs
# ---------------------------------------------------------------------------------------------

class IllFormed(Exception):
    pass


def _merge(*ds):
    out = {}
    for d in ds:
        for k, v in d.items():
            if k in out and out[k] != v:
                raise IllFormed(f"input {k}: sizes {out[k]} and {v}")
            out[k] = v
    return out


def _opw(n):
    return [n]


def recipe_wire(r):
    """-> (wire, free) with free = {name: size | "real"} the inputs of the expression."""
    tag = r[0]
    if tag == "tensor":
        _, ins, dtype, ev, data = r
        dom = (["real"] if dtype == "real" else ["bint", int(dtype)]) + [int(s) for s in ev]
        return (["tensor", [[Q(n), int(s)] for n, s in ins], dom, [ser.num_wire(x) for x in data.reshape(-1)]],
                {n: int(s) for n, s in ins})
    if tag == "num":
        return ["num", ser.num_wire(r[1]), ser.dtype_wire(r[2])], {}
    if tag == "var":
        if isinstance(r[2], int):
            return ["var", Q(r[1]), ["bint", r[2]]], {r[1]: r[2]}
        return ["var", Q(r[1]), ["real"]], {r[1]: "real"}
    if tag == "binary":
        wa, fa = recipe_wire(r[2])
        wb, fb = recipe_wire(r[3])
        return ["binary", _opw(r[1]), wa, wb], _merge(fa, fb)
    if tag == "unary":
        wa, fa = recipe_wire(r[2])
        return ["unary", _opw(r[1]), wa], fa
    if tag == "reduce":
        _, op, a, rv, absent = r
        wa, fa = recipe_wire(a)
        vs = []
        for n in rv:
            if n not in fa:
                raise IllFormed(f"reduce over {n} not an input")
            if fa[n] == "real":
                raise IllFormed("reduce over real")
            vs.append((n, fa[n]))
        for n, s in absent:
            if n in fa and fa[n] != s:
                raise IllFormed("absent var size")
            vs.append((n, s))
        vs = sorted(set(vs))
        free = {k: v for k, v in fa.items() if k not in dict(vs)}
        return ["reduce", op, wa, [[Q(n), ["bint", int(s)]] for n, s in vs]], free
    if tag == "subs":
        wa, fa = recipe_wire(r[1])
        pairs = []
        free = dict(fa)
        vals = []
        for k, v in r[2]:
            if k not in fa:
                continue           # Funsor.__call__ ignores names that are not inputs
            wv, fv = recipe_wire(v)
            pairs.append([Q(k), wv])
            vals.append(fv)
            free.pop(k, None)
        return ["subs", wa, pairs], _merge(free, *vals)
    if tag == "slice":
        _, name, start, stop, step, dtype = r
        stop = min(dtype, max(start, stop))
        size = len(range(start, stop, step))
        return ["slice", Q(name), start, stop, step, dtype], {name: size}
    if tag == "stack":
        ws, fs = zip(*[recipe_wire(p) for p in r[2]])
        for f in fs:
            if r[1] in f:
                raise IllFormed("stack name in part")
        return ["stack", Q(r[1])] + list(ws), _merge({r[1]: len(r[2])}, *fs)
    if tag == "cat":
        ws, fs = zip(*[recipe_wire(p) for p in r[2]])
        sizes = []
        rest = []
        for f in fs:
            if r[1] not in f:
                raise IllFormed("cat part lacks name")
            sizes.append(f[r[1]])
            rest.append({k: v for k, v in f.items() if k != r[1]})
        return ["cat", Q(r[1]), Q(r[1]), sizes] + list(ws), _merge({r[1]: sum(sizes)}, *rest)
    if tag == "punary":
        wa, fa = recipe_wire(r[3])
        return ["unary", ["py:" + r[1]], wa], fa
    if tag == "pslice":
        wa, fa = recipe_wire(r[2])
        return ["unary", ["py:getslice"], wa], fa
    if tag == "align":
        wa, fa = recipe_wire(r[1])
        for n in r[2]:
            if n not in fa:
                raise IllFormed(f"align name {n} not an input")
        return ["align", wa, [Q(n) for n in r[2]]], fa
    if tag == "user":
        return recipe_wire(user_spec(r))
    if tag == "reduceall":
        wa, fa = recipe_wire(r[2])
        vs = sorted((n, s) for n, s in fa.items() if s != "real")
        if not vs:
            return wa, fa
        return (["reduce", r[1], wa, [[Q(n), ["bint", int(s)]] for n, s in vs]],
                {k: v for k, v in fa.items() if v == "real"})
    if tag == "lamget":
        _, name, size, body, idx = r
        wb, fb = recipe_wire(body)
        wi, fi = recipe_wire(idx)
        if name in fb and fb[name] != size:
            raise IllFormed("lambda var size")
        fb = {k: v for k, v in fb.items() if k != name}
        return ["binary", ["getitem", ["offset", 0]], ["lambda", Q(name), size, wb], wi], _merge(fb, fi)
    raise IllFormed(tag)


# ---------------------------------------------------------------------------------------------
# Canonical observables
# ---------------------------------------------------------------------------------------------

APPROX = [False]


def fmt(x):
    if APPROX[0]:
        v = float(x)
        return "nan" if v != v else ("inf" if v == float("inf") else "-inf" if v == float("-inf") else "%.8g" % (v + 0.0))
    if isinstance(x, float):
        return "nan" if x != x else ("inf" if x > 0 else "-inf")
    return str(x.numerator) if x.denominator == 1 else f"{x.numerator}/{x.denominator}"


def ground(f, ins):
    """Evaluate a possibly lazy result at every point (pointwise substitution) -> Tensor/Number or None."""
    if isinstance(f, (Tensor, Number)):
        return f
    return None


def canonical(f, ins, env=None):
    """-> ("value", table) | ("lazy", typename) | ("bad-inputs", msg)"""
    names = dict(ins)
    APPROX[0] = bool(env and env.get("__approx__"))
    if env:
        bind = {k: Number(v) for k, v in env.items() if k in f.inputs and f.inputs[k] == Real}
        if bind:
            f = f(**bind)
    for k, d in f.inputs.items():
        if k not in names:
            return ("bad-inputs", f"foreign input {k!r}; result inputs {list(f.inputs)}, expression inputs {ins}")
        if d.shape or d.dtype != names[k]:
            return ("bad-inputs", f"input {k!r} has domain {d}, expected Bint[{names[k]}]")
    g = f
    if not isinstance(g, (Tensor, Number)):
        # a lazy result: tabulate it point by point (each point must evaluate to ground data)
        cells = []
        shape = None
        for p in itertools.product(*[range(s) for _, s in ins]):
            sub = {n: Number(v, names[n]) for (n, _), v in zip(ins, p) if n in f.inputs}
            try:
                c = f(**sub) if sub else f
            except DECLINE as e:
                return ("lazy", type(f).__name__)
            if not isinstance(c, (Tensor, Number)) or c.inputs:
                return ("lazy", type(f).__name__)
            a = np.asarray(c.data)
            shape = list(a.shape)
            cells.append([fmt(futil.exact(x)) for x in a.reshape(-1)])
        return ("value", {"out": str(f.output), "shape": shape if shape is not None else list(f.output.shape),
                          "vals": cells, "lazy": True})
    try:
        impl = ser.impl_values(g, ins)
    except (KeyError, ValueError) as e:
        return ("bad-inputs", str(e)[:200])
    shape = list(impl[0][0]) if impl else list(g.output.shape)
    return ("value", {"out": str(g.output), "shape": shape, "vals": [[fmt(x) for x in c[1]] for c in impl]})


def force(f, ins, env=None):
    """canonical() after eager reinterpretation of a result that stayed lazy (memo / collision checks)."""
    st = canonical(f, ins, env)
    if st[0] == "lazy":
        try:
            st = canonical(reinterpret(f), ins, env)
        except DECLINE:
            pass
    return st


def same_key_args(p, q):
    if isinstance(p, tuple) and isinstance(q, tuple):
        return len(p) == len(q) and all(same_key_args(a, b) for a, b in zip(p, q))
    if isinstance(p, Funsor) or isinstance(q, Funsor):
        return p is q
    if isinstance(p, frozenset) and isinstance(q, frozenset):
        return len(p) == len(q) and all(any(a is b for b in q) for a in p)
    return type(p) is type(q) and p == q if not isinstance(p, np.ndarray) else p is q


def digest(table):
    t = {k: v for k, v in table.items() if k != "lazy"}
    return hashlib.blake2b(json.dumps(t, sort_keys=True).encode(), digest_size=8).hexdigest()


# ---------------------------------------------------------------------------------------------
# Modes
# ---------------------------------------------------------------------------------------------

BUILD_CTX = {"lazy": lambda: lazy, "reflect": lambda: reflect, "normalize": lambda: normalize,
             "memoize": lambda: memoize(), "eager": lambda: eager,
             "sequential": lambda: sequential, "moment_matching": lambda: moment_matching}
DEFERRED = ["lazy", "reflect", "normalize", "memoize"]
EVALUATORS = ["eager", "sequential", "moment_matching", "memoize"]
ALL_CM = ["lazy", "reflect", "normalize", "memoize", "eager", "sequential", "moment_matching"]


def build_under(recipe, cms):
    """Build through the public API under the nesting `with cms[0]: with cms[1]: …`."""
    if not cms:
        return build_any(recipe)
    with BUILD_CTX[cms[0]]():
        return build_under(recipe, cms[1:])


def reinterp_under(term, cms, which):
    fn = {"auto": reinterpret, "rec": recursion_reinterpret, "stack": stack_reinterpret}[which]
    if not cms:
        return fn(term)
    with BUILD_CTX[cms[0]]():
        return reinterp_under(term, cms[1:], which)


def mode_list(rng):
    """[(mode name, build nesting, reinterpret nesting | None, reinterpreter)] for one case."""
    modes = [("eager", (), None, None)]
    for d in DEFERRED:
        for which in ("auto", "rec", "stack"):
            modes.append((f"{d}>{which}", (d,), (), which))
    for e in ("sequential", "moment_matching"):
        modes.append((e, (e,), None, None))
        modes.append((f"reflect>{e}:auto", ("reflect",), (e,), "auto"))
    modes.append(("lazy>memoize:auto", ("lazy",), ("memoize",), "auto"))
    # nestings of two context managers, both orders; a sample of the 49 ordered pairs per case
    pairs = [(a, b) for a in ALL_CM for b in ALL_CM]
    for a, b in rng.sample(pairs, 5):
        which = rng.choice(["auto", "rec", "stack"])
        modes.append((f"{a}+{b}>{which}", (a, b), (), which))
        modes.append((f"{b}+{a}>{which}", (b, a), (), which))
    # reinterpretation itself under a nesting of two evaluating interpretations
    ev_pairs = [(a, b) for a in EVALUATORS for b in EVALUATORS if a != b]
    for a, b in rng.sample(ev_pairs, 2):
        d = rng.choice(["lazy", "reflect", "normalize"])
        which = rng.choice(["auto", "rec", "stack"])
        modes.append((f"{d}>{a}+{b}:{which}", (d,), (a, b), which))
        modes.append((f"{d}>{b}+{a}:{which}", (d,), (b, a), which))
    return modes


def run_mode(recipe, ins, build_cms, re_cms, which, env=None):
    try:
        t = build_under(recipe, build_cms)
        if re_cms is not None:
            t = reinterp_under(t, re_cms, which)
    except DECLINE as e:
        return ("declined", f"{type(e).__name__}")
    if not isinstance(t, Funsor):
        return ("declined", f"non-funsor {type(t).__name__}")
    try:
        return canonical(t, ins, env)
    except DECLINE as e:
        return ("declined", f"bind:{type(e).__name__}")


# ---------------------------------------------------------------------------------------------
# anf observation (stack-free reinterpreter): the graph `anf` walks and the order it returns
# ---------------------------------------------------------------------------------------------

def anf_observation(term, limit=400):
    """ids by dict-key identity, children lists in `children()` iteration order, and anf's order."""
    ids = {}
    graph = []

    def nid(x):
        if x not in ids:
            ids[x] = len(ids)
        return ids[x]
    nid(term)
    todo = [term]
    seen = set()
    while todo:
        h = todo.pop()
        i = nid(h)
        if i in seen:
            continue
        seen.add(i)
        kids = []
        for c in interpreter.children(h):
            if interpreter.is_atom(c):
                continue
            kids.append(nid(c))
            todo.append(c)
        graph.append([i, kids, isinstance(h, Funsor)])
        if len(graph) > limit:
            return None
    order = [ids[k] for k in interpreter.anf(term)]
    graph.sort()
    return {"root": ids[term], "graph": graph, "order": order}


class Spy(Interpretation):
    """Total interpretation that logs the requests reaching it and delegates to `base`."""

    is_total = True

    def __init__(self, base):
        super().__init__("spy")
        self.base = base
        self.log = []

    def interpret(self, cls, *args):
        self.log.append((cls, args))
        return self.base.interpret(cls, *args)


class _BaseProbe(Interpretation):
    """Delegates to the base interpretation and tells the innermost pending Memoize request that the base
    was consulted for it (= cache miss), without assuming anything about the shape of the cache key."""

    def __init__(self, base, frames):
        super().__init__("probe")
        self.base = base
        self.frames = frames

    @property
    def is_total(self):
        return self.base.is_total

    def interpret(self, cls, *args):
        if self.frames:
            self.frames[-1][0] = True
        return self.base.interpret(cls, *args)


class LoggedMemoize(Memoize):
    """Memoize that records every request it answers (including the nested ones issued by the base
    interpretation's rules and by the FUNSOR_TYPECHECK pass), in completion order."""

    def __init__(self, base):
        self.frames = []
        super().__init__(_BaseProbe(base, self.frames))
        self.events = []

    def interpret(self, cls, *args):
        frame = [False]
        self.frames.append(frame)
        try:
            r = super().interpret(cls, *args)
        finally:
            self.frames.pop()
        self.events.append((cls, args, not frame[0], r))
        return r


def interp_call_observation(term):
    """Number of per-node interpret calls made by the two reinterpreters on `term` (funsor nodes only)."""
    out = {}
    for name, fn in (("rec", recursion_reinterpret), ("stack", stack_reinterpret)):
        spy = Spy(reflect)
        interpreter.push_interpretation(spy)
        try:
            r = fn(term)
        finally:
            interpreter.pop_interpretation()
        out[name] = len(spy.log)
        out[name + "_same"] = r is term
    return out


# ---------------------------------------------------------------------------------------------
# Memoize histories
# ---------------------------------------------------------------------------------------------

def _arg_key_ids(args, table):
    """Abstract the real cache key (interpretations.py make_hash_key: hashable args by value, the rest by
    id) into small integers by first occurrence — the key alphabet of the Lean state machine."""
    from collections.abc import Hashable
    key = tuple(id(a) if not isinstance(a, Hashable) else a for a in args)
    if key not in table:
        table[key] = len(table)
    return table[key]


def memo_history(rng, ctx):
    """One history of constructor requests under `Memoize(Spy(base))`, base in {eager, lazy, reflect}:
    repeated and interleaved constructions sharing arguments, across different classes with the same
    field signature (Subs/Align: (funsor, tuple); Binary/Reduce: (op, funsor, ·); Unary/Lambda/Stack…).
    Observation: {"reqs": [(cls_id, argkey_id)], "miss": [base was called for the request itself],
    "obj": [index of the first result that is the identical object], "value_ok": [result has the value the
    base interpretation gives for these arguments outside memoize]}."""
    base_name = rng.choice(["eager", "eager", "lazy", "reflect"])
    base = {"eager": eager, "lazy": lazy, "reflect": reflect}[base_name]
    pool = []
    for _ in range(rng.choice([2, 3, 4])):
        pool.append(gen_terms.build(gen_terms.gen_tensor(rng, ctx, "real")))
    with reflect:
        lazies = [Variable(n, Bint[ctx[n]]) for n in ctx]
    pool_all = pool + lazies
    specs = []
    binops = [ops.add, ops.mul, ops.sub, ops.max]
    for _ in range(rng.choice([4, 6, 8, 10])):
        if specs and rng.random() < 0.35:
            specs.append(rng.choice(specs))           # repeat an earlier request
            continue
        c = rng.random()
        x = rng.choice(pool_all)
        if c < 0.2:
            specs.append((Subs, (x, ())))
        elif c < 0.4:
            specs.append((Align, (x, ())))
        elif c < 0.6:
            specs.append((Binary, (rng.choice(binops), x, rng.choice(pool_all))))
        elif c < 0.7:
            specs.append((Unary, (rng.choice([ops.neg, ops.abs]), x)))
        elif c < 0.8 and x.inputs:
            k = rng.choice(list(x.inputs))
            specs.append((Reduce, (rng.choice([ops.add, ops.max]), x, frozenset([Variable(k, x.inputs[k])]))))
        elif c < 0.9 and x.inputs:
            k = rng.choice(list(x.inputs))
            specs.append((Subs, (x, ((k, Number(0, x.inputs[k].size)),))))
        elif x.inputs:
            specs.append((Align, (x, tuple(reversed(list(x.inputs))))))
        else:
            specs.append((Subs, (x, ())))
    memo = LoggedMemoize(base)
    try:
        with memo:
            for cls, args in specs:
                cls(*args)
    except DECLINE:
        return None
    events = memo.events
    if len(events) > 400:
        return None
    cls_ids, key_ids = {}, {}
    reqs = []
    for cls, args, hit, r in events:
        ocls = getattr(cls, "__origin__", None) or cls
        reqs.append([cls_ids.setdefault(ocls, len(cls_ids)), _arg_key_ids(args, key_ids)])
    results = [e[3] for e in events]
    miss = [not e[2] for e in events]
    obj = [next(j for j in range(i + 1) if results[j] is r) for i, r in enumerate(results)]
    ins = sorted((k, v) for k, v in ctx.items())
    value_ok = []
    for (cls, args, hit, r) in events:
        try:
            with base:
                e = cls(*args)
        except DECLINE:
            value_ok.append(None)
            continue
        try:
            a, b = force(e, ins), force(r, ins)
        except DECLINE:
            value_ok.append(None)
            continue
        if a[0] == "value" and b[0] == "value":
            value_ok.append(digest(a[1]) == digest(b[1]))
        elif a[0] == "bad-inputs" or b[0] == "bad-inputs":
            value_ok.append(None)       # a request over other names than ctx (bound variables): not tabulated
        else:
            value_ok.append(None)       # a side stayed lazy: value comparison inconclusive (counted)
    specs = [(e[0], e[1]) for e in events]
    top = len(specs)
    desc = [[cls.__name__, [type(a).__name__ if not isinstance(a, tuple) else f"tuple{len(a)}" for a in args]]
            for cls, args in specs]
    return {"reqs": reqs, "miss": miss, "obj": obj, "value_ok": value_ok, "desc": desc, "base": base_name}


# ---------------------------------------------------------------------------------------------

def run_case(idx, ctx, recipe, base_seed, env):
    rng = random.Random(f"C03-modes-{base_seed}-{idx}")
    out = {"i": idx, "tables": {}, "modes": {}}
    try:
        _, free = recipe_wire(recipe)
    except IllFormed as e:
        out["skip"] = f"ill-formed:{str(e).split(':')[0][:30]}"
        return out
    ins = sorted((k, v) for k, v in free.items() if v != "real")
    out["ins"] = ins
    for name, bcm, rcm, which in mode_list(rng):
        st = run_mode(recipe, ins, bcm, rcm, which, env)
        if st[0] == "value":
            d = digest(st[1])
            out["tables"].setdefault(d, st[1])
            out["modes"][name] = d
        else:
            out["modes"][name] = [st[0], st[1]]
    if env and env.get("__pyoracle__"):
        try:
            st = canonical(oracle_funsor(recipe), ins, env)
            if st[0] == "value":
                d = digest(st[1])
                out["tables"].setdefault(d, st[1])
                out["modes"]["oracle:numpy"] = d
        except DECLINE as e:
            out["modes"]["oracle:numpy"] = ["declined", type(e).__name__]
    try:
        try:
            with reflect:
                syn = build_any(recipe)
        except DECLINE:
            with lazy:
                syn = build_any(recipe)
        out["anf"] = anf_observation(syn)
        out["calls"] = interp_call_observation(syn)
    except DECLINE as e:
        out["anf_error"] = f"{type(e).__name__}: {e}"[:200]
    mh = memo_history(rng, ctx)
    if mh is not None:
        out["memo"] = mh
    return out


def main(argv):
    base_seed, n, shard, nshards = argv[0], int(argv[1]), int(argv[2]), int(argv[3])
    cs = cases(base_seed, n)
    cfg = {"tco": interpreter._USE_TCO, "typecheck": interpreter._TYPECHECK}
    print(json.dumps({"config": cfg}), flush=True)
    for idx, (ctx, recipe, fam, env) in enumerate(cs):
        if idx % nshards != shard:
            continue
        try:
            o = run_case(idx, ctx, recipe, base_seed, env)
        except Exception as e:     # unexpected exception class: reported, never swallowed
            import traceback
            o = {"i": idx, "crash": traceback.format_exc()[-1500:]}
        print(json.dumps(o), flush=True)
    print(json.dumps({"done": True}), flush=True)


if __name__ == "__main__":
    main(sys.argv[1:])
