"""
C04 — substitution is simultaneous, capture-avoiding function application.

Streams (all seeded from ctx.rng; every case is decided on its WHOLE finite input space):

  S1  tensor level, exhaustive over sigma-shapes: Tensor with <= 3 inputs of sizes <= 3 (optionally an
      event dimension) x one descriptor per input out of
        {unsubstituted, number, variable -> each name of the pool (own names: identity / colliding / swapped;
         fresh names: fresh / repeated = diagonal / chained), slice -> each pool name, index tensor over each of
         6 input sets (empty, fresh, own, other, two fresh, fresh + other)}.
      impl `t(**sigma)`  vs  a pure-numpy oracle (the property)  vs  the Lean model of Tensor.eager_subs
      (`ntsubs`, inputs order + data layout: fidelity)  vs  Lean `denote (subs t sigma)` (sampled echo).
      The same sigma-shapes are also applied to a LAZY binary (s + u) built under `lazy`/`reflect` and
      substituted under eager (the path where a rebuilt node evaluates to a Tensor, commit 86bd40d).
  S2  term level: f from the whole generated term language (fv/gen_terms.py: tensors, lazy binary/unary,
      reductions, Stack, Cat, Slice, Lambda+getitem, nested substitutions; plus real-valued free variables),
      built under eager, under lazy and under reflect (then `Subs(f, sigma)` built lazily and reinterpreted);
      sigma drawn from {number, index tensor with arbitrary inputs, variable (fresh, colliding, swapped,
      repeated, chained), slice, integer-valued lazy expression, real-valued expression for real inputs};
      value vs Lean `denote (subs f sigma)`; inputs clause; foreign keys ignored; chained f(a)(b) = fused;
      Lean `denote (substitute f sigma)` vs `denote (subs f sigma)` whenever `boundFresh` (echo of substitute_sound).
  S3  per-class index arithmetic on exhaustive boxes: Slice-into-Slice (params and size), Cat with a Slice
      (all part-size lists x start/stop/step), Cat with a Number, Stack with a Slice/Number — impl vs Lean model vs
      python slicing.

`search` re-runs S1/S3 (python-side oracles only, no Lean needed) at higher volume and S2 against a pointwise
python oracle (number substitution only).
"""
import contextlib
import itertools
from collections import OrderedDict
from fractions import Fraction

import numpy as np

from ..common import sx, Q, parse_sx
from .. import futil, ser, gen_terms
from ..futil import funsor, Tensor, Number, Variable, Bint, Real, Reals, ops
from funsor.terms import Subs, Slice, Stack, Cat, Lambda, Funsor
from funsor.interpretations import reflect, lazy, eager
from funsor.interpreter import reinterpret

DECLINE = (NotImplementedError, AssertionError, ValueError, TypeError, KeyError, IndexError)
POOL = ["i", "j", "k", "a", "b"]

PY_HEADER = gen_terms.PY_HEADER + ("from funsor.terms import Subs, Binary\nfrom funsor.domains import Reals\nfrom funsor.cnf import Contraction\n"
                                   "from funsor.interpretations import reflect, lazy, eager, normalize\n"
                                   "from funsor.optimizer import apply_optimizer\n"
                                   "from funsor.interpreter import reinterpret\n")


def py_footer(order, expected, real_env=None, call="r = CALL()"):
    """Self-checking tail of a replay snippet: `CALL()` performs the substitution; a decline is allowed, a returned
    value must have inputs among `order` and equal `expected` (table over `order` + event shape) everywhere."""
    exp = np.asarray(expected, dtype=np.float64)
    return (f"ORDER = {[(n, int(s_)) for n, s_ in order]!r}\n"
            f"EXPECTED = np.array({exp.tolist()!r}, dtype=np.float64).reshape({tuple(exp.shape)!r})\n"
            "REAL_ENV = {" + ", ".join(f"{k!r}: " + (f"Tensor(np.array({np.asarray(v).tolist()!r}))" if isinstance(v, np.ndarray) else repr(v))
                                       for k, v in (real_env or {}).items()) + "}\n"
            "def _table(r, order):\n"
            "    data = np.asarray(r.data, dtype=np.float64); names = [n for n, _ in order]; have = list(r.inputs)\n"
            "    assert all(k in names for k in have), ('foreign input', have)\n"
            "    nb = len(have)\n"
            "    data = data.transpose([have.index(n) for n in names if n in have] + list(range(nb, data.ndim)))\n"
            "    shape = [s if n in have else 1 for n, s in order]\n"
            "    data = data.reshape(tuple(shape) + data.shape[nb:])\n"
            "    return np.broadcast_to(data, tuple(s for _, s in order) + data.shape[len(order):])\n"
            "try:\n"
            "    r = CALL()\n"
            "except (NotImplementedError, AssertionError, ValueError, TypeError, KeyError, IndexError) as e:\n"
            "    print('declined:', type(e).__name__); r = None\n"
            "FAILS = False\n"
            "if r is not None:\n"
            "    print(r.inputs); print(r)\n"
            "    try:\n"
            "        v = r(**{k: x for k, x in REAL_ENV.items() if k in r.inputs}) if REAL_ENV else r\n"
            "        v = v if isinstance(v, (Tensor, Number)) else reinterpret(v)\n"
            "        got = _table(v, ORDER) if isinstance(v, Tensor) else np.broadcast_to(np.asarray(v.data, dtype=np.float64), EXPECTED.shape)\n"
            "        FAILS = got.shape != EXPECTED.shape or not np.array_equal(got, EXPECTED, equal_nan=True)\n"
            "    except AssertionError as e:\n"
            "        print(e); FAILS = True\n"
            "print('FAILS =', FAILS)\n")


def cells_to_array(cells, ins):
    """[(shape, [values])] over the points of ins -> ndarray sizes + shape."""
    shape = list(cells[0][0]) if cells else []
    flat = [float(x) for _, vals in cells for x in vals]
    return np.array(flat, dtype=np.float64).reshape(tuple(s_ for _, s_ in ins) + tuple(shape))


# ------------------------------------------------------------------------------------------------
# recipes: gen_terms recipes + two extra tags handled here
#     ("rvar", name)            a real-valued free variable
#     ("bin2", op, a, b)        binary op whose operands may contain extra tags
# ------------------------------------------------------------------------------------------------

def build2(r):
    tag = r[0]
    if tag == "rvar":
        return Variable(r[1], Real)
    if tag == "bin2":
        return gen_terms.OPS[r[1]](build2(r[2]), build2(r[3]))
    if tag == "stack2":                     # Stack whose parts may contain extra tags / repeated identical parts
        return Stack(r[1], tuple(build2(p) for p in r[2]))
    if tag == "cat2":
        return Cat(r[1], tuple(build2(p) for p in r[2]))
    if tag == "contr2":                     # an n-ary Contraction built directly (operands may repeat)
        from funsor.cnf import Contraction
        return Contraction(ops.null if r[1] == "null" else gen_terms.OPS[r[1]], gen_terms.OPS[r[2]], frozenset(),
                           *[build2(p) for p in r[3]])
    if tag == "rvec":                       # a real ARRAY-valued free variable
        return Variable(r[1], Reals[r[2]])
    if tag == "usum":                       # sum over the event dimension
        return ops.sum(build2(r[1]))
    if tag == "rget":                       # array[integer-valued expression]
        return build2(r[1])[build2(r[2])]
    return gen_terms.build(r)


def python_of2(r):
    tag = r[0]
    if tag == "rvar":
        return f"Variable({r[1]!r}, Real)"
    if tag == "bin2":
        return f"ops.{gen_terms._pyop(r[1])}({python_of2(r[2])}, {python_of2(r[3])})"
    if tag == "stack2":
        return f"Stack({r[1]!r}, (" + ", ".join(python_of2(p) for p in r[2]) + ",))"
    if tag == "cat2":
        return f"Cat({r[1]!r}, (" + ", ".join(python_of2(p) for p in r[2]) + ",))"
    if tag == "contr2":
        return (f"Contraction(ops.{gen_terms._pyop(r[1])}, ops.{gen_terms._pyop(r[2])}, frozenset(), " +
                ", ".join(python_of2(p) for p in r[3]) + ")")
    if tag == "rvec":
        return f"Variable({r[1]!r}, Reals[{r[2]}])"
    if tag == "usum":
        return f"ops.sum({python_of2(r[1])})"
    if tag == "rget":
        return f"({python_of2(r[1])})[{python_of2(r[2])}]"
    return gen_terms.python_of(r)


def describe2(r):
    return gen_terms.describe(r)


from funsor.interpretations import normalize   # noqa: E402
from funsor.optimizer import apply_optimizer   # noqa: E402

INTERPS = {"eager": eager, "lazy": lazy, "reflect": reflect, "normalize": normalize}


def _tolerant_alpha_convert(self, alpha_subs):
    # (same device as fv/harness/c01.py) a Reduce over a variable its argument does not mention cannot be
    # constructed under `reflect` (Reduce._alpha_convert looks the domain up in arg.inputs: KeyError); only for the
    # SYNTAX sent to Lean the domain is taken from the reduced variable itself.
    from funsor.terms import to_funsor
    doms = {v.name: v.output for v in self.reduced_vars}
    alpha_subs = {k: to_funsor(v, doms[k]) for k, v in alpha_subs.items()}
    op, arg, reduced_vars = Funsor._alpha_convert(self, alpha_subs)
    reduced_vars = frozenset(alpha_subs.get(var.name, var) for var in reduced_vars)
    return op, arg, reduced_vars


@contextlib.contextmanager
def syntax_mode():
    from funsor.terms import Reduce
    orig = Reduce._alpha_convert
    Reduce._alpha_convert = _tolerant_alpha_convert
    try:
        with reflect:
            yield
    finally:
        Reduce._alpha_convert = orig


def build_under(name, recipe):
    with INTERPS[name]:
        return build2(recipe)


# ------------------------------------------------------------------------------------------------
# S1: tensor level
# ------------------------------------------------------------------------------------------------

def s1_descriptors(k, own):
    """All sigma-shape descriptors for input `k` of a tensor with input names `own`."""
    others = [n for n in own if n != k]
    other = others[0] if others else "b"
    out = [("none",), ("num",)]
    out += [("var", x) for x in POOL]
    out += [("slice", x) for x in POOL]
    out += [("tensor", ns) for ns in [(), ("a",), (k,), (other,), ("a", "b"), ("a", other)]]
    return out


def s1_instantiate(rng, own_sizes, desc):
    """Concrete sigma (list of (key, value-spec)) for descriptors `desc` (one per input).
    value-spec: ("num", n) | ("var", x, size) | ("slice", x, start, stop, step, dtype) |
                ("tensor", ((name, size)…), ndarray)"""
    fresh_sizes = {}
    sigma = []
    for (k, size), d in zip(own_sizes, desc):
        if d[0] == "none":
            continue
        if d[0] == "num":
            sigma.append((k, ("num", rng.randrange(size))))
        elif d[0] == "var":
            sigma.append((k, ("var", d[1], size)))
        elif d[0] == "slice":
            start = rng.randrange(size)
            stop = rng.randrange(start, size + 1) if rng.random() < 0.3 else size
            step = rng.choice([1, 1, 2, 3])
            sigma.append((k, ("slice", d[1], start, stop, step, size)))
        else:
            ins = []
            for n in d[1]:
                if n in dict(own_sizes):
                    ins.append((n, dict(own_sizes)[n]))
                else:
                    if n not in fresh_sizes:
                        fresh_sizes[n] = rng.choice([1, 2, 2, 3])
                    ins.append((n, fresh_sizes[n]))
            shape = tuple(s for _, s in ins)
            data = np.array([rng.randrange(size) for _ in range(int(np.prod(shape)) if shape else 1)],
                            dtype=np.int64).reshape(shape)
            sigma.append((k, ("tensor", tuple(ins), data)))
    return sigma


def sval_funsor(v):
    if v[0] == "num":
        return v[1]        # a python int: Funsor.__call__ / to_funsor coerce it
    if v[0] == "var":
        return v[1]        # a python str: renaming
    if v[0] == "slice":
        return Slice(v[1], v[2], v[3], v[4], v[5])
    raise ValueError(v)


def sval_inputs(v):
    if v[0] == "num":
        return []
    if v[0] == "var":
        return [(v[1], v[2])]
    if v[0] == "slice":
        return [(v[1], len(range(v[2], min(v[3], v[5]), v[4])))]
    return list(v[1])


def sval_eval(v, p):
    if v[0] == "num":
        return v[1]
    if v[0] == "var":
        return p[v[1]]
    if v[0] == "slice":
        return v[2] + v[4] * p[v[1]]
    return int(v[2][tuple(p[n] for n, _ in v[1])])


def sval_wire(v):
    if v[0] == "num":
        return ["num", v[1]]
    if v[0] == "var":
        return ["var", Q(v[1]), v[2]]
    if v[0] == "slice":
        return ["slice", Q(v[1]), v[2], min(v[3], v[5]), v[4]]
    return ["tensor", [[Q(n), s] for n, s in v[1]], [int(x) for x in v[2].reshape(-1)]]


def sval_term_wire(v, size):
    """The value as a Term on the wire (for the shared `denote`)."""
    if v[0] == "num":
        return ["num", v[1], size]
    if v[0] == "var":
        return ["var", Q(v[1]), ["bint", v[2]]]
    if v[0] == "slice":
        return ["slice", Q(v[1]), v[2], min(v[3], v[5]), v[4], v[5]]
    return ["tensor", [[Q(n), s] for n, s in v[1]], ["bint", size], [int(x) for x in v[2].reshape(-1)]]


def sval_python(v, size):
    if v[0] == "num":
        return repr(v[1])
    if v[0] == "var":
        return repr(v[1])
    if v[0] == "slice":
        return f"Slice({v[1]!r}, {v[2]}, {v[3]}, {v[4]}, {v[5]})"
    return (f"Tensor(np.array({v[2].tolist()}, dtype=np.int64), OrderedDict([" +
            ", ".join(f"({n!r}, Bint[{s}])" for n, s in v[1]) + f"]), {size})")


def expected_inputs(f_inputs, sigma_inputs):
    """(f.inputs minus keys) ∪ inputs of the values; None if a name gets two different sizes (ill-typed)."""
    out = OrderedDict()
    keys = set(k for k, _ in sigma_inputs)
    for n, s in f_inputs:
        if n not in keys:
            out[n] = s
    for k, ins in sigma_inputs:
        for n, s in ins:
            if out.setdefault(n, s) != s:
                return None
    return out


def s1_oracle(data, own_sizes, ev_shape, sigma, ins):
    """numpy oracle: value table over `ins` (sorted (name,size)) + event shape; None if an index is out of range."""
    sig = dict(sigma)
    out = np.zeros(tuple(s for _, s in ins) + tuple(ev_shape), dtype=data.dtype)
    for pt in itertools.product(*[range(s) for _, s in ins]):
        p = dict(zip([n for n, _ in ins], pt))
        idx = []
        for k, size in own_sizes:
            i = sval_eval(sig[k], p) if k in sig else p[k]
            if not (0 <= i < size):
                return None
            idx.append(i)
        out[pt] = data[tuple(idx)]
    return out


def s1_python(own_sizes, ev_shape, data, sigma, lazy_pair=None, ins=(), oracle=None):
    dt = "np.float64"
    sizes = dict(own_sizes)
    sig = ", ".join(f"{k!r}: {sval_python(v, sizes[k])}" for k, v in sigma)
    if lazy_pair is None:
        build = (f"t = Tensor(np.array({data.tolist()}, dtype={dt}), OrderedDict([" +
                 ", ".join(f"({n!r}, Bint[{s}])" for n, s in own_sizes) + "]))\n")
    else:
        (ins1, d1), (ins2, d2), how = lazy_pair
        build = (f"s = Tensor(np.array({d1.tolist()}, dtype={dt}), OrderedDict([" +
                 ", ".join(f"({n!r}, Bint[{s}])" for n, s in ins1) + "]))\n" +
                 f"u = Tensor(np.array({d2.tolist()}, dtype={dt}), OrderedDict([" +
                 ", ".join(f"({n!r}, Bint[{s}])" for n, s in ins2) + "]))\n" +
                 f"with {how}:\n    t = s + u\n")
    return (PY_HEADER + build + f"CALL = lambda: t(**{{{sig}}})\n" + py_footer(ins, oracle))


def table_of(r, ins, ev_ndim=None):
    """Implementation result -> ndarray over ins (+event); raises KeyError/ValueError on foreign / mis-sized inputs;
    None if lazy."""
    return futil.table(r, list(ins))


def same_table(a, b):
    if a is None or b is None or a.shape != b.shape:
        return False
    return bool(np.array_equal(a, b))


def s1_cases(rng, tier, volume=1.0):
    """Yield (own_sizes, ev_shape, desc) exhaustively over descriptors for a set of size patterns."""
    pats = []
    for n in (1, 2, 3):
        allp = list(itertools.product([1, 2, 3], repeat=n))
        if n == 1:
            chosen = allp
        elif n == 2:
            chosen = allp if tier == "thorough" else [(2, 2), (2, 3), (3, 2)] + rng.sample(allp, 1)
        else:
            k = 8 if tier == "thorough" else 2
            chosen = [(2, 2, 2)] + rng.sample([p for p in allp if p != (2, 2, 2)], int(k * volume) - 1 if k * volume > 1 else 0)
        for p in chosen:
            pats.append(p)
    for sizes in pats:
        own = POOL[:len(sizes)]
        own_sizes = list(zip(own, sizes))
        ev_shape = (2,) if rng.random() < 0.25 else ()
        for desc in itertools.product(*[s1_descriptors(k, own) for k in own]):
            yield own_sizes, ev_shape, desc


def run_s1(ctx, use_lean=True, volume=1.0):
    rng = ctx.rng
    reqs, meta = [], []
    n_cases = 0
    for own_sizes, ev_shape, desc in s1_cases(rng, ctx.tier, volume):
        if all(d[0] == "none" for d in desc):
            continue
        n_cases += 1
        sizes = dict(own_sizes)
        shape = tuple(s for _, s in own_sizes) + ev_shape
        data = np.array([rng.choice([-2, -1, 0, 1, 2, 3, 4, 5]) for _ in range(int(np.prod(shape)))],
                        dtype=np.float64).reshape(shape)
        sigma = s1_instantiate(rng, own_sizes, desc)
        sig_ins = [(k, sval_inputs(v)) for k, v in sigma]
        exp = expected_inputs(own_sizes, sig_ins)
        kinds = "+".join(sorted(set(d[0] for d in desc)))
        if exp is None:
            ctx.count("S1:ill-typed-sizes")
            # the implementation may do anything here (usually raises); not in the property's domain
            continue
        ins = sorted(exp.items())
        oracle = s1_oracle(data, own_sizes, ev_shape, sigma, ins)
        if oracle is None:
            ctx.count("S1:ill-typed-range")
            continue
        # ---- implementation: plain tensor
        variants = [("tensor", None)]
        # ---- and a lazy binary s + u over the same inputs, substituted under eager
        if len(own_sizes) >= 2 and not ev_shape and rng.random() < 0.5:
            cut = rng.randrange(1, len(own_sizes) + 1)
            ins1 = own_sizes[:cut]
            ins2 = own_sizes[len(own_sizes) - max(1, len(own_sizes) - cut + rng.randrange(0, 2)):]
            d1 = np.array([rng.choice([0, 1, 2, 3]) for _ in range(int(np.prod([s for _, s in ins1])))],
                          dtype=np.float64).reshape(tuple(s for _, s in ins1))
            # choose d2 so that s + u == data:  only possible when data splits; instead define data := s + u
            d2 = np.array([rng.choice([0, 10, 20, 30]) for _ in range(int(np.prod([s for _, s in ins2])))],
                          dtype=np.float64).reshape(tuple(s for _, s in ins2))
            variants.append(("lazybin", (ins1, d1, ins2, d2, rng.choice(["lazy", "reflect"]))))
        for vname, extra in variants:
            if vname == "tensor":
                t = Tensor(data, OrderedDict((n, Bint[s]) for n, s in own_sizes))
                the_data, the_oracle, lazy_pair = data, oracle, None
            else:
                ins1, d1, ins2, d2, how = extra
                s_ = Tensor(d1, OrderedDict((n, Bint[s]) for n, s in ins1))
                u_ = Tensor(d2, OrderedDict((n, Bint[s]) for n, s in ins2))
                with INTERPS[how]:
                    t = s_ + u_
                if set(t.inputs) != set(sizes):
                    continue
                # dense data of s + u in own order
                full = np.zeros(tuple(s for _, s in own_sizes))
                for pt in itertools.product(*[range(s) for _, s in own_sizes]):
                    p = dict(zip([n for n, _ in own_sizes], pt))
                    full[pt] = d1[tuple(p[n] for n, _ in ins1)] + d2[tuple(p[n] for n, _ in ins2)]
                the_data = full
                the_oracle = s1_oracle(full, own_sizes, (), sigma, ins)
                lazy_pair = ((ins1, d1), (ins2, d2), how)
            kw = {k: sval_funsor_typed(v, sizes[k]) for k, v in sigma}
            try:
                r = t(**kw)
            except DECLINE as e:
                ctx.count(f"S1:{vname}:declined:{type(e).__name__}")
                ctx.case()
                continue
            py = s1_python(own_sizes, ev_shape, the_data, sigma, lazy_pair, ins, the_oracle)
            wit = {"stream": "S1", "variant": vname, "inputs": own_sizes, "event_shape": list(ev_shape),
                   "data": the_data.tolist(), "sigma": [(k, describe_sval(v)) for k, v in sigma]}
            # inputs clause (evaluated result: subset of the expected inputs, same sizes)
            bad_in = [n for n, d in r.inputs.items() if n not in exp or exp[n] != d.size]
            if bad_in:
                ctx.fail("input", "C04.S1.inputs", witness=wit, expected=f"inputs ⊆ {dict(exp)}",
                         got=str({k: str(v) for k, v in r.inputs.items()}), python=py)
                continue
            if tuple(r.output.shape) != tuple(ev_shape if vname == "tensor" else ()):
                ctx.fail("input", "C04.S1.output-shape", witness=wit, expected=f"output shape {tuple(ev_shape)}",
                         got=str(r.output), python=py)
                continue
            if not isinstance(r, (Tensor, Number)):
                with eager:
                    r2 = reinterpret(r)
                if not isinstance(r2, (Tensor, Number)):
                    ctx.count(f"S1:{vname}:lazy-result")
                    ctx.case()
                    continue
                r = r2
            try:
                impl = table_of(r, ins)
            except (KeyError, ValueError) as e:
                ctx.fail("input", "C04.S1.inputs", witness=wit, expected=f"inputs ⊆ {dict(exp)}", got=str(e), python=py)
                continue
            if not same_table(impl, the_oracle):
                ctx.fail("input", "C04.S1.value", witness=wit,
                         expected={"inputs": ins, "table": the_oracle.tolist()},
                         got={"inputs": [(k, v.size) for k, v in r.inputs.items()], "table": impl.tolist()}, python=py)
                continue
            ctx.count(f"S1:{vname}:ok")
            ctx.count(f"S1:kinds:{kinds}")
            nontrivial = len(sigma) >= 1 and any(v[0] != "num" for _, v in sigma)
            ctx.case(sample={"stream": "S1", "inputs": own_sizes, "sigma": [(k, describe_sval(v)) for k, v in sigma]}
                     if n_cases % 997 == 0 else None,
                     nontrivial_key=("S1", vname, tuple(own_sizes), ev_shape, desc) if nontrivial else None)
            if use_lean and vname == "tensor":
                reqs.append("C04 ntsubs head " + sx([[Q(n), s] for n, s in own_sizes]) + " " + sx(list(ev_shape)) + " " +
                            sx([float(x) for x in data.reshape(-1)]) + " " +
                            sx([[Q(k), sval_wire(v)] for k, v in sigma]))
                meta.append(("model", wit, r, ins, oracle, py))
                if n_cases % 4 == 0:
                    term = ["subs", ["tensor", [[Q(n), s] for n, s in own_sizes], ["real"] + list(ev_shape),
                                     [float(x) for x in data.reshape(-1)]],
                            [[Q(k), sval_term_wire(v, sizes[k])] for k, v in sigma]]
                    reqs.append(f"C04 denote {sx(term)} {sx(ser.ins_wire(ins))} ()")
                    meta.append(("spec", wit, r, ins, oracle, py))
    if not reqs:
        return
    answers = ctx.driver.ask(reqs)
    for (kind, wit, r, ins, oracle, py), ans in zip(meta, answers):
        if kind == "spec":
            tab = ser.parse_table(ans)
            if tab is None or any(c is None for c in tab):
                ctx.fail("correspondence", "C04.S1.lean-denote-vs-oracle", witness=wit, expected="defined table", got=ans[:300])
                continue
            flat = [x for _, vals in tab for x in vals]
            want = [futil.exact(x) for x in oracle.reshape(-1)]
            if flat != want:
                ctx.fail("correspondence", "C04.S1.lean-denote-vs-oracle", witness=wit, expected=str(want)[:400], got=str(flat)[:400])
            else:
                ctx.count("S1:lean-denote-agrees")
            continue
        if not ans.startswith("ok "):
            ctx.infra_errors.append(f"driver: {ans} for {wit}")
            continue
        _, m_ins, m_shape, m_data = parse_sx(ans[3:])
        m_ins = [(str(n), int(s)) for n, s in m_ins]
        m_shape = [int(s) for s in m_shape]
        arr = np.array([float(Fraction(x)) for x in m_data], dtype=np.float64).reshape(
            tuple(s for _, s in m_ins) + tuple(m_shape))
        # model vs oracle (semantic): permute to sorted order with broadcasting over missing names
        try:
            mt = futil.table(Tensor(arr, OrderedDict((n, Bint[s]) for n, s in m_ins)), list(ins))
        except (KeyError, ValueError, AssertionError) as e:
            mt = None
        if not same_table(mt, oracle):
            ctx.fail("correspondence", "C04.S1.model-vs-oracle (tensor_subs_sem echo)", witness=wit,
                     expected=str(oracle.tolist())[:400], got=ans[:400], python=py)
            continue
        # fidelity: inputs order and data layout identical to the implementation's
        if isinstance(r, Tensor) and [(k, v.size) for k, v in r.inputs.items()] == m_ins and \
                np.array_equal(np.asarray(r.data), arr):
            ctx.count("S1:model-layout-identical")
        else:
            ctx.count("S1:model-layout-differs")


def sval_funsor_typed(v, size):
    if v[0] == "tensor":
        return Tensor(v[2], OrderedDict((n, Bint[s]) for n, s in v[1]), size)
    return sval_funsor(v)


def describe_sval(v):
    if v[0] == "tensor":
        return ["tensor", list(v[1]), v[2].tolist()]
    return list(v)


# ------------------------------------------------------------------------------------------------
# S2: term level
# ------------------------------------------------------------------------------------------------

def gen_ctx(rng):
    n = rng.choice([1, 2, 2, 3, 3])
    ctx = OrderedDict()
    for nm in POOL[:n]:
        ctx[nm] = rng.choice([1, 2, 2, 3, 3])
    return ctx


def recipe_ops(r, acc=None):
    """(set of op names, number of reduce nodes) occurring in a recipe."""
    acc = acc if acc is not None else [set(), 0]
    if isinstance(r, tuple) and r and isinstance(r[0], str) and r[0] != "tensor":
        if r[0] in ("binary", "bin2", "unary", "reduce"):
            acc[0].add(r[1])
        if r[0] == "contr2":
            acc[0].update((r[1], r[2]))
        if r[0] == "reduce":
            acc[1] += 1
        for x in r:
            if isinstance(x, tuple):
                recipe_ops(x, acc)
    elif isinstance(r, tuple):
        for x in r:
            if isinstance(x, tuple):
                recipe_ops(x, acc)
    return acc


def normalize_route_clean(recipes):
    """Regions of two OPEN findings about the normalize / optimizer interpretations themselves (not about substitution):
    KF-minmax-mul-negative ((max,mul)/(min,mul) distribute only on non-negative values; `sub`/`neg` are rewritten to
    a multiplication by -1) and KF-shared-binder-unfold (optimizer on products of reductions).  The normalize /
    apply_optimizer routes of the clean stream stay out of them; the other routes still run those cases."""
    opsset, nred = set(), 0
    for r in recipes:
        o, n = recipe_ops(r)
        opsset |= o
        nred += n
    if opsset & {"min", "max"} and opsset & {"mul", "sub", "neg"}:
        return False, "minmax-with-mul"
    if nred >= 2:
        return False, "several-reductions"
    return True, ""


def has_absent_reduce(r):
    if not isinstance(r, tuple) or not r or not isinstance(r[0], str) or r[0] == "tensor":
        return False
    if r[0] == "reduce" and r[4]:
        return True
    return any(has_absent_reduce(x) or (isinstance(x, tuple) and any(has_absent_reduce(y) for y in x if isinstance(y, tuple)))
               for x in r if isinstance(x, tuple))


def strip_absent(r):
    """Reductions over variables the argument does not mention cannot be built under `reflect`
    (Reduce._alpha_convert raises KeyError): outside C04's subject, dropped from the recipes."""
    if not isinstance(r, tuple) or not r or not isinstance(r[0], str):
        return r
    if r[0] == "tensor":
        return r
    if r[0] == "reduce":
        _, op, a, rv, absent = r
        a = strip_absent(a)
        if not rv:
            return a
        return ("reduce", op, a, rv, ())
    if r[0] == "subs":
        return ("subs", strip_absent(r[1]), tuple((k, strip_absent(v)) for k, v in r[2]))
    if r[0] in ("stack", "cat"):
        return (r[0], r[1], tuple(strip_absent(p) for p in r[2]))
    return tuple(strip_absent(x) if isinstance(x, tuple) else x for x in r)


def gen_f(rng, c):
    depth = rng.choice([0, 1, 1, 2, 2, 3, 3])
    recipe, free = gen_terms.gen_expr(rng, c, depth, "real")
    # (reductions over variables the argument does not mention are kept: the syntax for Lean is built with the
    #  tolerant Reduce._alpha_convert of syntax_mode(); strip_absent is no longer applied)
    reals = []
    if rng.random() < 0.15 and c:
        # a real ARRAY-valued input v: Reals[n], read through a sum over its event dimension or through indexing
        # by an integer-valued expression (Tensors themselves only have Bint inputs: tensor.py:143 asserts
        # `d.dtype == size` per input and :294 `assert not domain.shape`, so real arrays enter only via variables)
        n = rng.choice([2, 3])
        if rng.random() < 0.5:
            arr = ("usum", ("rvec", "v", n))
        else:
            idx, _ = gen_terms.gen_leaf(rng, c, n)
            arr = ("rget", ("rvec", "v", n), idx)
        recipe = ("bin2", rng.choice(["add", "mul", "max"]), recipe, arr)
        reals.append("v")
    if rng.random() < 0.3:
        for x in rng.sample(["x", "y"], rng.choice([1, 1, 2])):
            recipe = ("bin2", rng.choice(["add", "mul", "sub", "max"]), recipe, ("rvar", x))
            reals.append(x)
    return recipe, reals


def gen_int_value(rng, c, size, pool_sizes, allow_expr=True):
    """A value recipe for a Bint[size] input.  pool_sizes: name -> size for every name already typed."""
    r = rng.random()
    if r < 0.15:
        return ("num", rng.randrange(size), size), "num"
    if r < 0.45:
        # variable: fresh / colliding / swapped / repeated / chained — any pool name whose size is compatible
        cands = [n for n in POOL if pool_sizes.get(n, size) == size]
        n = rng.choice(cands) if cands else "a"
        pool_sizes.setdefault(n, size)
        return ("var", n, size), "var"
    if r < 0.6:
        start = rng.randrange(size)
        step = rng.choice([1, 1, 2])
        stop = size if rng.random() < 0.7 else rng.randrange(start, size + 1)
        length = len(range(start, stop, step))
        cands = [n for n in POOL if pool_sizes.get(n, length) == length]
        if length > 0 and cands:
            n = rng.choice(cands)
            pool_sizes.setdefault(n, length)
            return ("slice", n, start, stop, step, size), "slice"
        return ("num", rng.randrange(size), size), "num"
    if r < 0.85 or not allow_expr:
        names = [n for n in POOL if rng.random() < 0.35]
        for n in names:
            pool_sizes.setdefault(n, rng.choice([1, 2, 3]))
        c2 = OrderedDict((n, pool_sizes[n]) for n in names)
        return gen_terms.gen_tensor(rng, c2, size, names=names), "tensor"
    # integer-valued lazy expression: min/max of a variable and an index tensor, or a Stack of leaves
    if rng.random() < 0.6:
        cands = [n for n in POOL if pool_sizes.get(n, size) == size]
        n = rng.choice(cands) if cands else "a"
        pool_sizes.setdefault(n, size)
        names = [m for m in POOL if rng.random() < 0.3]
        for m in names:
            pool_sizes.setdefault(m, rng.choice([1, 2, 3]))
        c2 = OrderedDict((m, pool_sizes[m]) for m in names)
        t = gen_terms.gen_tensor(rng, c2, size, names=names)
        return ("binary", rng.choice(["min", "max"]), ("var", n, size), t), "int-expr"
    c2 = OrderedDict((n, s) for n, s in pool_sizes.items())
    if not c2:
        return ("num", rng.randrange(size), size), "num"
    v, _ = gen_terms.gen_expr(rng, c2, 1, size)
    return v, "int-expr"


def gen_real_value(rng, c, pool_sizes):
    r = rng.random()
    if r < 0.3:
        return ("num", float(rng.choice([-1, 0, 0.5, 2])), "real"), "real-num"
    if r < 0.6:
        return ("bin2", rng.choice(["add", "mul"]), ("rvar", rng.choice(["w", "x", "y"])),
                ("num", float(rng.choice([1, 2, -1])), "real")), "real-expr"
    c2 = OrderedDict((n, s) for n, s in pool_sizes.items()) or OrderedDict(a=2)
    for n, s in c2.items():
        pool_sizes.setdefault(n, s)
    v, _ = gen_terms.gen_expr(rng, c2, rng.choice([0, 1]), "real")
    return v, "real-expr"


REAL_POINTS = {"w": [0.5, -1.0], "x": [2.0, -0.5], "y": [1.5, 0.0]}

def cat_capture_region(f_syn, sig_syn, loose=False):
    """Some Cat node of f has an input k (other than its own name) that sigma substitutes by a value mentioning the
    Cat's own name.  The rebuilt Cat is then ill-formed (`name in part.inputs`): Cat.__init__ asserts that, and so do
    the eager Cat rules since e7d35f5 (before, they merged the two axes: found by this harness)."""
    seen = set()
    stack = [f_syn]
    while stack:
        t = stack.pop()
        if id(t) in seen:
            continue
        seen.add(id(t))
        if isinstance(t, Cat):
            for k, v in sig_syn:
                if k != t.name and (loose or k in t.inputs) and t.name in v.inputs:
                    return True
        if isinstance(t, Funsor):
            for c in getattr(t, "_ast_values", ()):
                if isinstance(c, Funsor):
                    stack.append(c)
                elif isinstance(c, tuple):
                    for c2 in c:
                        if isinstance(c2, Funsor):
                            stack.append(c2)
                        elif isinstance(c2, tuple):
                            stack.extend(c3 for c3 in c2 if isinstance(c3, Funsor))
    return False


def real_envs(names):
    """names: [(name, shape)] (or bare names = scalars) -> up to 4 sample environments."""
    names = sorted((n, ()) if isinstance(n, str) else (n[0], tuple(n[1])) for n in names)
    if not names:
        return [{}]

    def pts(n, sh):
        base = REAL_POINTS.get(n, [0.75, -1.25])
        if not sh:
            return base
        return [np.array([b + 0.5 * i for i in range(sh[0])]) for b in base]
    return [dict(zip([n for n, _ in names], vals)) for vals in itertools.product(*[pts(n, sh) for n, sh in names])][:4]


def syntax_inputs(f):
    ints = [(k, int(v.size)) for k, v in f.inputs.items() if v.dtype != "real"]
    reals = [k for k, v in f.inputs.items() if v.dtype == "real"]
    bad = [k for k, v in f.inputs.items() if v.shape and (v.dtype != "real" or len(v.shape) > 1)]
    return ints, reals, bad


def value_over(r, ins, renv):
    """Evaluate an implementation result to (shape, values) cells over `ins` with real inputs bound by renv.
    Returns ("value", cells) | ("lazy", term) | raises KeyError/ValueError for foreign inputs."""
    r0 = r
    try:
        if renv:
            sub = {k: (Tensor(np.asarray(v, dtype=np.float64)) if isinstance(v, np.ndarray) else Number(v))
                   for k, v in renv.items() if k in r.inputs}
            if sub:
                r = r(**sub)
        if not isinstance(r, (Tensor, Number)):
            with eager:
                r2 = reinterpret(r)
            if isinstance(r2, (Tensor, Number)):
                r = r2
            else:
                return ("lazy", r)
    except DECLINE:
        # evaluating the (lazy) result further declined — that is not the substitution's business: fall back to
        # the meaning of the returned term itself (Lean `denote` of its wire form)
        return ("lazy", r0)
    return ("value", ser.impl_values(r, ins))


def run_s2(ctx, n, use_lean=True, cases=None):
    """cases: optional list of (recipe, sigma, interp) — given (f, sigma) pairs (stream S8) instead of generated ones."""
    rng = ctx.rng
    reqs, meta = [], []
    given = list(cases) if cases is not None else None
    for case_no in range(len(given) if given is not None else n):
        if given is not None:
            recipe, sigma_given, interp_given = given[case_no]
            c, reals = None, []
            ctx.count("S8:case")
        else:
            c = gen_ctx(rng)
            recipe, reals = gen_f(rng, c)
        try:
            with syntax_mode():
                f_syn = build2(recipe)
            f_wire = ser.to_wire(f_syn)
        except ser.Unsupported as e:
            ctx.count(f"S2:beyond-model:{str(e)[:30]}")
            continue
        except DECLINE as e:
            ctx.count(f"S2:ill-formed-f:{type(e).__name__}")
            continue
        f_ints, f_reals, bad = syntax_inputs(f_syn)
        if bad:
            ctx.count("S2:beyond-model:array-input")
            continue
        if has_absent_reduce(recipe):
            ctx.count("S2:f-has-reduce-over-absent-var")
        if not f_ints and not f_reals:
            ctx.count("S2:closed-f")
            continue
        # ---- sigma
        pool_sizes = dict(f_ints)
        if given is not None:
            sigma, kinds, foreign = list(sigma_given), ["dup-case"] * len(sigma_given), []
        else:
            keys = [k for k, _ in f_ints if rng.random() < 0.6]
            if not keys and f_ints:
                keys = [rng.choice(f_ints)[0]]
            rkeys = [k for k in f_reals if rng.random() < 0.6]
            # names that survive keep their size; substituted keys' names become available again only if
            # re-introduced with the same size (keeps the substitution well-typed most of the time)
            sigma, kinds = [], []
            for k in keys:
                v, kind = gen_int_value(rng, c, dict(f_ints)[k], pool_sizes)
                sigma.append((k, v))
                kinds.append(kind)
            for k in rkeys:
                if f_syn.inputs[k].shape:
                    n_ = int(f_syn.inputs[k].shape[0])
                    if rng.random() < 0.3:
                        v, kind = ("rvec", rng.choice(["u", "v"]), n_), "real-array-rename"
                    else:
                        names_ = [nm for nm in POOL if rng.random() < 0.35]
                        for nm in names_:
                            pool_sizes.setdefault(nm, rng.choice([1, 2, 3]))
                        c2_ = OrderedDict((nm, pool_sizes[nm]) for nm in names_)
                        v, kind = gen_terms.gen_tensor(rng, c2_, "real", names=names_, event_shape=(n_,)), "real-array-tensor"
                    sigma.append((k, v))
                    kinds.append(kind)
                    continue
                v, kind = gen_real_value(rng, c, pool_sizes)
                sigma.append((k, v))
                kinds.append(kind)
            if not sigma:
                continue
            rng.shuffle(sigma)
            foreign = []
            if rng.random() < 0.3:
                fk = rng.choice([n_ for n_ in ["zz", "a", "b", "k"] if n_ not in f_syn.inputs] or ["zz"])
                if fk not in f_syn.inputs:
                    foreign.append((fk, ("num", 0, 2) if rng.random() < 0.5 else ("var", "i", 2)))
        try:
            with syntax_mode():
                sig_syn = [(k, build2(v)) for k, v in sigma]
            sig_wire = [[Q(k), ser.to_wire(v)] for k, v in sig_syn]
        except ser.Unsupported as e:
            ctx.count(f"S2:beyond-model:{str(e)[:30]}")
            continue
        except DECLINE as e:
            ctx.count(f"S2:ill-formed-sigma:{type(e).__name__}")
            continue
        # expected inputs
        exp = OrderedDict((k, d) for k, d in f_syn.inputs.items() if k not in dict(sigma))
        ill = False
        for k, v in sig_syn:
            if v.output != f_syn.inputs[k]:
                ill = True
            for n_, d in v.inputs.items():
                if exp.setdefault(n_, d) != d:
                    ill = True
        if ill:
            ctx.count("S2:ill-typed")
            continue
        if any(d.shape and (d.dtype != "real" or len(d.shape) > 1) for d in exp.values()):
            ctx.count("S2:beyond-model:array-input")
            continue
        ins = sorted((k, int(d.size)) for k, d in exp.items() if d.dtype != "real")
        renvs = real_envs([(k, tuple(d.shape)) for k, d in exp.items() if d.dtype == "real"])
        if int(np.prod([s for _, s in ins] or [1])) > 400:
            ctx.count("S2:too-big")
            continue
        interp = interp_given if given is not None else rng.choice(["eager", "eager", "lazy", "reflect", "normalize"])
        # (both reinterpreters = both settings of FUNSOR_USE_TCO, which only selects between these two functions)
        mode = {"eager": "call", "lazy": rng.choice(["call", "call-under-lazy", "call-under-normalize"]),
                "reflect": rng.choice(["Subs+stack_reinterpret", "Subs+recursion_reinterpret", "Subs-reflect+apply_optimizer",
                                       "call-under-normalize"]),
                "normalize": rng.choice(["call-under-normalize", "call-under-normalize+reinterpret"])}[interp]
        if interp == "normalize" or "normalize" in mode or "optimizer" in mode:
            clean, why = normalize_route_clean([recipe] + [v for _, v in sigma])
            if not clean:
                ctx.count(f"S2:normalize-route-avoided:{why}")
                interp = "lazy" if interp == "normalize" else interp
                mode = "call" if interp == "lazy" else "Subs+stack_reinterpret"
        if cat_capture_region(f_syn, sig_syn):
            # a value substituted below a lazily built Cat mentions the Cat's own name: funsor must decline
            # (Cat.__init__'s name-clash assertion, also made by the eager Cat rules since e7d35f5) or be right;
            # part of the clean stream, counted to measure that the generator reaches it
            ctx.count("S2:cat-own-name-reintroduced")
        py = s2_python(recipe, sigma, foreign, interp, mode)
        wit = {"stream": "S2", "f": describe2(recipe), "sigma": [(k, describe2(v)) for k, v in sigma],
               "foreign": [(k, describe2(v)) for k, v in foreign], "built_under": interp, "mode": mode}
        status, r, lazy_inputs = s2_run_impl(recipe, sigma, foreign, interp, mode)
        if status == "declined":
            ctx.count(f"S2:{interp}:declined:{r}")
        # the lazily built substitution has EXACTLY the expected inputs
        if lazy_inputs is not None:
            if dict(lazy_inputs) != dict(exp):
                ctx.fail("input", "C04.S2.lazy-inputs", witness=wit, expected=str({k: str(v) for k, v in exp.items()}),
                         got=str({k: str(v) for k, v in lazy_inputs.items()}),
                         python=py + f"with reflect:\n    s = Subs(f, tuple({{{', '.join(f'{k!r}: {python_of2(v)}' for k, v in sigma + foreign)}}}.items()))\n"
                                     f"print(s.inputs)\nFAILS = {{k: str(v) for k, v in s.inputs.items()}} != {({k: str(v) for k, v in exp.items()})!r}\n")
                continue
        spec_term = ["subs", f_wire, sig_wire]
        for renv in renvs:
            reqs.append(f"C04 denote {sx(spec_term)} {sx(ser.ins_wire(ins))} {sx(ser.env_wire(renv))}")
            meta.append(("spec", wit, py, status, r, ins, renv, exp, kinds, interp, case_no))
        if rng.random() < 0.5:
            reqs.append(f"C04 subst {sx(f_wire)} {sx(sig_wire)} {sx(ser.ins_wire(ins))} {sx(ser.env_wire(renvs[0]))}")
            meta.append(("subst", wit, py, None, None, ins, renvs[0], exp, kinds, interp, case_no))
        # ---- chained vs fused: f(a)(b) with b over the inputs of f(a)
        if status == "value" and rng.random() < 0.35:
            s2_chain(ctx, rng, recipe, sigma, interp, f_wire, sig_wire, exp, pool_sizes, reqs, meta, wit, f_syn)
    if not reqs:
        return
    answers = ctx.driver.ask(reqs) if use_lean else []
    last_spec = {}
    for m, ans in zip(meta, answers):
        kind = m[0]
        if kind == "spec":
            _, wit, py, status, r, ins, renv, exp, kinds, interp, case_no = m
            model = ser.parse_table(ans)
            if model is None:
                ctx.infra_errors.append(f"driver: {ans[:200]} for {wit}")
                continue
            last_spec[(case_no, repr(sorted((k, np.asarray(v).tolist()) for k, v in renv.items())))] = model
            if any(c is None for c in model):
                ctx.count("S2:spec-undefined")
                ctx.case()
                continue
            if status != "value":
                ctx.case()
                continue
            s2_compare(ctx, wit, py, r, ins, renv, exp, model, kinds, interp)
        elif kind == "subst":
            _, wit, py, _, _, ins, renv, exp, kinds, interp, case_no = m
            if not ans.startswith("ok "):
                ctx.infra_errors.append(f"driver: {ans[:200]} for {wit}")
                continue
            bf, rest = ans[3:].split(" ", 1)
            tab = ser.parse_table("ok " + rest)
            spec = last_spec.get((case_no, repr(sorted((k, np.asarray(v).tolist()) for k, v in renv.items()))))
            if bf != "true":
                ctx.count("S2:substitute:boundFresh-false")
                continue
            if spec is None or any(c is None for c in spec):
                ctx.count("S2:substitute:spec-undefined")
                continue
            if tab != spec and not _tables_same(tab, spec):
                ctx.fail("correspondence", "C04.S2.lean-substitute-vs-denote (substitute_sound echo)", witness=wit,
                         expected=str(spec)[:300], got=str(tab)[:300])
            else:
                ctx.count("S2:substitute:agrees")
        elif kind == "chain":
            _, wit, py, r_chain, r_fused, ins, renv, exp2 = m
            model = ser.parse_table(ans)
            if model is None:
                ctx.infra_errors.append(f"driver: {ans[:200]} for {wit}")
                continue
            if any(c is None for c in model):
                ctx.count("S2:chain:spec-undefined")
                continue
            ok_all = True
            for label, r in (("chained", r_chain), ("fused", r_fused)):
                if r is None:
                    continue
                try:
                    st, cells = value_over(r, ins, renv)
                except (KeyError, ValueError) as e:
                    ctx.fail("input", f"C04.S2.chain-{label}-inputs", witness=wit, expected=str(ins), got=str(e),
                             python=py + f"CALL = {label}\n" + py_footer(ins, cells_to_array(model, ins), renv))
                    ok_all = False
                    continue
                except DECLINE as e:
                    ctx.count(f"S2:chain:{label}:eval-declined")
                    continue
                if st != "value" or cells is None:
                    ctx.count(f"S2:chain:{label}:lazy")
                    continue
                ok, bad = tables_match(cells, model)
                if not ok:
                    ctx.fail("input", f"C04.S2.chain-{label}-value", witness=wit,
                             expected=str(model[bad] if bad is not None and bad >= 0 else model)[:400],
                             got=str(cells[bad] if bad is not None and bad >= 0 else cells)[:400],
                             python=py + f"CALL = {label}\n" + py_footer(ins, cells_to_array(model, ins), renv))
                    ok_all = False
            if ok_all:
                ctx.count("S2:chain:ok")
                ctx.case(nontrivial_key=("chain", repr(wit)))


def tables_match(cells, model):
    """Exact comparison; values beyond 2^50 in magnitude (products over absent variables reach 9^27) are not exactly
    representable in float64, the implementation's carrier: those tables are compared to 1e-12 relative instead."""
    ok, bad = ser.tables_equal(cells, model)
    if ok:
        return ok, bad
    big = any(isinstance(x, Fraction) and abs(x) > 2 ** 50 for c in model if c is not None for x in c[1])
    if big:
        return ser.tables_equal(cells, model, 1e-12)
    return ok, bad


def _tables_same(a, b):
    if a is None or b is None or len(a) != len(b):
        return False
    for x, y in zip(a, b):
        if x is None or y is None:
            return False
        if list(x[0]) != list(y[0]) or len(x[1]) != len(y[1]):
            return False
        if not all(futil.same_num(p, q) for p, q in zip(x[1], y[1])):
            return False
    return True


def s2_run_impl(recipe, sigma, foreign, interp, mode):
    """-> (status, result | reason, inputs of the lazily built Subs or None)"""
    lazy_inputs = None
    try:
        f = build_under(interp, recipe)
        if mode.startswith("Subs+"):
            with reflect:
                vals = [(k, build2(v)) for k, v in sigma + foreign]
                s = Subs(f, tuple(vals))
            lazy_inputs = OrderedDict(s.inputs)
            from funsor.interpreter import stack_reinterpret, recursion_reinterpret
            rein = {"Subs+reinterpret": reinterpret, "Subs+stack_reinterpret": stack_reinterpret,
                    "Subs+recursion_reinterpret": recursion_reinterpret}[mode]
            with eager:
                r = rein(s)
        elif mode == "Subs-reflect+apply_optimizer":
            with reflect:
                vals = [(k, build2(v)) for k, v in sigma + foreign]
                s = Subs(f, tuple(vals))
            lazy_inputs = OrderedDict(s.inputs)
            r = apply_optimizer(s)
        elif mode == "call-under-lazy":
            with lazy:
                kw = {k: build2(v) for k, v in sigma + foreign}
                r = f(**kw)
        elif mode in ("call-under-normalize", "call-under-normalize+reinterpret"):
            # the normalize rules for Subs (cnf.py: do_fresh_subs, distribute_subs_contraction, normalize_fuse_subs)
            with normalize:
                kw = {k: build2(v) for k, v in sigma + foreign}
                r = f(**kw)
            if mode.endswith("+reinterpret"):
                with eager:
                    r = reinterpret(r)
        else:
            kw = {k: build_under(interp if interp != "reflect" else "eager", v) for k, v in sigma + foreign}
            r = f(**kw)
    except DECLINE as e:
        return "declined", type(e).__name__, lazy_inputs
    return "value", r, lazy_inputs


def s2_python(recipe, sigma, foreign, interp, mode):
    sig = ", ".join(f"{k!r}: {python_of2(v)}" for k, v in sigma + foreign)
    src = PY_HEADER + f"with {interp}:\n    f = {python_of2(recipe)}\n"
    if mode.startswith("Subs+"):
        src += ("from funsor.interpreter import stack_reinterpret, recursion_reinterpret\n"
                f"def CALL():\n    with reflect:\n        s = Subs(f, tuple({{{sig}}}.items()))\n    print(s.inputs)\n"
                f"    with eager:\n        return {mode[5:]}(s)\n")
    elif mode == "Subs-reflect+apply_optimizer":
        src += (f"def CALL():\n    with reflect:\n        s = Subs(f, tuple({{{sig}}}.items()))\n    print(s.inputs)\n"
                "    return apply_optimizer(s)\n")
    elif mode == "call-under-lazy":
        src += f"def CALL():\n    with lazy:\n        return f(**{{{sig}}})\n"
    elif mode.startswith("call-under-normalize"):
        src += (f"def CALL():\n    with normalize:\n        r = f(**{{{sig}}})\n" +
                ("    with eager:\n        r = reinterpret(r)\n" if mode.endswith("+reinterpret") else "") + "    return r\n")
    else:
        src += (f"def CALL():\n    with {interp if interp != 'reflect' else 'eager'}:\n        sigma = {{{sig}}}\n"
                "    return f(**sigma)\n")
    return src


def s2_compare(ctx, wit, py, r, ins, renv, exp, model, kinds, interp):
    py = py + py_footer(ins, cells_to_array(model, ins), renv)
    # inputs clause for an evaluated result: a subset of the expected inputs with the same domains …
    foreign_in = [k for k, d in r.inputs.items() if k not in exp or exp[k] != d]
    if foreign_in:
        ctx.fail("input", "C04.S2.inputs", witness=wit, expected=str({k: str(v) for k, v in exp.items()}),
                 got=str({k: str(v) for k, v in r.inputs.items()}), python=py)
        return
    try:
        st, cells = value_over(r, ins, renv)
    except (KeyError, ValueError) as e:
        ctx.fail("input", "C04.S2.inputs", witness=wit, expected=str(ins), got=str(e), python=py)
        return
    except DECLINE as e:
        ctx.count(f"S2:{interp}:eval-declined:{type(e).__name__}")
        ctx.case()
        return
    if st != "value" or cells is None:
        # a lazy result: its own meaning (Lean `denote` of the returned term) must be the specification's
        try:
            rw = ser.to_wire(cells if st == "lazy" else r)
        except ser.Unsupported:
            ctx.count(f"S2:{interp}:lazy-result-beyond-model")
            ctx.case()
            return
        ans = ctx.driver.ask1(f"C04 denote {sx(rw)} {sx(ser.ins_wire(ins))} {sx(ser.env_wire(renv))}")
        tab = ser.parse_table(ans)
        if tab is None or any(c is None for c in tab):
            ctx.count(f"S2:{interp}:lazy-result-undefined")
            ctx.case()
            return
        if not _tables_same(tab, model):
            ctx.fail("input", "C04.S2.lazy-value", witness=wit, expected=str(model)[:400], got=str(tab)[:400], python=py)
            return
        ctx.count(f"S2:{interp}:lazy-result-ok")
        ctx.case(nontrivial_key=("S2", repr(wit["f"]), repr(wit["sigma"]), interp))
        return
    # … and (values equal over the whole expected input space, the result broadcast over omitted names) means
    # an omitted input is one the value does not depend on
    ok, bad = tables_match(cells, model)
    if not ok:
        ctx.fail("input", "C04.S2.value", witness=wit,
                 expected={"inputs": ins, "real_env": renv, "cell": bad,
                           "value": str(model[bad] if bad is not None and bad >= 0 else model)[:400]},
                 got=str(cells[bad] if bad is not None and bad >= 0 else cells)[:400], python=py)
        return
    ctx.count(f"S2:{interp}:ok")
    for kd in set(kinds):
        ctx.count(f"S2:sigma-kind:{kd}")
    ctx.count(f"S2:root:{wit['f'][0]}")
    omitted = [k for k in exp if k not in r.inputs]
    if omitted:
        ctx.count("S2:result-omits-independent-input")
    ctx.case(sample={"stream": "S2", "f": str(wit["f"])[:200], "sigma": str(wit["sigma"])[:200], "built_under": interp}
             if ctx.evaluations % 400 == 0 else None,
             nontrivial_key=("S2", repr(wit["f"]), repr(wit["sigma"]), interp)
             if any(k != "num" for k in kinds) else None)


def s2_chain(ctx, rng, recipe, sigma, interp, f_wire, sig_wire, exp, pool_sizes, reqs, meta, wit0, f_syn):
    """f(a)(b) vs f(fused) vs Lean denote (subs (subs f a) b)."""
    ints = [(k, int(d.size)) for k, d in exp.items() if d.dtype != "real"]
    if not ints:
        return
    bkeys = [k for k, _ in ints if rng.random() < 0.6] or [ints[0][0]]
    ps = dict(ints)
    b = []
    for k in bkeys:
        v, _ = gen_int_value(rng, None, dict(ints)[k], ps, allow_expr=False)
        b.append((k, v))
    try:
        with syntax_mode():
            b_syn = [(k, build2(v)) for k, v in b]
        b_wire = [[Q(k), ser.to_wire(v)] for k, v in b_syn]
    except (ser.Unsupported,) + DECLINE:
        return
    if cat_capture_region(f_syn, b_syn, loose=True):
        ctx.count("S2:chain:cat-own-name-reintroduced")
    exp2 = OrderedDict((k, d) for k, d in exp.items() if k not in dict(b))
    for k, v in b_syn:
        for n_, d in v.inputs.items():
            if exp2.setdefault(n_, d) != d:
                ctx.count("S2:chain:ill-typed")
                return
    ins2 = sorted((k, int(d.size)) for k, d in exp2.items() if d.dtype != "real")
    if any(d.shape and (d.dtype != "real" or len(d.shape) > 1) for d in exp2.values()):
        return
    renvs = real_envs([(k, tuple(d.shape)) for k, d in exp2.items() if d.dtype == "real"])
    r_chain = r_fused = None
    bi = interp if interp != "reflect" else "eager"
    try:
        f = build_under(interp, recipe)
        a_kw = {k: build_under(bi, v) for k, v in sigma}
        b_kw = {k: build_under(bi, v) for k, v in b}
        r_chain = f(**a_kw)(**b_kw)
    except DECLINE as e:
        ctx.count(f"S2:chain:declined:{type(e).__name__}")
    try:
        f = build_under(interp, recipe)
        a_kw = {k: build_under(bi, v) for k, v in sigma}
        b_kw = {k: build_under(bi, v) for k, v in b}
        fused = OrderedDict((k, v(**b_kw) if isinstance(v, Funsor) else v) for k, v in a_kw.items())
        for k, v in b_kw.items():
            fused.setdefault(k, v)
        r_fused = f(**fused)
    except DECLINE as e:
        ctx.count(f"S2:chain:fused-declined:{type(e).__name__}")
    if r_chain is None and r_fused is None:
        return
    wit = dict(wit0)
    wit["then"] = [(k, describe2(v)) for k, v in b]
    sig_a = ", ".join(f"{k!r}: {python_of2(v)}" for k, v in sigma)
    sig_b = ", ".join(f"{k!r}: {python_of2(v)}" for k, v in b)
    py = (PY_HEADER + f"with {interp}:\n    f = {python_of2(recipe)}\n" +
          f"with {bi}:\n    a = {{{sig_a}}}\n    b = {{{sig_b}}}\n" +
          "chained = lambda: f(**a)(**b)\n"
          "def fused():\n    fs = dict((k, v(**b)) for k, v in a.items()); [fs.setdefault(k, v) for k, v in b.items()]\n"
          "    return f(**fs)\n")
    term = ["subs", ["subs", f_wire, sig_wire], b_wire]
    renv = renvs[0]
    reqs.append(f"C04 denote {sx(term)} {sx(ser.ins_wire(ins2))} {sx(ser.env_wire(renv))}")
    meta.append(("chain", wit, py, r_chain, r_fused, ins2, renv, exp2))


# ------------------------------------------------------------------------------------------------
# S8: variadic lazy nodes that list the SAME (cons-hashed) child more than once next to a deeper sibling
# ------------------------------------------------------------------------------------------------

def s8_cases(rng, tier):
    """(recipe, sigma, interp) — the traversal `substitute()` rebuilds a term with (interpreter.anf) must wait for every
    OCCURRENCE of a child: Stack / Cat / n-ary Contraction with a repeated identical part in every position, a sibling
    1-3 levels deeper, optionally below another node; sigma touches the duplicate's and the deep sibling's names."""
    out = []
    reps = 1 if tier == "quick" else 4
    for _ in range(reps):
        for cls, gap, below_root in itertools.product(["stack", "cat", "contr"], [1, 2, 3], [False, True]):
            ti = gen_terms.gen_tensor(rng, OrderedDict(i=3), "real", names=["i"])
            uj = gen_terms.gen_tensor(rng, OrderedDict(j=2), "real", names=["j"])
            if cls == "cat":
                ti = gen_terms.gen_tensor(rng, OrderedDict(c=2, i=3), "real", names=["c", "i"])
                uj = gen_terms.gen_tensor(rng, OrderedDict(c=1, j=2), "real", names=["c", "j"])
            a = ("bin2", "mul", ti, ("rvar", "x"))
            b = ("bin2", "add", uj, ("rvar", "y"))
            for g_ in range(gap):
                b = rng.choice([("bin2", "sub", ("num", 0.0, "real"), b), ("bin2", "mul", b, ("num", 2.0, "real")),
                                ("bin2", "max", b, ("num", -1.0, "real"))])
            layouts = [(a, a, b), (a, b, a), (b, a, a), (a, a, a, b), (a, b, a, b), (b, b, a)]
            for parts in layouts:
                if cls == "stack":
                    node = ("stack2", "k", parts)
                elif cls == "cat":
                    node = ("cat2", "c", parts)
                else:
                    node = ("contr2", "null", rng.choice(["add", "mul", "max"]), parts)
                f = ("bin2", "add", node, ("rvar", "w")) if below_root else node
                sigmas = [
                    [("x", ("num", 2.0, "real")), ("y", ("num", 0.5, "real"))],
                    [("x", ("rvar", "y")), ("y", ("rvar", "x"))],
                    [("x", ("rvar", "z")), ("y", ("rvar", "z"))],
                    [("x", ("bin2", "add", ("rvar", "y"), ("num", 1.0, "real"))), ("y", ("bin2", "mul", ("rvar", "x"), ("num", 2.0, "real")))],
                    [("x", ("num", 2.0, "real"))],
                    [("y", ("rvar", "x"))],
                    [("y", ("num", 0.5, "real")), ("i", ("num", 1, 3)), ("x", ("rvar", "y"))],
                    [("j", ("var", "q", 2)), ("x", ("rvar", "y")), ("y", ("num", -1.0, "real"))],
                ]
                # sigma naming BOTH the node's fresh name (Stack's / Cat's own input) and inputs of its sub-terms
                if cls != "contr":
                    own, size = ("k", len(parts)) if cls == "stack" else ("c", sum(2 if p is a else 1 for p in parts))
                    own_vals = [("num", rng.randrange(size), size), ("var", "m", size),
                                gen_terms.gen_tensor(rng, OrderedDict(q=2), size, names=["q"])]
                    if cls == "cat":
                        own_vals.append(("slice", "m", 1, size, 1, size))
                    for ov in own_vals:
                        sigmas.append([(own, ov)] + rng.choice(sigmas[:8]))
                    sigmas.append([(own, own_vals[0])])
                for sig in rng.sample(sigmas, 4 if tier == "quick" else len(sigmas)):
                    sig = list(sig)
                    rng.shuffle(sig)
                    out.append((f, sig, rng.choice(["lazy", "lazy", "reflect", "reflect", "eager", "normalize", "normalize"])))
    return out


def run_s8(ctx, use_lean=True):
    cases = s8_cases(ctx.rng, ctx.tier)
    before = len(ctx.failures)
    run_s2(ctx, 0, use_lean=use_lean, cases=cases)
    for fl in ctx.failures[before:]:
        fl.name = fl.name.replace("C04.S2.", "C04.S8.dup-child.")


# ------------------------------------------------------------------------------------------------
# S3: per-class index arithmetic
# ------------------------------------------------------------------------------------------------

def run_s3(ctx, use_lean=True):
    rng = ctx.rng
    big = ctx.tier == "thorough"
    reqs, meta = [], []
    # ---- renaming the own input of a (strided) Slice, then using it as an advanced index / chained: exhaustive box
    NR = 10 if big else 8
    for dtype in range(1, NR + 1):
        xs = Tensor(np.arange(dtype, dtype=np.float64) * 1.5 + 1.0, OrderedDict(i=Bint[dtype]))
        for start in range(0, dtype + 1):
            for stop in range(start, dtype + 1):
                for step in (1, 2, 3):
                    want = list(range(start, stop, step))
                    if not want:
                        continue
                    wit = {"stream": "S3.slice-rename", "slice": [start, stop, step, dtype]}
                    py = (PY_HEADER + f"s = Slice('k', {start}, {stop}, {step}, {dtype})\nr = s(k='j')\nprint(r, r.inputs)\n"
                          f"x = Tensor(np.arange({dtype}, dtype=np.float64) * 1.5 + 1.0, OrderedDict(i=Bint[{dtype}]))\n"
                          f"y = x(i=s)(k='j')\nprint(y)\n"
                          f"FAILS = r.inputs['j'].size != {len(want)} or list(np.asarray(y.data)) != list(np.asarray(x.data)[{start}:{stop}:{step}])\n")
                    try:
                        s_ = Slice("k", start, stop, step, dtype)
                        results = {"rename": s_(k="j"), "rename-same": s_(k="k"), "rename-via-Variable": s_(k=Variable("m", Bint[len(want)]))}
                        idx1 = xs(i=s_(k="j"))                      # renamed slice used as an advanced index
                        idx2 = xs(i=s_)(k="j")                      # chained
                        with lazy:
                            lz = Slice("k", start, stop, step, dtype)(k="j")
                        idx3 = xs(i=lz)
                    except DECLINE as ex:
                        ctx.fail("input", "C04.S3.slice-rename.declined", witness=wit, expected="a renamed slice",
                                 got=f"{type(ex).__name__}: {ex}", python=py)
                        continue
                    bad = None
                    for label, (r_, nm) in {"rename": (results["rename"], "j"), "rename-same": (results["rename-same"], "k"),
                                            "rename-via-Variable": (results["rename-via-Variable"], "m")}.items():
                        if list(r_.inputs) != [nm] or r_.inputs[nm].size != len(want) or int(r_.output.size) != dtype:
                            bad = (label, {k: str(v) for k, v in r_.inputs.items()})
                            break
                        vals = [int(np.asarray(r_(**{nm: jj}).data)) for jj in range(len(want))]
                        if vals != want:
                            bad = (label, vals)
                            break
                    if bad is None:
                        exp_data = list(np.asarray(xs.data)[start:stop:step])
                        for label, t_ in (("index", idx1), ("chained", idx2), ("lazy-built", idx3)):
                            if not isinstance(t_, Tensor) or list(t_.inputs) != ["j"] or list(np.asarray(t_.data)) != exp_data:
                                bad = (label, {"inputs": {k: str(v) for k, v in t_.inputs.items()},
                                               "data": np.asarray(getattr(t_, "data", [])).tolist()})
                                break
                    if bad is not None:
                        ctx.fail("input", "C04.S3.slice-rename", witness=dict(wit, route=bad[0]),
                                 expected={"size": len(want), "values": want}, got=bad[1], python=py)
                        continue
                    ctx.count("S3:slice-rename:ok" + (":strided-with-remainder" if step > 1 and (stop - start) % step else ""))
                    ctx.case(nontrivial_key=("slice-rename", start, stop, step, dtype))
                    r_ = results["rename"]
                    reqs.append(f"C04 slicerename ({start} {stop} {step} {dtype})")
                    meta.append(("slicerename", wit, (r_.slice.start, r_.slice.stop, r_.slice.step, int(r_.output.size), r_.inputs["j"].size), None))
    # ---- Slice into Slice: exhaustive box
    N = 9 if big else 7
    n_ss = 0
    for dtype in range(1, N + 1):
        for start in range(0, dtype + 1):
            for stop in range(start, dtype + 1):
                for step in (1, 2, 3):
                    size = len(range(start, stop, step))
                    if size == 0:
                        continue
                    for istart in range(0, size + 1):
                        for istop in range(istart, size + 1):
                            for istep in (1, 2, 3):
                                if (n_ss % (1 if big else 3)) != 0 and rng.random() < 0.5:
                                    n_ss += 1
                                    continue
                                n_ss += 1
                                want = [start + step * j for j in range(size)][istart:istop:istep]
                                py = (PY_HEADER + f"r = Slice('i', {start}, {stop}, {step}, {dtype})(i=Slice('j', {istart}, {istop}, {istep}, {size}))\n"
                                      f"print(r, r.inputs)\nFAILS = r.inputs['j'].size != {len(want)}\n")
                                wit = {"stream": "S3.slice-into-slice", "outer": [start, stop, step, dtype],
                                       "inner": [istart, istop, istep, size]}
                                try:
                                    r = Slice("i", start, stop, step, dtype)(i=Slice("j", istart, istop, istep, size))
                                except DECLINE as e:
                                    ctx.count(f"S3:slice2:declined:{type(e).__name__}")
                                    continue
                                if "j" not in r.inputs and want:
                                    ctx.fail("input", "C04.S3.slice-into-slice.inputs", witness=wit, expected="input j",
                                             got=str(r.inputs), python=py)
                                    continue
                                if want:
                                    got_size = r.inputs["j"].size
                                    try:
                                        vals = [int(r(j=jj).data) for jj in range(got_size)]
                                    except DECLINE:
                                        vals = None
                                    if got_size != len(want) or vals != want:
                                        ctx.fail("input", "C04.S3.slice-into-slice", witness=wit,
                                                 expected={"size": len(want), "values": want},
                                                 got={"size": got_size, "values": vals}, python=py)
                                        continue
                                ctx.count("S3:slice2:ok")
                                ctx.case(nontrivial_key=("slice2", start, stop, step, dtype, istart, istop, istep))
                                if isinstance(r, Slice):
                                    reqs.append(f"C04 slice2 ({start} {stop} {step} {dtype}) ({istart} {istop} {istep} {size})")
                                    meta.append(("slice2", wit, (r.slice.start, r.slice.stop, r.slice.step,
                                                                 int(r.output.size), r.inputs["j"].size), want))
    # ---- Cat with a Slice / a Number; Stack with a Slice / Number
    size_lists = [sl for n in (1, 2, 3) for sl in itertools.product(range(1, 5 if big else 4), repeat=n)]
    for sizes in size_lists:
        total = sum(sizes)
        parts, off = [], 0
        for s in sizes:
            parts.append(Tensor(np.arange(off, off + s, dtype=np.float64), OrderedDict(i=Bint[s])))
            off += s
        # Cat.eager_subs is only reached while the Cat stays lazy: either substitute under `lazy`, or make
        # the parts lazy (a real free variable x, set to 0 afterwards) and substitute under eager
        # (a one-part Cat with a lazy part is REWRITTEN by eager_cat when rebuilt: the substitution of its own name
        #  must survive the rewrite — fixed in 64e4215)
        how = rng.choice(["lazy-call", "lazy-parts"])
        if how == "lazy-parts":
            with lazy:
                cat = Cat("i", tuple(p + Variable("x", Real) for p in parts))
        else:
            with lazy:
                cat = Cat("i", tuple(parts))
        for start in range(0, total + 1):
            for stop in range(start, total + 1):
                for step in (1, 2, 3, 4):
                    want = list(range(total))[start:stop:step]
                    if not want:
                        continue
                    if not big and rng.random() < 0.5:
                        continue
                    wit = {"stream": "S3.cat-slice", "part_sizes": list(sizes), "slice": [start, stop, step], "built_under": how}
                    py = (PY_HEADER + "parts, off = [], 0\n" + f"for s in {list(sizes)}:\n"
                          "    parts.append(Tensor(np.arange(off, off + s, dtype=np.float64), OrderedDict(i=Bint[s]))); off += s\n" +
                          ("with lazy:\n    cat = Cat('i', tuple(p + Variable('x', Real) for p in parts))\n"
                           f"r = cat(i=Slice('j', {start}, {stop}, {step}, {total}))\nprint(r.inputs)\nr = r(x=0.0)\n"
                           if how == "lazy-parts" else
                           f"with lazy:\n    cat = Cat('i', tuple(parts))\n    r = cat(i=Slice('j', {start}, {stop}, {step}, {total}))\nprint(r.inputs)\n") +
                          "r = reinterpret(r)\nprint(r)\n"
                          f"FAILS = list(r.inputs) != ['j'] or [int(x) for x in r.data] != {want}\n")
                    try:
                        if how == "lazy-parts":
                            r = cat(i=Slice("j", start, stop, step, total))
                            lazy_in = OrderedDict((k, v) for k, v in r.inputs.items() if k != "x")
                            r = r(x=0.0)
                        else:
                            with lazy:
                                r = cat(i=Slice("j", start, stop, step, total))
                            lazy_in = OrderedDict(r.inputs)
                        if not isinstance(r, Tensor):
                            ctx.count(f"S3:cat-slice:{how}:reached-Cat.eager_subs")
                        with eager:
                            r = reinterpret(r)
                    except DECLINE as e:
                        ctx.count(f"S3:cat-slice:declined:{type(e).__name__}")
                        continue
                    if list(lazy_in) != ["j"] or lazy_in["j"].size != len(want) or not isinstance(r, Tensor) \
                            or list(r.inputs) != ["j"] or [int(x) for x in np.asarray(r.data)] != want:
                        ctx.fail("input", "C04.S3.cat-slice", witness=wit, expected={"inputs": {"j": len(want)}, "values": want},
                                 got={"inputs": {k: str(v) for k, v in lazy_in.items()},
                                      "values": np.asarray(getattr(r, "data", [])).tolist()}, python=py)
                        continue
                    ctx.count("S3:cat-slice:ok")
                    ctx.case(nontrivial_key=("cat-slice", sizes, start, stop, step))
                    reqs.append(f"C04 catslice head {sx(list(sizes))} {start} {stop} {step}")
                    meta.append(("catslice", wit, want, None))
        for n in range(total):
            wit = {"stream": "S3.cat-number", "part_sizes": list(sizes), "n": n}
            try:
                if how == "lazy-parts":
                    r = cat(i=n)(x=0.0)
                else:
                    with lazy:
                        r = cat(i=n)
                with eager:
                    r = reinterpret(r)
                got = int(np.asarray(r.data))
            except DECLINE as e:
                ctx.count(f"S3:cat-number:declined:{type(e).__name__}")
                continue
            if got != n:
                ctx.fail("input", "C04.S3.cat-number", witness=wit, expected=n, got=got,
                         python=PY_HEADER + f"# Cat of aranges with part sizes {list(sizes)} at i={n}\nFAILS = True\n")
                continue
            ctx.count("S3:cat-number:ok")
            ctx.case()
            reqs.append(f"C04 catlocate {sx(list(sizes))} {n}")
            meta.append(("catlocate", wit, n, list(sizes)))
    # Stack with slices
    for nparts in range(1, 7 if big else 6):
        ps = tuple(Tensor(np.array(float(p)) + np.arange(2.0), OrderedDict(x=Bint[2])) for p in range(nparts))
        with lazy:
            st = Stack("i", ps)
        for start in range(nparts + 1):
            for stop in range(start, nparts + 1):
                for step in (1, 2, 3):
                    want = list(range(nparts))[start:stop:step]
                    if not want:
                        continue
                    wit = {"stream": "S3.stack-slice", "parts": nparts, "slice": [start, stop, step]}
                    try:
                        with lazy:
                            r = st(i=Slice("j", start, stop, step, nparts))
                        with eager:
                            r = reinterpret(r)
                        tab = futil.table(r, [("j", len(want)), ("x", 2)])
                        got = [int(v) for v in tab[:, 0]]
                    except DECLINE as e:
                        ctx.count(f"S3:stack-slice:declined:{type(e).__name__}")
                        continue
                    if got != want:
                        ctx.fail("input", "C04.S3.stack-slice", witness=wit, expected=want, got=got,
                                 python=PY_HEADER + f"# Stack('i', {nparts} parts)(i=Slice('j',{start},{stop},{step},{nparts}))\nFAILS = True\n")
                        continue
                    ctx.count("S3:stack-slice:ok")
                    ctx.case(nontrivial_key=("stack-slice", nparts, start, stop, step))
                    reqs.append(f"C04 pyslice {nparts} {start} {stop} {step}")
                    meta.append(("pyslice", wit, want, None))
    if not use_lean or not reqs:
        return
    answers = ctx.driver.ask(reqs)
    for (kind, wit, a, b), ans in zip(meta, answers):
        if not ans.startswith("ok"):
            ctx.infra_errors.append(f"driver: {ans[:200]} for {wit}")
            continue
        t = parse_sx("(" + ans[3:] + ")")
        if kind == "slicerename":
            head = tuple(int(x) for x in t[0])
            if head != a:
                ctx.fail("correspondence", "C04.S3.slice-rename.model", witness=wit, expected=str(head), got=str(a))
            else:
                ctx.count("S3:slice-rename:model-identical")
        elif kind == "slice2":
            head = tuple(int(x) for x in t[0])
            impl = a
            # model (start, stop, step, dtype, size) vs implementation
            if head != impl:
                ctx.fail("correspondence", "C04.S3.slice-into-slice.model", witness=wit, expected=str(impl), got=str(head))
            else:
                ctx.count("S3:slice2:model-identical")
        elif kind == "catslice":
            glob = [int(x) for x in t[0]]
            spec = [int(x) for x in t[2]]
            if glob != a or spec != a:
                ctx.fail("correspondence", "C04.S3.cat-slice.model", witness=wit, expected=str(a), got=f"model {glob} spec {spec}")
            else:
                ctx.count("S3:cat-slice:model-identical")
        elif kind == "catlocate":
            n, sizes = a, b
            if t == ["none"]:
                ctx.fail("correspondence", "C04.S3.cat-number.model", witness=wit, expected="located", got="none")
                continue
            k, loc = int(t[0][0]), int(t[0][1])
            if sum(sizes[:k]) + loc != n or not (0 <= loc < sizes[k]):
                ctx.fail("correspondence", "C04.S3.cat-number.model", witness=wit, expected=n, got=f"part {k} local {loc}")
            else:
                ctx.count("S3:cat-number:model-identical")
        elif kind == "pyslice":
            got = [int(x) for x in t[0]]
            if got != a:
                ctx.fail("correspondence", "C04.S3.stack-slice.model", witness=wit, expected=str(a), got=str(got))
            else:
                ctx.count("S3:stack-slice:model-identical")


# ------------------------------------------------------------------------------------------------
# S4: nodes that the base interpretation REWRITES when they are rebuilt during substitution
# ------------------------------------------------------------------------------------------------

def run_rewritten(ctx):
    """Lazily built nodes that an eager rule turns into a different class when `substitute` rebuilds them
    (one-part Cat -> its part renamed; one-part Stack; Lambda indexed; Independent without its diag var), substituted
    under eager by number / variable / slice / index tensor for the node's own name and, simultaneously, for an
    input of the parts.  Oracle: pointwise numpy."""
    rng = ctx.rng
    x = Variable("x", Real)
    n_ok = 0
    for size, nparts, cls in itertools.product([1, 2, 3], [1, 2], ["cat", "cat-pn", "stack"]):
        for own_val, other_val in itertools.product(["num", "var-fresh", "var-other", "slice", "tensor", "none"],
                                                    ["none", "num", "var-own", "var-fresh"]):
            if own_val == "none" and other_val == "none":
                continue
            # parts over inputs (i: size) [cat] and (k: 2), each lazy through the real variable x
            datas = [np.array([[rng.choice([0, 1, 2, 3, 4, 5]) for _ in range(2)] for _ in range(size)], dtype=np.float64)
                     for _ in range(nparts)]
            with lazy:
                if cls == "stack":
                    parts = tuple(Tensor(d[0], OrderedDict(k=Bint[2])) + x for d in datas)
                    f = Stack("i", parts)
                    total = nparts
                    full = np.stack([d[0] for d in datas])              # [i, k]
                else:
                    pn = "i" if cls == "cat" else "t"
                    parts = tuple(Tensor(d, OrderedDict([(pn, Bint[size]), ("k", Bint[2])])) + x for d in datas)
                    f = Cat("i", parts, pn)
                    total = size * nparts
                    full = np.concatenate(datas, axis=0)               # [i, k]
            sigma, spec = OrderedDict(), {}
            if own_val == "num":
                n = rng.randrange(total); sigma["i"] = n; spec["i"] = lambda p, n=n: n
            elif own_val == "var-fresh":
                sigma["i"] = "a"; spec["i"] = lambda p: p["a"]
            elif own_val == "var-other":
                if total != 2:
                    continue
                sigma["i"] = "k"; spec["i"] = lambda p: p["k"]
            elif own_val == "slice":
                st = rng.randrange(total); sp = rng.choice([1, 2])
                sigma["i"] = Slice("a", st, total, sp, total); spec["i"] = lambda p, st=st, sp=sp: st + sp * p["a"]
            elif own_val == "tensor":
                idx = np.array([[rng.randrange(total) for _ in range(2)] for _ in range(2)], dtype=np.int64)
                sigma["i"] = Tensor(idx, OrderedDict(b=Bint[2], k=Bint[2]), total)
                spec["i"] = lambda p, idx=idx: int(idx[p["b"], p["k"]])
            if other_val == "num":
                m = rng.randrange(2); sigma["k"] = m; spec["k"] = lambda p, m=m: m
            elif other_val == "var-own":
                if total != 2:
                    continue
                sigma["k"] = "i"; spec["k"] = lambda p: p["i"]
            elif other_val == "var-fresh":
                sigma["k"] = "c"; spec["k"] = lambda p: p["c"]
            # expected inputs
            exp = OrderedDict()
            for nm, sz in (("i", total), ("k", 2)):
                if nm not in sigma:
                    exp[nm] = sz
            for kk, v in sigma.items():
                sz = total if kk == "i" else 2
                vin = {} if isinstance(v, int) else ({v: sz} if isinstance(v, str) else {a: int(d.size) for a, d in v.inputs.items()})
                for a, d in vin.items():
                    if exp.setdefault(a, d) != d:
                        exp = None
                        break
                if exp is None:
                    break
            if exp is None:
                continue
            ins = sorted(exp.items())
            oracle = np.zeros(tuple(s_ for _, s_ in ins))
            for pt in itertools.product(*[range(s_) for _, s_ in ins]):
                p = dict(zip([a for a, _ in ins], pt))
                oracle[pt] = full[spec["i"](p) if "i" in spec else p["i"], spec["k"](p) if "k" in spec else p["k"]]
            wit = {"stream": "S4.rewritten-node", "class": cls, "part_size": size, "parts": nparts,
                   "sigma": {k_: (v if isinstance(v, (int, str)) else str(v)) for k_, v in sigma.items()},
                   "data": [d.tolist() for d in datas]}
            def _pyval(v):
                if isinstance(v, (int, str)):
                    return repr(v)
                if isinstance(v, Slice):
                    return f"Slice({v.name!r}, {v.slice.start}, {v.slice.stop}, {v.slice.step}, {int(v.output.size)})"
                return (f"Tensor(np.array({np.asarray(v.data).tolist()}, dtype=np.int64), OrderedDict([" +
                        ", ".join(f"({a!r}, Bint[{int(d.size)}])" for a, d in v.inputs.items()) + f"]), {int(v.output.size)})")
            pn_ = "i" if cls == "cat" else "t"
            mk = ([f"Tensor(np.array({d[0].tolist()}), OrderedDict(k=Bint[2])) + x" for d in datas] if cls == "stack" else
                  [f"Tensor(np.array({d.tolist()}), OrderedDict([({pn_!r}, Bint[{size}]), ('k', Bint[2])])) + x" for d in datas])
            py = (PY_HEADER + "x = Variable('x', Real)\nwith lazy:\n    parts = (" + ", ".join(mk) + ",)\n    f = " +
                  ("Stack('i', parts)" if cls == "stack" else f"Cat('i', parts, {pn_!r})") + "\n" +
                  "CALL = lambda: f(**{" + ", ".join(f"{k_!r}: {_pyval(v)}" for k_, v in sigma.items()) + "})\n" +
                  py_footer(ins, oracle, {"x": 0.0}))
            try:
                r = f(**sigma)
            except DECLINE as e:
                ctx.count(f"S4:declined:{type(e).__name__}")
                continue
            bad = [a for a, d in r.inputs.items() if a != "x" and (a not in exp or exp[a] != d.size)]
            if bad:
                ctx.fail("input", "C04.S4.rewritten-node.inputs", witness=wit, expected=str(dict(exp)),
                         got=str({a: str(d) for a, d in r.inputs.items()}), python=py)
                continue
            try:
                r0 = r(x=0.0) if "x" in r.inputs else r
                with eager:
                    r0 = reinterpret(r0)
                tab = futil.table(r0, ins)
            except DECLINE as e:
                ctx.count(f"S4:eval-declined:{type(e).__name__}")
                continue
            if tab is None:
                ctx.count("S4:lazy-result")
                continue
            if other_val == "var-own":
                ctx.count("S4:own-name-reintroduced:returned-a-value")
            if not np.array_equal(tab, oracle):
                ctx.fail("input", "C04.S4.rewritten-node.value", witness=wit, expected={"inputs": ins, "table": oracle.tolist()},
                         got=tab.tolist(), python=py)
                continue
            n_ok += 1
            ctx.count(f"S4:{cls}:parts={nparts}:ok")
            ctx.case(nontrivial_key=("S4", cls, size, nparts, own_val, other_val))

# ------------------------------------------------------------------------------------------------
# S5: Gaussian / Delta substitution vs the explicit formula (spec-only: beyond the Lean term model)
# ------------------------------------------------------------------------------------------------

from funsor.gaussian import Gaussian   # noqa: E402
from funsor.delta import Delta         # noqa: E402
from funsor.domains import Reals       # noqa: E402

S5_HEADER = PY_HEADER + ("from funsor.gaussian import Gaussian\nfrom funsor.delta import Delta\n"
                         "from funsor.domains import Reals\nfrom itertools import product\n")


def _dy(rng, lo=-8, hi=8):
    return rng.randrange(lo, hi + 1) / 4.0


def _dyarr(rng, shape, lo=-8, hi=8):
    n = int(np.prod(shape)) if shape else 1
    return np.array([_dy(rng, lo, hi) for _ in range(n)], dtype=np.float64).reshape(shape)


def _arr_py(a):
    a = np.asarray(a)
    return f"np.array({a.tolist()!r}, dtype=np.{a.dtype.name}).reshape({tuple(a.shape)!r})"


class SVal5:
    """A substitution value: funsor object, python source, oracle env -> ndarray, its inputs, exactness."""
    def __init__(self, funsor_, py, fn, inputs, exact=True, kind=""):
        self.f, self.py, self.fn, self.inputs, self.exact, self.kind = funsor_, py, fn, inputs, exact, kind


def s5_real_value(rng, sh, batch_pool, kind):
    """value for a real input of shape sh.  batch_pool: name -> size of int names a Tensor value may use."""
    dom = f"Reals[{', '.join(map(str, sh))}]" if sh else "Real"
    if kind == "array":
        a = _dyarr(rng, sh)
        return SVal5(Tensor(a), f"Tensor({_arr_py(a)})", lambda e, a=a: a, {}, kind="array")
    if kind == "tensor":
        names = [n for n in batch_pool if rng.random() < 0.6] or [rng.choice(list(batch_pool))]
        bshape = tuple(batch_pool[n] for n in names)
        a = _dyarr(rng, bshape + tuple(sh))
        ins = ", ".join(f"({n!r}, Bint[{batch_pool[n]}])" for n in names)
        return SVal5(Tensor(a, OrderedDict((n, Bint[batch_pool[n]]) for n in names)),
                     f"Tensor({_arr_py(a)}, OrderedDict([{ins}]))",
                     lambda e, a=a, names=names: a[tuple(e[n] for n in names)],
                     {n: ("int", batch_pool[n]) for n in names}, kind="tensor")
    new = rng.choice(["p", "q", "r"])
    v = Variable(new, Reals[tuple(sh)] if sh else Real)
    vpy = f"Variable({new!r}, {dom})"
    if kind == "rename":
        return SVal5(v, vpy, lambda e, new=new: np.asarray(e[new]), {new: ("real", tuple(sh))}, kind="rename")
    if kind == "affine":
        c, b = rng.choice([2.0, -1.0, 0.5]), _dy(rng)
        return SVal5(v * c + b, f"({vpy} * {c} + {b})", lambda e, new=new, c=c, b=b: np.asarray(e[new]) * c + b,
                     {new: ("real", tuple(sh))}, kind="affine")
    if kind == "square":
        return SVal5(v ** 2, f"({vpy} ** 2)", lambda e, new=new: np.asarray(e[new]) ** 2,
                     {new: ("real", tuple(sh))}, kind="square")
    if kind == "exp":
        return SVal5(ops.exp(v), f"ops.exp({vpy})", lambda e, new=new: np.exp(np.asarray(e[new])),
                     {new: ("real", tuple(sh))}, exact=False, kind="exp")
    raise ValueError(kind)


def s5_int_value(rng, size, kind):
    if kind == "int":
        n = rng.randrange(size)
        return SVal5(Number(n, size), f"Number({n}, {size})", lambda e, n=n: n, {}, kind="int")
    if kind == "rename":
        new = rng.choice(["m", "n"])
        return SVal5(Variable(new, Bint[size]), f"Variable({new!r}, Bint[{size}])", lambda e, new=new: e[new],
                     {new: ("int", size)}, kind="int-rename")
    new, k = "m", rng.choice([1, 2, 3])
    a = np.array([rng.randrange(size) for _ in range(k)], dtype=np.int64)
    return SVal5(Tensor(a, OrderedDict([(new, Bint[k])]), size), f"Tensor({_arr_py(a)}, OrderedDict([({new!r}, Bint[{k}])]), {size})",
                 lambda e, a=a, new=new: int(a[e[new]]), {new: ("int", k)}, kind="int-tensor")


def s5_free_points(rng, free):
    """free: name -> ('int', size) | ('real', shape).  All int points x 2 sample points per real name (capped)."""
    ints = [(n, d[1]) for n, d in free.items() if d[0] == "int"]
    reals = [(n, d[1]) for n, d in free.items() if d[0] == "real"]
    rpts = [dict((n, _dyarr(rng, sh, -6, 6)) for n, sh in reals) for _ in range(2 if reals else 1)]
    out = []
    for ip in itertools.product(*[range(sz) for _, sz in ints]):
        for rp in rpts:
            e = dict(zip([n for n, _ in ints], ip))
            e.update(rp)
            out.append(e)
    return out[:24]


def s5_eval(r, e):
    """Value of the implementation's result at the point e (all its inputs bound)."""
    if isinstance(r, Gaussian):
        # straight from the parameters: -1/2 || x P - w ||^2 with x the real inputs in the result's own order
        int_names = [k for k, d in r.inputs.items() if d.dtype != "real"]
        idx = tuple(e[k] for k in int_names)
        w = np.asarray(r.white_vec)
        P = np.asarray(r.prec_sqrt)
        w = np.broadcast_to(w, tuple(r.inputs[k].size for k in int_names) + w.shape[-1:])[idx]
        P = np.broadcast_to(P, tuple(r.inputs[k].size for k in int_names) + P.shape[-2:])[idx]
        x = np.concatenate([np.asarray(e[k], dtype=np.float64).reshape(-1) for k, d in r.inputs.items() if d.dtype == "real"])
        res = x @ P - w
        return -0.5 * float(res @ res)
    kw = {k: (int(e[k]) if d.dtype != "real" else Tensor(np.asarray(e[k], dtype=np.float64))) for k, d in r.inputs.items()}
    out = r(**kw) if kw else r
    if not isinstance(out, (Tensor, Number)):
        with eager:
            out = reinterpret(out)
    if out.inputs or not isinstance(out, (Tensor, Number)):
        raise NotImplementedError("result did not evaluate to a number")
    return float(np.asarray(out.data))


def s5_close(a, b, exact):
    if a == b or (np.isneginf(a) and np.isneginf(b)):
        return True
    if np.isinf(a) or np.isinf(b) or a != a or b != b:
        return False
    tol = 1e-12 if exact else 1e-9
    return abs(a - b) <= tol * max(1.0, abs(a), abs(b))


@contextlib.contextmanager
def record_gaussian_stages(log):
    """Run-time wrappers (no change to /repo) around the four eager branches of Gaussian.eager_subs: which branch handled
    which keys, in call order."""
    names = ["_eager_subs_var", "_eager_subs_int", "_eager_subs_real", "_eager_subs_affine"]
    # (the parametrised classes Gaussian[...] copy the origin's __dict__ when they are created: patch each of them)
    classes, todo = [], [Gaussian]
    while todo:
        c = todo.pop()
        classes.append(c)
        todo.extend(c.__subclasses__())
    saved = [(c, n, c.__dict__[n]) for c in classes for n in names if n in c.__dict__]

    def wrap(n, fn):
        def w(self, subs, remaining_subs):
            log.append((n[len("_eager_subs_"):], [k for k, _ in subs]))
            return fn(self, subs, remaining_subs)
        return w
    for c, n, fn in saved:
        setattr(c, n, wrap(n, fn))
    try:
        yield
    finally:
        for c, n, fn in saved:
            setattr(c, n, fn)


GKIND = {"array": "real", "tensor": "real", "rename": "var", "affine": "affine", "square": "lzy", "exp": "lzy",
         "int": "int", "int-rename": "var", "int-tensor": "int"}


def s5_check(ctx, label, build_py, call_py, thunk, target_inputs, sigma, oracle_at, rng, wit, exact, tie=None, gdec=None):
    """Run one substitution route and compare with the oracle over the whole free space (ints) x sample reals."""
    # expected inputs: target's unsubstituted inputs + inputs of the values
    exp = OrderedDict((k, d) for k, d in target_inputs.items() if k not in sigma)
    for k, v in sigma.items():
        for n, d in v.inputs.items():
            if exp.setdefault(n, d) != d:
                ctx.count("S5:ill-typed")
                return
    stages = []
    try:
        if gdec is not None:
            with record_gaussian_stages(stages):
                try:
                    r = thunk()
                finally:
                    # the names-level decision of Gaussian.eager_subs vs the Lean model `gDecide`
                    order, inputs_ = gdec
                    sw = [[Q(k), (["var", Q(list(sigma[k].inputs)[0])] if GKIND[sigma[k].kind] == "var" else GKIND[sigma[k].kind])]
                          for k in order]
                    ctx.extra.setdefault("_s5_gdec", []).append(
                        (f"C04 gdecide {sx([Q(n) for n in inputs_])} {sx(sw)}", list(stages), dict(wit, order=list(order))))
        else:
            r = thunk()
    except DECLINE as ex:
        ctx.count(f"S5:{label}:declined:{type(ex).__name__}")
        ctx.case()
        return
    py = S5_HEADER + build_py + f"r = {call_py}\nprint(r.inputs)\n"
    bad = [k for k, d in r.inputs.items()
           if k not in exp or (exp[k][0] == "int") != (d.dtype != "real")
           or (exp[k][1] != (int(d.size) if d.dtype != "real" else tuple(d.shape)))]
    if bad:
        ctx.fail("input", f"C04.S5.{label}.inputs", witness=wit, expected=str(dict(exp)),
                 got=str({k: str(d) for k, d in r.inputs.items()}), python=py + "FAILS = True\n")
        return
    pts = s5_free_points(rng, exp)
    for e in pts:
        want = oracle_at(e)
        try:
            got = s5_eval(r, e)
        except DECLINE as ex:
            ctx.count(f"S5:{label}:eval-declined:{type(ex).__name__}")
            ctx.case()
            return
        if not s5_close(got, want, exact):
            e_py = "{" + ", ".join(f"{k!r}: " + (repr(int(v)) if not isinstance(v, np.ndarray) else f"Tensor({_arr_py(v)})")
                                   for k, v in e.items()) + "}"
            ctx.fail("input", f"C04.S5.{label}.value", witness=dict(wit, point={k: np.asarray(v).tolist() for k, v in e.items()}),
                     expected=want, got=got,
                     python=py + f"point = {e_py}\nv = r(**{{k: x for k, x in point.items() if k in r.inputs}})\n"
                                 f"print(v)\nFAILS = abs(float(np.asarray(v.data)) - ({want!r})) > 1e-9 * max(1.0, abs({want!r}))\n")
            return
    ctx.count(f"S5:{label}:ok")
    ctx.case(nontrivial_key=("S5", label, repr(wit)))
    if tie is not None:
        # tie to the Lean model of _eager_subs_real (ordered pairs, explicit input-order gather): same pairs in the
        # same ORDER, per batch point; exact rational comparison of the value and of the result's parameters
        for e in pts[:6]:
            idx = tuple(int(e[k]) for k in tie["batch"])
            wv, Pm = tie["w"][idx], tie["P"][idx]
            xa = [float(x) for k in tie["reals"] if k not in sigma for x in np.asarray(e[k], dtype=np.float64).reshape(-1)]
            req = ("C04 gsubs head " + sx([[Q(k), int(np.prod(tie["shapes"][k])) if tie["shapes"][k] else 1] for k in tie["reals"]]) +
                   f" {Pm.shape[-1]} " + sx([float(x) for x in wv]) + " " + sx([[float(x) for x in row] for row in Pm]) + " " +
                   sx([[Q(k), [float(x) for x in np.asarray(sigma[k].fn(e), dtype=np.float64).reshape(-1)]] for k in tie["order"]]) +
                   " " + sx(xa))
            got = s5_eval(r, e)
            params = None
            if isinstance(r, Gaussian):
                int_names = [k for k, d in r.inputs.items() if d.dtype != "real"]
                ridx = tuple(int(e[k]) for k in int_names)
                rw = np.broadcast_to(np.asarray(r.white_vec), tuple(r.inputs[k].size for k in int_names) + np.asarray(r.white_vec).shape[-1:])[ridx]
                rP = np.broadcast_to(np.asarray(r.prec_sqrt), tuple(r.inputs[k].size for k in int_names) + np.asarray(r.prec_sqrt).shape[-2:])[ridx]
                params = ([Fraction(float(x)) for x in rw], [[Fraction(float(x)) for x in row] for row in rP])
            ctx.extra.setdefault("_s5_tie", []).append((req, Fraction(got), params, wit))


def s5_gaussian(ctx, rng):
    reals = rng.sample(["x", "y", "z", "w"], rng.choice([2, 3, 3, 3, 4]))
    shapes = {k: rng.choice([(), (), (), (1,), (2,)]) for k in reals}
    batch = rng.sample(["i", "j"], rng.choice([0, 0, 1, 1, 2]))
    bsz = {k: rng.choice([1, 2, 2, 3]) for k in batch}
    D = sum(int(np.prod(shapes[k])) if shapes[k] else 1 for k in reals)
    bshape = tuple(bsz[k] for k in batch)
    w = _dyarr(rng, bshape + (D,))
    P = _dyarr(rng, bshape + (D, D), -4, 4)
    inputs = OrderedDict([(k, Bint[bsz[k]]) for k in batch] +
                         [(k, Reals[shapes[k]] if shapes[k] else Real) for k in reals])
    g = Gaussian(w, P, inputs)
    if not isinstance(g, Gaussian):
        return
    ins_py = ", ".join([f"({k!r}, Bint[{bsz[k]}])" for k in batch] +
                       [f"({k!r}, " + (f"Reals[{', '.join(map(str, shapes[k]))}]" if shapes[k] else "Real") + ")" for k in reals])
    build_py = f"g = Gaussian({_arr_py(w)}, {_arr_py(P)}, OrderedDict([{ins_py}]))\n"
    target_inputs = OrderedDict([(k, ("int", bsz[k])) for k in batch] + [(k, ("real", tuple(shapes[k]))) for k in reals])

    def quad(vals, e):
        idx = tuple(int(vals[k]) for k in batch)
        x = np.concatenate([np.asarray(vals[k], dtype=np.float64).reshape(-1) for k in reals])
        res = x @ P[idx] - w[idx]
        return -0.5 * float(res @ res)

    def oracle_for(sigma):
        def at(e):
            vals = {k: (sigma[k].fn(e) if k in sigma else e[k]) for k in list(batch) + list(reals)}
            return quad(vals, e)
        return at

    pool = dict(bsz)
    pool.setdefault("m", 2)
    # ---------- single step, every order of the pairs, through g(**kw) and through a directly built Subs
    sigma = OrderedDict()
    n_ground = 0
    for k in reals:
        kind = rng.choice(["free", "array", "array", "array", "tensor", "rename", "affine", "square"])
        if kind != "free":
            sigma[k] = s5_real_value(rng, shapes[k], pool, kind)
    for k in batch:
        kind = rng.choice(["free", "free", "int", "rename", "tensor"])
        if kind != "free":
            sigma[k] = s5_int_value(rng, bsz[k], kind)
    if sigma:
        exact = all(v.exact for v in sigma.values())
        wit = {"stream": "S5.gaussian", "reals": [(k, list(shapes[k])) for k in reals], "batch": [(k, bsz[k]) for k in batch],
               "sigma": [(k, v.kind) for k, v in sigma.items()]}
        keys = list(sigma)
        perms = list(itertools.permutations(keys))
        rng.shuffle(perms)
        tieable = (all(v.kind in ("array", "tensor") for v in sigma.values()) and all(k in reals for k in sigma)
                   and any(k not in sigma for k in reals))
        for perm in perms[:4]:
            pairs_py = "(" + ", ".join(f"({k!r}, {sigma[k].py})" for k in perm) + ",)"
            s5_check(ctx, "gaussian-Subs-permuted", build_py, f"Subs(g, {pairs_py})",
                     lambda perm=perm: Subs(g, tuple((k, sigma[k].f) for k in perm)),
                     target_inputs, sigma, oracle_for(sigma), rng, dict(wit, order=list(perm)), exact,
                     tie=dict(batch=batch, reals=reals, shapes=shapes, w=w, P=P, order=list(perm)) if tieable else None,
                     gdec=(list(perm), list(batch) + list(reals)))
        kw_py = "g(**{" + ", ".join(f"{k!r}: {sigma[k].py}" for k in keys) + "})"
        s5_check(ctx, "gaussian-call", build_py, kw_py, lambda: g(**{k: v.f for k, v in sigma.items()}),
                 target_inputs, sigma, oracle_for(sigma), rng, wit, exact,
                 gdec=([k for k in list(batch) + list(reals) if k in sigma], list(batch) + list(reals)))
    # ---------- chained f(a)(b): a non-affine lazy first step, then grounding; versus fused
    if len(reals) >= 2:
        k0 = rng.choice(reals)
        a = s5_real_value(rng, shapes[k0], pool, rng.choice(["square", "square", "exp"]))
        u = list(a.inputs)[0]
        others = [k for k in reals if k != k0]
        ground = [k for k in others if rng.random() < 0.7] or [others[0]]
        b = OrderedDict()
        for k in ground:
            b[k] = s5_real_value(rng, shapes[k], pool, rng.choice(["array", "array", "tensor"]))
        b[u] = s5_real_value(rng, shapes[k0], pool, rng.choice(["array", "array", "tensor"]))
        for k in batch:
            if rng.random() < 0.3:
                b[k] = s5_int_value(rng, bsz[k], "int")
        border = list(b)
        rng.shuffle(border)
        # the composite, simultaneous substitution
        comp = OrderedDict()
        comp[k0] = SVal5(None, "", lambda e, a=a, bu=b[u], u=u: a.fn({u: bu.fn(e)}), dict(b[u].inputs), a.exact)
        for k in border:
            if k != u:
                comp[k] = b[k]
        wit = {"stream": "S5.gaussian-chain", "reals": [(k, list(shapes[k])) for k in reals], "batch": [(k, bsz[k]) for k in batch],
               "first": [(k0, a.kind)], "then": [(k, b[k].kind) for k in border]}
        b_py = "{" + ", ".join(f"{k!r}: {b[k].py}" for k in border) + "}"
        s5_check(ctx, "gaussian-chained", build_py, f"g(**{{{k0!r}: {a.py}}})(**{b_py})",
                 lambda: g(**{k0: a.f})(**{k: b[k].f for k in border}),
                 target_inputs, comp, oracle_for(comp), rng, wit, a.exact)
        # the fused substitution, built directly in the order eager_subs_subs produces and in the reverse order
        fused_f = OrderedDict()
        fused_f[k0] = (lambda: a.f(**{u: b[u].f}), f"({a.py})(**{{{u!r}: {b[u].py}}})")
        for k in border:
            if k != u:
                fused_f[k] = (lambda k=k: b[k].f, b[k].py)
        for name, order in (("fused", list(fused_f)), ("fused-reversed", list(fused_f)[::-1])):
            pairs_py = "(" + ", ".join(f"({k!r}, {fused_f[k][1]})" for k in order) + ",)"
            s5_check(ctx, f"gaussian-{name}", build_py, f"Subs(g, {pairs_py})",
                     lambda order=order: Subs(g, tuple((k, fused_f[k][0]()) for k in order)),
                     target_inputs, comp, oracle_for(comp), rng, dict(wit, order=order), a.exact)


def s5_delta(ctx, rng):
    sh = rng.choice([(), (), (2,)])
    has_b = rng.random() < 0.7
    n = rng.choice([2, 3]) if has_b else 1
    pts = _dyarr(rng, ((n,) if has_b else ()) + tuple(sh), -2, 2)
    ld = _dyarr(rng, (n,) if has_b else ())
    bin_ = OrderedDict(i=Bint[n]) if has_b else OrderedDict()
    bin_py = f"OrderedDict(i=Bint[{n}])" if has_b else "OrderedDict()"
    d = Delta("v", Tensor(pts, bin_), Tensor(ld, bin_))
    build_py = f"g = Delta('v', Tensor({_arr_py(pts)}, {bin_py}), Tensor({_arr_py(ld)}, {bin_py}))\n"
    target_inputs = OrderedDict([("v", ("real", tuple(sh)))] + ([("i", ("int", n))] if has_b else []))

    def oracle_for(sigma):
        def at(e):
            i = (sigma["i"].fn(e) if "i" in sigma else e["i"]) if has_b else None
            v = np.asarray(sigma["v"].fn(e) if "v" in sigma else e["v"], dtype=np.float64)
            p = pts[int(i)] if has_b else pts
            l = ld[int(i)] if has_b else ld
            return float(l) if np.array_equal(v, np.asarray(p)) else float("-inf")
        return at

    sigma = OrderedDict()
    kind = rng.choice(["free", "hit", "hit", "miss", "tensor", "rename"])
    pool = {"i": n} if has_b else {}
    pool["m"] = 2
    if kind in ("hit", "miss"):
        a = np.array(pts[rng.randrange(n)] if has_b else pts, dtype=np.float64)
        if kind == "miss":
            a = a + 0.25
        sigma["v"] = SVal5(Tensor(a), f"Tensor({_arr_py(a)})", lambda e, a=a: a, {}, kind=kind)
    elif kind == "tensor":
        names = ["m"] + (["i"] if has_b and rng.random() < 0.5 else [])
        bshape = tuple(pool[x] for x in names)
        a = np.zeros(bshape + tuple(sh))
        for ix in itertools.product(*[range(s_) for s_ in bshape]):
            a[ix] = (pts[rng.randrange(n)] if has_b else pts) + (0.25 if rng.random() < 0.3 else 0.0)
        ins = ", ".join(f"({x!r}, Bint[{pool[x]}])" for x in names)
        sigma["v"] = SVal5(Tensor(a, OrderedDict((x, Bint[pool[x]]) for x in names)), f"Tensor({_arr_py(a)}, OrderedDict([{ins}]))",
                           lambda e, a=a, names=names: a[tuple(e[x] for x in names)], {x: ("int", pool[x]) for x in names},
                           kind="tensor")
    elif kind == "rename":
        sigma["v"] = s5_real_value(rng, sh, pool, "rename")
    if has_b:
        kind_i = rng.choice(["free", "int", "rename"])
        if kind_i != "free":
            sigma["i"] = s5_int_value(rng, n, kind_i)
    if not sigma:
        return
    wit = {"stream": "S5.delta", "shape": list(sh), "batch": n if has_b else 0, "sigma": [(k, v.kind) for k, v in sigma.items()]}
    # free real points for a remaining `v`: include an exact hit
    for perm in itertools.permutations(list(sigma)):
        pairs_py = "(" + ", ".join(f"({k!r}, {sigma[k].py})" for k in perm) + ",)"
        s5_check(ctx, "delta-Subs-permuted", build_py, f"Subs(g, {pairs_py})",
                 lambda perm=perm: Subs(d, tuple((k, sigma[k].f) for k in perm)),
                 target_inputs, sigma, oracle_for(sigma), rng, dict(wit, order=list(perm)), True)
    s5_check(ctx, "delta-call", build_py, "g(**{" + ", ".join(f"{k!r}: {sigma[k].py}" for k in sigma) + "})",
             lambda: d(**{k: v.f for k, v in sigma.items()}), target_inputs, sigma, oracle_for(sigma), rng, wit, True)


# ------------------------------------------------------------------------------------------------
# S6: Independent / Constant / MarkovProduct / Scatter substitution vs python oracles (spec-only)
# ------------------------------------------------------------------------------------------------



def _eval_closed(r, env):
    """Bind every input of r (ints as python ints, reals as arrays) and return a float."""
    kw = {k: (int(env[k]) if d.dtype != "real" else Tensor(np.asarray(env[k], dtype=np.float64))) for k, d in r.inputs.items()}
    out = r(**kw) if kw else r
    if not isinstance(out, (Tensor, Number)):
        with eager:
            out = reinterpret(out)
    if not isinstance(out, (Tensor, Number)) or out.inputs:
        raise NotImplementedError("not a number")
    return float(np.asarray(out.data))


def _all_envs(rng, inputs):
    ints = [(k, int(d.size)) for k, d in inputs.items() if d.dtype != "real"]
    reals = [(k, tuple(d.shape)) for k, d in inputs.items() if d.dtype == "real"]
    for ip in itertools.product(*[range(sz) for _, sz in ints]):
        e = dict(zip([k for k, _ in ints], ip))
        for k, sh in reals:
            e[k] = _dyarr(rng, sh, -6, 6)
        yield e


def s6_compare(ctx, label, r, expected_names, oracle, rng, wit, py):
    bad = [k for k in r.inputs if k not in expected_names]
    if bad:
        ctx.fail("input", f"C04.S6.{label}.inputs", witness=wit, expected=str(sorted(expected_names)),
                 got=str({k: str(d) for k, d in r.inputs.items()}), python=py)
        return False
    n = 0
    for e in _all_envs(rng, r.inputs):
        n += 1
        if n > 16:
            break
        try:
            got = _eval_closed(r, e)
        except DECLINE as ex:
            ctx.count(f"S6:{label}:eval-declined:{type(ex).__name__}")
            return True
        want = oracle(e)
        if not s5_close(got, want, True):
            ctx.fail("input", f"C04.S6.{label}.value", witness=dict(wit, point={k: np.asarray(v).tolist() for k, v in e.items()}),
                     expected=want, got=got, python=py)
            return False
    ctx.count(f"S6:{label}:ok")
    ctx.case(nontrivial_key=("S6", label, repr(wit)))
    return True


def s6_constant_lean(ctx, cobj, sig, r, wit):
    """Queue the three-way comparison for one Constant case: impl vs Lean `denote` (values, gate) vs the executable model of
    Constant.eager_subs (`constsubs`: new const inputs exactly, value table)."""
    from funsor.constant import Constant
    vals = OrderedDict()
    for k, v in sig.items():
        d = cobj.inputs[k]
        vals[k] = v if isinstance(v, Funsor) else (Variable(v, d) if isinstance(v, str) else Number(v, d.dtype))
    try:
        arg_wire = ser.to_wire(cobj.arg)
        sig_wire = [[Q(k), ser.to_wire(v)] for k, v in vals.items()]
    except ser.Unsupported:
        ctx.count("S6:constant:lean:beyond-wire")
        return
    exp = OrderedDict((k, d) for k, d in cobj.inputs.items() if k not in vals)
    for v in vals.values():
        for n_, d in v.inputs.items():
            if exp.setdefault(n_, d) != d:
                ctx.count("S6:constant:lean:ill-typed")
                return
    if any(d.shape for d in exp.values()):
        return
    sz = lambda d: 0 if d.dtype == "real" else int(d.size)
    ins = sorted((k, int(d.size)) for k, d in exp.items() if d.dtype != "real")
    renv = {k: 0.5 for k, d in exp.items() if d.dtype == "real"}
    arg_ins = OrderedDict((k, d) for k, d in cobj.arg.inputs.items() if k not in vals)
    for k, v in vals.items():
        if k in cobj.arg.inputs:
            arg_ins.update(v.inputs)
    consts_w = [[Q(k), sz(d)] for k, d in cobj.const_inputs.items()]
    vins_w = [[Q(k), [[Q(n_), sz(d)] for n_, d in v.inputs.items()]] for k, v in vals.items() if k in cobj.const_inputs]
    impl_consts = [(k, sz(d)) for k, d in r.const_inputs.items()] if isinstance(r, Constant) else []
    envw = sx(ser.env_wire(renv))
    q = ctx.extra.setdefault("_s6_const", [])
    q.append((f"C04 denote {sx(['subs', arg_wire, sig_wire])} {sx(ser.ins_wire(ins))} {envw}", "spec", wit, r, ins, renv, None))
    q.append((f"C04 constsubs {sx(consts_w)} {sx([[Q(k), sz(d)] for k, d in arg_ins.items()])} {sx(vins_w)} {sx(arg_wire)} {sx(sig_wire)} "
              f"{sx(ser.ins_wire(ins))} {envw}", "model", wit, r, ins, renv, impl_consts))


def s6_constant_finish(ctx):
    q = ctx.extra.pop("_s6_const", [])
    if not q:
        return
    answers = ctx.driver.ask([t[0] for t in q])
    spec = None
    for (req, kind, wit, r, ins, renv, impl_consts), ans in zip(q, answers):
        if kind == "spec":
            spec = ser.parse_table(ans)
            if spec is None or any(c is None for c in spec):
                ctx.count("S6:constant:lean:spec-undefined")
                spec = None
                continue
            try:
                st, cells = value_over(r, ins, renv)
            except (KeyError, ValueError) as ex:
                ctx.fail("input", "C04.S6.constant.inputs", witness=wit, expected=str(ins), got=str(ex))
                continue
            except DECLINE:
                continue
            if st == "value" and cells is not None:
                ok, bad = tables_match(cells, spec)
                if not ok:
                    ctx.fail("input", "C04.S6.constant.value-vs-denote", witness=wit, expected=str(spec)[:300], got=str(cells)[:300])
                else:
                    ctx.count("S6:constant:impl-eq-spec")
            continue
        if not ans.startswith("ok "):
            ctx.infra_errors.append(f"driver: {ans[:200]} for {wit}")
            continue
        t = parse_sx("(" + ans[3:] + ")")
        m_consts = [(str(k), int(v)) for k, v in t[0]]
        tab = ser.parse_table("ok " + sx_back(t[1]))
        if spec is not None and tab is not None:
            if _tables_same(tab, spec):
                ctx.count("S6:constant:model-eq-spec")
            else:
                ctx.fail("correspondence", "C04.S6.constant.model-vs-spec (const_eager_subs_sem echo)", witness=wit,
                         expected=str(spec)[:300], got=str(tab)[:300])
        if m_consts == impl_consts:
            ctx.count("S6:constant:const-inputs-identical")
            ctx.case(nontrivial_key=("S6.constant-lean", repr(wit)))
        else:
            ctx.fail("correspondence", "C04.S6.constant.const-inputs (Constant.eager_subs model)", witness=wit,
                     expected=str(m_consts), got=str(impl_consts))


def sx_back(t):
    """parse_sx output -> wire text."""
    if isinstance(t, list):
        return "(" + " ".join(sx_back(x) for x in t) + ")"
    return '"' + str(t) + '"' if isinstance(t, Q) else str(t)


def run_s6(ctx):
    from funsor.terms import Independent, Scatter
    from funsor.constant import Constant
    from funsor.sum_product import MarkovProduct
    rng = ctx.rng
    hdr = S5_HEADER + ("from funsor.terms import Independent, Scatter\nfrom funsor.constant import Constant\n"
                       "from funsor.sum_product import MarkovProduct\n")
    # ---- Independent(fn, 'x', 'i', 'x_i') with fn = a[i,k] * x_i + b[i]:  sum_i a[i,k] x[i] + b[i]
    for n, how in itertools.product([1, 2, 3], ["eager", "lazy"]):
        a = _dyarr(rng, (n, 2)); b = _dyarr(rng, (n,))
        with INTERPS[how]:
            fn = Tensor(a, OrderedDict(i=Bint[n], k=Bint[2])) * Variable("x_i", Real) + Tensor(b, OrderedDict(i=Bint[n]))
            f = Independent(fn, "x", "i", "x_i")
        build = (f"with {how}:\n    fn = Tensor({_arr_py(a)}, OrderedDict(i=Bint[{n}], k=Bint[2])) * Variable('x_i', Real) + "
                 f"Tensor({_arr_py(b)}, OrderedDict(i=Bint[{n}]))\n    f = Independent(fn, 'x', 'i', 'x_i')\n")
        base = lambda xv, k: float(sum(a[i, k] * xv[i] + b[i] for i in range(n)))
        vals = []
        arr = _dyarr(rng, (n,)); vals.append(("array", Tensor(arr), f"Tensor({_arr_py(arr)})", lambda e, arr=arr: arr, set()))
        arr2 = _dyarr(rng, (2, n))
        vals.append(("tensor-own-k", Tensor(arr2, OrderedDict(k=Bint[2])), f"Tensor({_arr_py(arr2)}, OrderedDict(k=Bint[2]))",
                     lambda e, arr2=arr2: arr2[e["k"]], {"k"}))
        arr3 = _dyarr(rng, (3, n))
        vals.append(("tensor-fresh", Tensor(arr3, OrderedDict(m=Bint[3])), f"Tensor({_arr_py(arr3)}, OrderedDict(m=Bint[3]))",
                     lambda e, arr3=arr3: arr3[e["m"]], {"m"}))
        vals.append(("rename", Variable("y", Reals[n]), f"Variable('y', Reals[{n}])", lambda e: np.asarray(e["y"]), {"y"}))
        vals.append(("affine", Variable("y", Reals[n]) * 2.0, f"(Variable('y', Reals[{n}]) * 2.0)", lambda e: 2.0 * np.asarray(e["y"]), {"y"}))
        for kind, v, vpy, vfn, vins in vals:
            for ksub in (None, 1):
                sig = {"x": v}
                spy = f"'x': {vpy}"
                if ksub is not None:
                    sig["k"] = ksub
                    spy += ", 'k': 1"
                wit = {"stream": "S6.independent", "n": n, "built_under": how, "x": kind, "k": ksub}
                py = hdr + build + f"r = f(**{{{spy}}})\nprint(r.inputs, r)\nFAILS = True\n"
                try:
                    r = f(**sig)
                except DECLINE as ex:
                    ctx.count(f"S6:independent:declined:{type(ex).__name__}")
                    continue
                expn = ({"k"} if ksub is None else set()) | set(vins)
                s6_compare(ctx, "independent", r, expn,
                           # simultaneous: the value reads the CALLER's k, fn's own k becomes ksub
                           lambda e, vfn=vfn, ksub=ksub: base(vfn(e), e["k"] if ksub is None else ksub), rng, wit, py)
    # ---- Constant: renames onto another const input that is substituted in the same call (and swaps), explicitly
    argd0 = _dyarr(rng, (2,))
    c0 = Constant(OrderedDict(a=Real, b=Real), Tensor(argd0, OrderedDict(j=Bint[2])))
    for sig in ({"a": "b", "b": 0.5}, {"a": "b", "b": "a"}, {"a": Variable("b", Real) + 1.0, "b": 0.5}, {"a": "b"}, {"a": "z", "b": "a"},
                {"a": "b", "b": Tensor(np.array([0.5, 1.0]), OrderedDict(j=Bint[2]))}):
        expn = {"j"} | {v for v in sig.values() if isinstance(v, str)} | set().union(*[set(getattr(v, "inputs", ())) for v in sig.values()]) \
            | ({"a", "b"} - set(sig))
        try:
            r = c0(**sig)
        except DECLINE as ex:
            ctx.count(f"S6:constant:declined:{type(ex).__name__}")
            continue
        if any(n_ not in r.inputs for n_ in expn):
            ctx.count("S6:constant:const-input-of-a-value-dropped(provenance lost, value unaffected)")
        s6_constant_lean(ctx, c0, sig, r, {"stream": "S6.constant-collide", "sigma": {k: str(v) for k, v in sig.items()}})
        s6_compare(ctx, "constant", r, expn, lambda e: float(argd0[e["j"]]), rng,
                   {"stream": "S6.constant-collide", "sigma": {k: str(v) for k, v in sig.items()}},
                   hdr + f"# Constant(OrderedDict(a=Real, b=Real), Tensor({argd0.tolist()}, j))(**{ {k: str(v) for k, v in sig.items()} })\nFAILS = True\n")
    for trial in range(30 if ctx.tier == "quick" else 300):
        consts = OrderedDict()
        for nm in rng.sample(["a", "b", "c"], rng.choice([1, 2, 3])):
            consts[nm] = rng.choice([Bint[2], Bint[3], Real])
        argd = _dyarr(rng, (2,))
        arg = Tensor(argd, OrderedDict(j=Bint[2]))
        f = Constant(consts, arg)
        sig, exp_names = {}, {"j"}
        for nm, d in consts.items():
            r_ = rng.random()
            if r_ < 0.3:
                exp_names.add(nm)
                continue
            if d.dtype == "real":
                sig[nm] = rng.choice([Tensor(np.array(0.5)), Variable(rng.choice(["p", "a", "b"]), Real),
                                      Tensor(np.array([0.5, 1.0]), OrderedDict(j=Bint[2]))])
            else:
                sig[nm] = rng.choice([0, Variable(rng.choice(["m", "a", "b", "c"]), d),
                                      Tensor(np.array([0, 1]), OrderedDict(j=Bint[2]), d.size)])
            if isinstance(sig[nm], Funsor):
                exp_names |= set(sig[nm].inputs)
        jsub = rng.choice([None, 1])
        if jsub is not None:
            sig["j"] = jsub
            # j may still be an input of a value
            if not any(isinstance(v, Funsor) and "j" in v.inputs for v in sig.values()):
                exp_names.discard("j")
        if not sig:
            continue
        wit = {"stream": "S6.constant", "consts": {k: str(d) for k, d in consts.items()}, "sigma": {k: str(v) for k, v in sig.items()}}
        try:
            r = f(**sig)
        except DECLINE as ex:
            ctx.count(f"S6:constant:declined:{type(ex).__name__}")
            continue
        # not gated (C04 lets an evaluated result omit inputs its value does not depend on — a Constant's value never depends on
        # its const inputs), but measured: Constant.eager_subs drops a value's input that is itself a substituted const input
        # (`if name not in self.inputs`), e.g. Constant({x,y}, a)(x='y', y=0) and the swap lose y / both
        lost = sorted(n_ for n_ in exp_names if n_ not in r.inputs)
        if lost:
            ctx.count("S6:constant:const-input-of-a-value-dropped(provenance lost, value unaffected)")
        s6_constant_lean(ctx, f, sig, r, wit)
        s6_compare(ctx, "constant", r, exp_names, lambda e, jsub=jsub: float(argd[jsub if jsub is not None else e["j"]]), rng, wit,
                   hdr + f"# Constant({dict(consts)}, Tensor({argd.tolist()}, j))(**{wit['sigma']})\nFAILS = True\n")
    s6_constant_finish(ctx)
    # ---- MarkovProduct (lazy) and Scatter (lazy): renamings are right; other shapes are the regions of two findings
    trans_d = _dyarr(rng, (2, 2, 2), 0, 4)
    trans = Tensor(trans_d, OrderedDict(t=Bint[2], a=Bint[2], b=Bint[2]))
    with lazy:
        mp = MarkovProduct(ops.add, ops.mul, trans, Variable("t", Bint[2]), frozenset({("a", "b")}),
                           frozenset({("a", "a"), ("b", "b")}))
    M = trans_d[0] @ trans_d[1]
    mp_py = (hdr + f"trans = Tensor({_arr_py(trans_d)}, OrderedDict(t=Bint[2], a=Bint[2], b=Bint[2]))\nwith lazy:\n"
             "    mp = MarkovProduct(ops.add, ops.mul, trans, Variable('t', Bint[2]), frozenset({('a', 'b')}), "
             "frozenset({('a', 'a'), ('b', 'b')}))\n")
    for sig, spec, clash in (({"a": "c"}, lambda e: M[e["c"], e["b"]], False), ({"a": "b", "b": "a"}, lambda e: M[e["b"], e["a"]], False),
                             ({"a": "b"}, lambda e: M[e["b"], e["b"]], False), ({"a": 1}, lambda e: M[1, e["b"]], False),
                             ({"a": "c", "b": 1}, lambda e: M[e["c"], 1], False), ({"a": "b", "b": 0}, lambda e: M[e["b"], 0], True),
                             ({"b": "a", "a": 1}, lambda e: M[1, e["a"]], True)):
        route = rng.choice(["lazy", "normalize", "reflect+apply_optimizer"])
        try:
            if route == "lazy":
                with lazy:
                    r = mp(**sig)
            else:
                r = s7_route(route, lambda: mp, sig)
            with eager:
                r = reinterpret(r)
        except DECLINE as ex:
            ctx.count(f"S6:markov:{route}:declined:{type(ex).__name__}")
            continue
        expn = {v for v in sig.values() if isinstance(v, str)} | ({"a", "b"} - set(sig))
        py = mp_py + f"with lazy:\n    r = mp(**{sig!r})\nr = reinterpret(r)\nprint(r.inputs, r)\nFAILS = True\n"
        if clash:
            ctx.count("S6:markov:rename-target-is-a-lazy-key")   # HEAD declines eager_subs here (49bc2e2): stays a lazy Subs
        s6_compare(ctx, "markov", r, expn, lambda e, spec=spec: float(spec(e)), rng, {"stream": "S6.markov", "sigma": sig}, py)
    src_d = _dyarr(rng, (3,)); idx_d = np.array([2, 0, 1])
    with lazy:
        sc = Scatter(ops.add, (("i", Tensor(idx_d, OrderedDict(j=Bint[3]), 4)),), Tensor(src_d, OrderedDict(j=Bint[3])) + Variable("x", Real),
                     frozenset({Variable("j", Bint[3])}))
    dense = np.zeros(4); dense[idx_d] = src_d
    sc_py = (hdr + f"with lazy:\n    sc = Scatter(ops.add, (('i', Tensor({_arr_py(idx_d)}, OrderedDict(j=Bint[3]), 4)),), "
             f"Tensor({_arr_py(src_d)}, OrderedDict(j=Bint[3])) + Variable('x', Real), frozenset({{Variable('j', Bint[3])}}))\n")
    for sig, spec, region in (({"i": "k"}, lambda e: dense[e["k"]], False), ({"i": 2}, lambda e: dense[2], True), ({"i": 3}, lambda e: dense[3], True),
                              ({"i": Tensor(np.array([0, 3]), OrderedDict(m=Bint[2]), 4)}, lambda e: dense[[0, 3][e["m"]]], True)):
        route = rng.choice(["call", "normalize", "reflect+apply_optimizer"])
        try:
            r = s7_route(route, lambda: sc, sig)
            r0 = r(x=0.0) if "x" in r.inputs else r
            with eager:
                r0 = reinterpret(r0)
        except DECLINE as ex:
            ctx.count(f"S6:scatter:declined:{type(ex).__name__}")
            continue
        expn = set().union(*[({v} if isinstance(v, str) else set(getattr(v, "inputs", ()))) for v in sig.values()])
        py = sc_py + f"r = sc(**{{'i': {('Tensor(np.array([0, 3]), OrderedDict(m=Bint[2]), 4)' if isinstance(sig['i'], Tensor) else repr(sig['i']))}}})\nprint(type(r).__name__, r.inputs)\nFAILS = 'i' in r.inputs\n"
        if region:
            ctx.count("S6:scatter:non-variable-destination")   # was silently dropped before 1ad895c
        s6_compare(ctx, "scatter", r0, expn, lambda e, spec=spec: float(spec(e)), rng,
                   {"stream": "S6.scatter", "sigma": {k: str(v) for k, v in sig.items()}}, py)


# ------------------------------------------------------------------------------------------------
# S7: Delta / Independent / MarkovProduct / Scatter eager_subs vs their executable Lean models
# ------------------------------------------------------------------------------------------------

def s7_delta_cases(rng, n_cases):
    """Yield (delta funsor, delta wire, sigma [(key, funsor value)], description)."""
    for _ in range(n_cases):
        has_b = rng.random() < 0.75
        n = rng.choice([2, 3]) if has_b else 1
        bins = OrderedDict(i=Bint[n]) if has_b else OrderedDict()
        names = rng.choice([["v"], ["v"], ["v", "u"], ["u", "v"]])
        terms, info = [], {}
        for nm in names:
            sh = rng.choice([(), (), (2,)])
            pb = bins if rng.random() < 0.8 else OrderedDict()
            lb = bins if rng.random() < 0.8 else OrderedDict()
            pts = _dyarr(rng, tuple(d.size for d in pb.values()) + sh, -1, 1)
            ld = _dyarr(rng, tuple(d.size for d in lb.values()), -4, 4)
            terms.append((nm, (Tensor(pts, pb), Tensor(ld, lb))))
            info[nm] = (sh, pts, bool(pb))
        d = Delta(tuple(terms))
        sigma = []
        for nm in names:
            sh, pts, batched = info[nm]
            kind = rng.choice(["none", "hit", "hit", "miss", "tensor", "tensor-own-batch", "rename-fresh", "rename-other", "rename-other"])
            if kind == "none":
                continue
            if kind in ("hit", "miss"):
                a = np.array(pts[rng.randrange(n)] if batched else pts, dtype=np.float64)
                sigma.append((nm, Tensor(a + (0.25 if kind == "miss" else 0.0)), kind))
            elif kind.startswith("tensor"):
                bn, bs = ("i", n) if (kind == "tensor-own-batch" and has_b) else ("m", 2)
                a = np.stack([np.array(pts[rng.randrange(n)] if batched else pts, dtype=np.float64) + (0.25 if rng.random() < 0.3 else 0.0)
                              for _ in range(bs)])
                sigma.append((nm, Tensor(a, OrderedDict([(bn, Bint[bs])])), kind))
            else:
                others = [x for x in ("v", "u") if x != nm]
                tgt = "w" if kind == "rename-fresh" else others[0]
                sigma.append((nm, Variable(tgt, Reals[sh] if sh else Real), kind))
        if has_b:
            kind = rng.choice(["none", "none", "int", "rename", "rename-m"])
            if kind == "int":
                sigma.append(("i", Number(rng.randrange(n), n), "int"))
            elif kind != "none":
                sigma.append(("i", Variable("k" if kind == "rename" else "m", Bint[n]), kind))
        if not sigma:
            continue
        rng.shuffle(sigma)
        yield d, sigma, {"stream": "S7.delta", "names": names, "batch": n if has_b else 0,
                         "sigma": [(k, kind) for k, _, kind in sigma]}


def s7_value_py(v):
    if isinstance(v, Variable):
        return f"Variable({v.name!r}, {('Bint[%d]' % v.output.size) if v.output.dtype != 'real' else ('Reals[' + ', '.join(map(str, v.output.shape)) + ']' if v.output.shape else 'Real')})"
    if isinstance(v, Number):
        return f"Number({v.data!r}, {v.dtype!r})"
    ins = ", ".join(f"({k!r}, Bint[{d.size}])" for k, d in v.inputs.items())
    return f"Tensor({_arr_py(np.asarray(v.data))}, OrderedDict([{ins}]), {v.dtype!r})"


def s7_route(route, get_f, kw):
    """The ways a substitution is performed: plain call (eager), under `normalize` (cnf.py's Subs rules: do_fresh_subs,
    distribute_subs_contraction, normalize_fuse_subs), normalize then reinterpret, reflect-built Subs -> apply_optimizer."""
    f = get_f()
    if route == "call":
        return f(**kw)
    if route.startswith("normalize"):
        with normalize:
            r = f(**kw)
        if route.endswith("+reinterpret"):
            with eager:
                r = reinterpret(r)
        return r
    with reflect:
        s_ = f(**kw)
    return apply_optimizer(s_)


def run_s7(ctx):
    from funsor.terms import Independent, Scatter
    from funsor.sum_product import MarkovProduct
    rng = ctx.rng
    reqs, meta = [], []
    # ---------------- Delta
    for d, sigma, wit in s7_delta_cases(rng, 300 if ctx.tier == "quick" else 4000):
        sigma = [t for t in sigma if t[0] in d.inputs]
        if not sigma:
            continue
        try:
            with reflect:
                d_wire = ser.to_wire(Delta(d.terms))
                sig_wire = [[Q(k), ser.to_wire(v)] for k, v, _ in sigma]
        except ser.Unsupported:
            ctx.count("S7:delta:beyond-wire")
            continue
        exp = OrderedDict((k, dom) for k, dom in d.inputs.items() if k not in [k_ for k_, _, _ in sigma])
        ill = False
        for k, v, _ in sigma:
            if v.output != d.inputs[k]:
                ill = True
            for nm, dom in v.inputs.items():
                if exp.setdefault(nm, dom) != dom:
                    ill = True
        if ill:
            ctx.count("S7:delta:ill-typed")
            continue
        ins = sorted((k, int(dom.size)) for k, dom in exp.items() if dom.dtype != "real")
        reals = sorted(k for k, dom in list(exp.items()) + list(d.inputs.items()) if dom.dtype == "real")
        # sample points of the remaining real inputs: one that can hit (a point of the delta) and one that misses
        free_reals = [(k, tuple(dom.shape)) for k, dom in exp.items() if dom.dtype == "real"]
        renvs = []
        for shift in (0.0, 0.25):
            e = {}
            for k, sh in free_reals:
                src = None
                for nm, (pt, _) in d.terms:
                    if tuple(pt.output.shape) == sh:
                        src = np.asarray(pt.data).reshape((-1,) + sh)[0]
                e[k] = (np.array(src, dtype=np.float64) if src is not None else np.zeros(sh)) + shift
                if not sh:
                    e[k] = float(e[k])
            renvs.append(e)
            if not free_reals:
                break
        py = (S5_HEADER + "g = Delta((" + ", ".join(f"({nm!r}, ({s7_value_py(pt)}, {s7_value_py(ld)}))" for nm, (pt, ld) in d.terms) + ",))\n" +
              "r = g(**{" + ", ".join(f"{k!r}: {s7_value_py(v)}" for k, v, _ in sigma) + "})\nprint(r.inputs, r)\nFAILS = True\n")
        route = rng.choice(["call", "call", "normalize", "normalize+reinterpret", "reflect+apply_optimizer"])
        wit = dict(wit, route=route)
        py = py.replace("r = g(**{", {"call": "r = g(**{", "normalize": "with normalize:\n    r = g(**{",
                                      "normalize+reinterpret": "with normalize:\n    r = g(**{",
                                      "reflect+apply_optimizer": "with reflect:\n    r = g(**{"}[route]) + f"# route: {route}\n"
        try:
            r = s7_route(route, lambda: d, {k: v for k, v, _ in sigma})
            status = "value"
        except DECLINE as ex:
            r, status = None, "declined"
            ctx.count(f"S7:delta:{route}:declined:{type(ex).__name__}")
        ctx.count(f"S7:delta:route:{route}")
        if r is not None:
            bad = [k for k, dom in r.inputs.items() if k not in exp or exp[k] != dom]
            if bad:
                ctx.fail("input", "C04.S7.delta.inputs", witness=wit, expected=str({k: str(v) for k, v in exp.items()}),
                         got=str({k: str(v) for k, v in r.inputs.items()}), python=py)
                continue
        for renv in renvs:
            envw = sx(ser.env_wire({k: np.asarray(v) for k, v in renv.items()}))
            reqs.append(f"C04 denote {sx(['subs', d_wire, sig_wire])} {sx(ser.ins_wire(ins))} {envw}")
            meta.append(("delta-spec", wit, py, r, ins, renv))
            reqs.append(f"C04 deltasubs {sx([Q(x) for x in reals])} {sx(d_wire)} {sx(sig_wire)} {sx(ser.ins_wire(ins))} {envw}")
            meta.append(("delta-model", wit, py, r, ins, renv))
    # ---------------- Independent
    for n, how in itertools.product([1, 2, 3], ["eager", "lazy"]):
        a = _dyarr(rng, (n, 2)); b = _dyarr(rng, (n,))
        mk = lambda: Independent(Tensor(a, OrderedDict(i=Bint[n], k=Bint[2])) * Variable("x_i", Real) + Tensor(b, OrderedDict(i=Bint[n])),
                                 "x", "i", "x_i")
        with INTERPS[how]:
            f = mk()
        with reflect:
            f_wire = ser.to_wire(mk())
        arr = _dyarr(rng, (n,)); arr2 = _dyarr(rng, (2, n)); arr3 = _dyarr(rng, (3, n))
        vals = [("array", lambda: Tensor(arr)), ("tensor-own-k", lambda: Tensor(arr2, OrderedDict(k=Bint[2]))),
                ("tensor-fresh", lambda: Tensor(arr3, OrderedDict(m=Bint[3]))), ("rename", lambda: Variable("y", Reals[n])),
                ("rename-x", lambda: Variable("x", Reals[n])), ("affine", lambda: Variable("y", Reals[n]) * 2.0),
                ("lazy-sum", lambda: Variable("y", Reals[n]) + Tensor(arr2, OrderedDict(k=Bint[2])))]
        for (kind, vth), ksub in itertools.product(vals, [None, 1, "m"]):
            kth = (lambda: Number(1, 2)) if ksub == 1 else (lambda: Variable("m", Bint[2]))
            sig_th = [("x", vth)] + ([] if ksub is None else [("k", kth)])
            if rng.random() < 0.5:
                sig_th.reverse()
            sig = [(k_, th()) for k_, th in sig_th]
            try:
                with reflect:
                    sig_wire = [[Q(k_), ser.to_wire(th())] for k_, th in sig_th]
            except ser.Unsupported:
                ctx.count("S7:independent:beyond-wire")
                continue
            exp = OrderedDict((k_, dom) for k_, dom in f.inputs.items() if k_ not in dict(sig))
            ill = False
            for k_, v_ in sig:
                for nm, dom in v_.inputs.items():
                    if exp.setdefault(nm, dom) != dom:
                        ill = True
            if ill:
                ctx.count("S7:independent:ill-typed")
                continue
            ins = sorted((k_, int(dom.size)) for k_, dom in exp.items() if dom.dtype != "real")
            renv = {k_: _dyarr(rng, tuple(dom.shape), -4, 4) for k_, dom in exp.items() if dom.dtype == "real"}
            wit = {"stream": "S7.independent", "n": n, "built_under": how, "x": kind, "k": ksub}
            py = S5_HEADER + f"# Independent(T[i,k]*x_i + T[i], 'x','i','x_i') built under {how}; sigma x:={kind}, k:={ksub}\nFAILS = True\n"
            route = rng.choice(["call", "normalize", "normalize+reinterpret", "reflect+apply_optimizer"])
            wit["route"] = route
            try:
                r = s7_route(route, lambda: f, dict(sig))
            except DECLINE as ex:
                r = None
                ctx.count(f"S7:independent:{route}:declined:{type(ex).__name__}")
            envw = sx(ser.env_wire(renv))
            reqs.append(f"C04 denote {sx(['subs', f_wire, sig_wire])} {sx(ser.ins_wire(ins))} {envw}")
            meta.append(("indep-spec", wit, py, r, ins, renv))
            reqs.append(f"C04 indepsubs {sx(f_wire)} {sx(sig_wire)} {sx(ser.ins_wire(ins))} {envw}")
            meta.append(("indep-model", wit, py, r, ins, renv))
    # ---------------- MarkovProduct / Scatter: the decision eager_subs takes, exhaustively over sigma-shapes
    trans = Tensor(_dyarr(rng, (2, 2, 2), 0, 3), OrderedDict(t=Bint[2], a=Bint[2], b=Bint[2]))
    with lazy:
        mp = MarkovProduct(ops.add, ops.mul, trans, Variable("t", Bint[2]), frozenset({("a", "b")}),
                           frozenset({("a", "a"), ("b", "b")}))
        sc = Scatter(ops.add, (("a", Tensor(np.array([1, 0, 1]), OrderedDict(j=Bint[3]), 2)), ("b", Tensor(np.array([0, 1, 1]), OrderedDict(j=Bint[3]), 2))),
                     Tensor(_dyarr(rng, (3,)), OrderedDict(j=Bint[3])) + Variable("x", Real), frozenset({Variable("j", Bint[3])}))
    opts = [None, "a", "b", "c", 0, "T"]
    for node, label in ((mp, "markov"), (sc, "scatter")):
        visible = {v: k for k, v in node.step_names.items()} if label == "markov" else {k: k for k, _ in node.subs}
        sn = [(b_, v_) for v_, b_ in visible.items()]
        for va, vb, flip in itertools.product(opts, opts, [False, True]):
            pairs = [(k, v) for k, v in (("a", va), ("b", vb)) if v is not None]
            if not pairs:
                continue
            if flip:
                pairs.reverse()
            fv = lambda v: (Variable(v, Bint[2]) if isinstance(v, str) and v != "T" else
                            Number(0, 2) if v == 0 else Tensor(np.array([1, 0]), OrderedDict(c=Bint[2]), 2))
            try:
                with lazy:
                    res = node.eager_subs(tuple((k, fv(v)) for k, v in pairs))
            except DECLINE as ex:
                ctx.count(f"S7:{label}:eager_subs-raised:{type(ex).__name__}")
                continue
            if res is None:
                obs = "declined"
            else:
                # (a lazily built Subs alpha-mangles its own keys, and with them the visible names of its argument:
                #  compared modulo that renaming)
                um = lambda x: x.split("__BOUND")[0]
                inner, lz = (res.arg, sorted(um(k) for k in res.subs)) if isinstance(res, Subs) else (res, [])
                if label == "markov":
                    obs = (sorted((k, um(v)) for k, v in inner.step_names.items()), lz)
                else:
                    obs = (sorted(zip([k for k, _ in node.subs], [um(k) for k, _ in inner.subs])), lz)
            sig_w = [[Q(k), (Q(v) if isinstance(v, str) and v != "T" else "none")] for k, v in pairs]
            reqs.append(f"C04 mpdecide {sx([[Q(b_), Q(v_)] for b_, v_ in sn])} {sx(sig_w)}")
            meta.append(("mpdecide", {"stream": f"S7.{label}", "sigma": pairs}, None, obs, None, None))
    if not reqs:
        return
    answers = ctx.driver.ask(reqs)
    spec_tab = None
    for (kind, wit, py, r, ins, renv), ans in zip(meta, answers):
        if kind == "mpdecide":
            if not ans.startswith("ok"):
                ctx.infra_errors.append(f"driver: {ans[:200]} for {wit}")
                continue
            if ans.strip() == "ok declined":
                mobs = "declined"
            else:
                t = parse_sx("(" + ans[3:] + ")")
                mobs = (sorted((str(k), str(v)) for k, v in t[0]), sorted(str(x) for x in t[1]))
            if mobs != r:
                ctx.fail("correspondence", f"C04.S7.{wit['stream'][3:]}.eager_subs-decision", witness=wit, expected=str(mobs), got=str(r))
            else:
                ctx.count(f"{wit['stream'].replace('.', ':')}:decision-identical:{'declined' if r == 'declined' else 'renamed'}")
                ctx.case(nontrivial_key=(wit["stream"], repr(wit["sigma"])))
            continue
        fam = kind.split("-")[0]
        if kind.endswith("-spec"):
            spec_tab = ser.parse_table(ans)
            if spec_tab is None:
                ctx.infra_errors.append(f"driver: {ans[:200]} for {wit}")
                continue
            if any(c is None for c in spec_tab):
                ctx.count(f"S7:{fam}:spec-undefined")
                spec_tab = None
                continue
            if r is None:
                continue
            try:
                st, cells = value_over(r, ins, renv)
            except (KeyError, ValueError) as ex:
                ctx.fail("input", f"C04.S7.{fam}.inputs", witness=wit, expected=str(ins), got=str(ex), python=py)
                continue
            except DECLINE:
                ctx.count(f"S7:{fam}:eval-declined")
                continue
            if st != "value" or cells is None:
                ctx.count(f"S7:{fam}:lazy-result")
                continue
            ok, bad = tables_match(cells, spec_tab)
            if not ok:
                ctx.fail("input", f"C04.S7.{fam}.value", witness=dict(wit, real_env={k: np.asarray(v).tolist() for k, v in renv.items()}),
                         expected=str(spec_tab[bad] if bad is not None and bad >= 0 else spec_tab)[:300],
                         got=str(cells[bad] if bad is not None and bad >= 0 else cells)[:300], python=py)
                continue
            ctx.count(f"S7:{fam}:impl-eq-spec")
            ctx.case(nontrivial_key=("S7", fam, repr(wit), repr(sorted((k, np.asarray(v).tolist()) for k, v in renv.items()))))
        else:
            if ans.strip() == "ok declined":
                ctx.count(f"S7:{fam}:model-declined" + (":impl-returned" if r is not None else ":impl-declined"))
                continue
            tab = ser.parse_table(ans)
            if tab is None:
                ctx.infra_errors.append(f"driver: {ans[:200]} for {wit}")
                continue
            if spec_tab is None:
                continue
            if not _tables_same(tab, spec_tab):
                ctx.fail("correspondence", f"C04.S7.{fam}.model-vs-spec (eager_subs model theorem echo)", witness=wit,
                         expected=str(spec_tab)[:300], got=str(tab)[:300])
            else:
                ctx.count(f"S7:{fam}:model-eq-spec")


def run_s5(ctx, n, use_lean=True):
    for _ in range(n):
        if ctx.rng.random() < 0.8:
            s5_gaussian(ctx, ctx.rng)
        else:
            s5_delta(ctx, ctx.rng)
    gd = ctx.extra.pop("_s5_gdec", [])
    if use_lean and gd:
        for (req, stages, wit), ans in zip(gd, ctx.driver.ask([t[0] for t in gd])):
            if not ans.startswith("ok "):
                ctx.infra_errors.append(f"driver: {ans[:200]} for {wit}")
                continue
            t = parse_sx(ans[3:])
            model = [("var" if str(st[0]) == "var-conflict" else str(st[0]), [str(k) for k in st[1]]) for st in t
                     if str(st[0]) in ("var", "var-conflict", "int", "real", "affine")]
            # (the terminal lazy stage builds a reflect Subs, whose alpha-mangling of its bound keys is one more pure renaming
            #  of the Gaussian: `reflect` -> _alpha_mangle -> substitute -> Gaussian.eager_subs with Variables)
            for st in t:
                if str(st[0]) == "lazy" and st[1]:
                    model.append(("var", [str(k) for k in st[1]]))
            # (after a name conflict the code raises: nothing follows)
            if any(str(st[0]) == "var-conflict" for st in t):
                model = model[:1 + [str(st[0]) for st in t].index("var-conflict")]
            got = [(b, list(ks)) for b, ks in stages]
            if model == got:
                ctx.count("S5:gdecide:branch-chain-identical:" + ">".join(b for b, _ in got))
            else:
                ctx.fail("correspondence", "C04.S5.gaussian-eager_subs-branches (gDecide)", witness=wit, expected=str(model), got=str(got))
    tie = ctx.extra.pop("_s5_tie", [])
    if not use_lean or not tie:
        return
    answers = ctx.driver.ask([t[0] for t in tie])
    for (req, got, params, wit), ans in zip(tie, answers):
        if not ans.startswith("ok "):
            ctx.count(f"S5:tie:{ans[:20]}")
            continue
        t = parse_sx("(" + ans[3:] + ")")
        m_eval, s_eval = Fraction(t[0]), Fraction(t[1])
        if m_eval != s_eval:
            ctx.fail("correspondence", "C04.S5.lean-gsubs-model-vs-spec (gauss_subs_real_sem echo)", witness=wit,
                     expected=str(s_eval), got=str(m_eval))
            continue
        # (the Gaussian constructor compresses rank > dim by a QR step: values agree up to rounding, not bit for bit)
        if abs(float(got) - float(m_eval)) > 1e-9 * max(1.0, abs(float(m_eval))):
            ctx.fail("correspondence", "C04.S5.impl-vs-lean-gsubs", witness=dict(wit, request=req), expected=str(m_eval), got=str(got))
            continue
        ctx.count("S5:tie:value-identical" if got == m_eval else "S5:tie:value-within-1e-9")
        if params is not None:
            mw = [Fraction(x) for x in t[2]]
            mP = [[Fraction(x) for x in row] for row in t[3]]
            ctx.count("S5:tie:params-identical" if (mw, mP) == (list(params[0]), [list(r_) for r_ in params[1]]) else "S5:tie:params-differ")


# ------------------------------------------------------------------------------------------------
# entry points
# ------------------------------------------------------------------------------------------------

RULE = ("S1: exhaustive sigma-shapes (18 descriptors per input: none, number, variable->each of 5 pool names, "
        "slice->each of 5 pool names, index tensor over 6 input sets) for tensors with 1-3 inputs of sizes 1-3 "
        "(n=1: all sizes; n=2: 4 size patterns quick / all 9 thorough; n=3: 2 quick / 8 thorough), random data/slice "
        "parameters, also applied to a lazy s+u substituted under eager; impl vs numpy oracle vs Lean Tensor.eager_subs "
        "model vs Lean denote. S2: random (f, sigma) with f from fv/gen_terms.py (depth <= 3, 1-3 inputs of sizes 1-3, "
        "optional real free variables) built under eager/lazy/reflect, sigma from {number, variable over a 5-name pool, "
        "slice, index tensor, integer lazy expression, real expression}, foreign keys, chained vs fused; vs Lean denote "
        "over the whole input space (real inputs at sample points; real ARRAY inputs Reals[n] read through sum/getitem and "
        "substituted by array tensors / renamings; reductions over absent variables kept). S5 (spec-only, beyond the Lean "
        "term model): Gaussians with 2-4 real inputs (scalars / small vectors) + 0-2 batch inputs and Deltas, dyadic "
        "parameters, sigma in every order of the pairs through g(**kw) and a directly built Subs, chained with a non-affine "
        "lazy first step, fused and fused-reversed, vs the explicit formula; partial real substitutions additionally tied "
        "to the Lean model of _eager_subs_real (ordered pairs). S6 (python oracles): Independent, Constant, lazy MarkovProduct/"
        "Scatter. S7 (Lean models): Deltas with 1-2 names (hit/miss/tensor values, renamings incl. swaps and collisions, batch "
        "index/rename, shuffled pairs) vs `deltasubs` and denote; Independent (7 value kinds x 3 batch substitutions) vs "
        "`indepsubs`; the eager_subs decision of MarkovProduct/Scatter exhaustively over 6x6 sigma-shapes x both pair orders "
        "vs `mpdecide`. ROUTES of a substitution (S2/S8, and S6/S7 for Delta/Independent/MarkovProduct/Scatter): plain call, call under "
        "lazy, call under normalize (cnf.py Subs rules: do_fresh_subs, distribute_subs_contraction, normalize_fuse_subs), normalize then "
        "reinterpret(eager), reflect-built Subs -> stack_reinterpret / recursion_reinterpret / apply_optimizer; the normalize and optimizer "
        "routes avoid the regions of the open findings KF-minmax-mul-negative and KF-shared-binder-unfold (min/max with mul/sub/neg; several "
        "reductions), where the other routes still run. S8: Stack / Cat / n-ary Contraction with a repeated identical part (6 layouts) and a sibling 1-3 levels "
        "deeper, at/below the root, x 8 sigma maps (numbers, swap, diagonal, expressions, partial, with int keys), built under "
        "lazy/reflect/eager, both reinterpreters, vs Lean denote. S3: exhaustive boxes for Slice-into-Slice, Cat/Stack "
        "with Slice/Number. S9 (call sugar f(*args, **kwargs)): the S1 sigma-shapes (exhaustive descriptor products for 1-2 inputs, sampled for 3) "
        "spelled as p leading positional values + keywords for every p >= 1, in each of 4 modes (mixed; keyword overriding a positional slot with a decoy positional; "
        "foreign keywords naming free variables of positional values; surplus positionals), f = Tensor / t*sum(t) with a bound name that is also "
        "a key / lazy t+u built under eager/lazy/reflect, called under eager/lazy/reflect (then reinterpreted; under reflect the keys of the ONE "
        "Subs node are read off), vs the numpy function-application table of the merged map and Lean denote(subs). "
        "Non-trivial = at least one non-number value; distinct by full content.")


# ------------------------------------------------------------------------------------------------
# S9: the call sugar f(*args, **kwargs)   (Funsor.__call__, terms.py:352-361)
#     positional values bind the LEADING inputs of f (in f.inputs order), keywords bind by name, a keyword on a
#     positionally bound slot wins, surplus positionals and keywords that are not inputs of f are ignored — and the
#     merged map is ONE simultaneous substitution: a keyword key must not capture a free name of a positional value
#     (f(j, j=2) is j -> f[j, 2]; f('j', j='i') is the transpose), nor may a foreign keyword (f('a', a=1)).
#     Oracle = the numpy function-application table of the merged sigma (s1_oracle) and Lean `denote (subs f sigma)`.
# ------------------------------------------------------------------------------------------------

S9_MODES = ["mixed", "override", "foreign", "surplus"]


def s9_cases(rng, tier):
    """(own_sizes, ev_shape, desc, p, mode): exhaustive descriptor products x every positional prefix length p x every mode
    for n <= 2, sampled for n = 3."""
    thorough = tier == "thorough"
    pats = [(2,), (3,), (2, 2), (3, 3)] + ([(2, 3), (3, 2), (1, 2), (1, 1)] if thorough else [rng.choice([(2, 3), (3, 2), (1, 2)])])
    for sizes in pats:
        own = POOL[:len(sizes)]
        for desc in itertools.product(*[s1_descriptors(k, own) for k in own]):
            for p in range(1, len(sizes) + 1):
                for mode in S9_MODES:
                    yield list(zip(own, sizes)), ((2,) if rng.random() < 0.15 else ()), desc, p, mode
    for sizes in [(2, 2, 2), (3, 3, 3)] + ([(2, 3, 2), (3, 2, 2)] if thorough else []):
        own = POOL[:3]
        ds = [s1_descriptors(k, own) for k in own]
        for _ in range(8000 if thorough else 1500):
            yield list(zip(own, sizes)), (), tuple(rng.choice(d) for d in ds), rng.randrange(1, 4), rng.choice(S9_MODES)


def s9_python(build, args_py, kw_py, call_interp, ins, oracle):
    body = f"f({', '.join(args_py + ['**{' + ', '.join(kw_py) + '}'])})"
    if call_interp == "eager":
        call = f"CALL = lambda: {body}\n"
    else:
        call = f"def CALL():\n    with {call_interp}:\n        s = {body}\n    print(s)\n    with eager:\n        return reinterpret(s)\n"
    return PY_HEADER + build + call + py_footer(ins, oracle)


def run_s9(ctx, use_lean=True):
    rng = ctx.rng
    reqs, meta = [], []
    creqs, cmeta = [], []
    n_cases = 0
    for own_sizes, ev_shape, desc, p, mode in s9_cases(rng, ctx.tier):
        n = len(own_sizes)
        sizes = dict(own_sizes)
        own = [k for k, _ in own_sizes]
        # ---- how the pairs are spelled in the call: p = number of positional arguments bound to inputs
        # positional slots must carry a value: an unsubstituted leading input is passed as its own name (identity)
        desc = tuple(("var", k) if i < p and d[0] == "none" else d for i, (k, d) in enumerate(zip(own, desc)))
        if all(d[0] == "none" for d in desc):
            continue
        sigma = s1_instantiate(rng, own_sizes, desc)
        sig_ins = [(k, sval_inputs(v)) for k, v in sigma]
        exp = expected_inputs(own_sizes, sig_ins)
        if exp is None:
            ctx.count("S9:ill-typed-sizes")
            continue
        ins = sorted(exp.items())
        shape = tuple(s for _, s in own_sizes) + ev_shape
        data = np.array([rng.choice([-2, -1, 0, 1, 2, 3, 4, 5, 6, 7]) for _ in range(int(np.prod(shape)))],
                        dtype=np.float64).reshape(shape)
        sig = dict(sigma)
        args = [sig[k] for k in own[:p]]
        kwargs = [(k, sig[k]) for k in own[p:] if k in sig]
        if mode == "override":
            # some positional slots are ALSO given by keyword (the keyword is the effective value); the positional
            # value becomes a decoy drawn from the same descriptor space
            for i in range(p):
                if rng.random() < 0.6:
                    k = own[i]
                    decoy = s1_instantiate(rng, [own_sizes[i]], [rng.choice([d for d in s1_descriptors(k, own) if d[0] != "none"])])[0][1]
                    if expected_inputs(own_sizes, sig_ins + [(k, sval_inputs(decoy))]) is None:
                        continue                       # keep the decoy well-typed too
                    kwargs.append((k, sig[k]))
                    args[i] = decoy
            rng.shuffle(kwargs)
        elif mode == "foreign":
            # keywords that are not inputs of f (ignored), preferably names the positional values mention
            free = [nm for k in own[:p] for nm, _ in sval_inputs(sig[k]) if nm not in sizes]
            cand = sorted(set(free)) or [x for x in POOL if x not in sizes]
            for nm in cand[:2]:
                sz = dict(ins).get(nm, 2)
                kwargs.append((nm, ("num", rng.randrange(max(sz, 1))) if rng.random() < 0.6 else ("var", rng.choice(POOL), sz)))
        elif mode == "surplus":
            args = args + [("num", 0)] * rng.randrange(1, 3) if p == n else args
        oracle = s1_oracle(data, own_sizes, ev_shape, sigma, ins)
        if oracle is None:
            ctx.count("S9:ill-typed-range")
            continue
        # does a keyword key occur free in a positional value?  (the region a sequential implementation gets wrong)
        pos_free = set(nm for v in args for nm, _ in sval_inputs(v))
        coincide = bool(pos_free & set(k for k, _ in kwargs))
        # ---- the function
        vchoice = rng.random()
        variant = "tensor" if vchoice < 0.6 or ev_shape else ("red" if vchoice < 0.8 and n >= 2 else ("lazybin" if n >= 2 else "tensor"))
        build_interp = "eager" if variant == "tensor" else rng.choice(["eager", "lazy", "reflect"]) if variant == "red" else rng.choice(["lazy", "reflect"])
        call_interp = rng.choice(["eager", "eager", "lazy", "reflect"])
        t_py = (f"Tensor(np.array({{d}}, dtype=np.float64), OrderedDict([" + ", ".join(f"({nm!r}, Bint[{s}])" for nm, s in own_sizes) + "]))")
        t = Tensor(data, OrderedDict((nm, Bint[s]) for nm, s in own_sizes))
        if variant == "tensor":
            f, the_data = t, data
            build = "f = " + t_py.format(d=data.tolist()) + "\n"
        elif variant == "red":
            # a bound name that is also a substituted key / a free name of a value:  t * sum_{last} t
            with INTERPS[build_interp]:
                f = t * t.reduce(ops.add, own[-1])
            the_data = data * data.sum(axis=n - 1, keepdims=True)
            build = "t = " + t_py.format(d=data.tolist()) + f"\nwith {build_interp}:\n    f = t * t.reduce(ops.add, {own[-1]!r})\n"
        else:
            d2 = np.array([rng.choice([0, 10, 20, 30]) for _ in range(sizes[own[-1]])], dtype=np.float64)
            u = Tensor(d2, OrderedDict([(own[-1], Bint[sizes[own[-1]]])]))
            with INTERPS[build_interp]:
                f = t + u
            the_data = data + d2
            build = ("t = " + t_py.format(d=data.tolist()) + f"\nu = Tensor(np.array({d2.tolist()}, dtype=np.float64), "
                     f"OrderedDict([({own[-1]!r}, Bint[{sizes[own[-1]]}])]))\nwith {build_interp}:\n    f = t + u\n")
        if list(f.inputs) != own:
            ctx.count("S9:input-order-differs")      # positional binding follows f.inputs: only the declared order is generated
            continue
        the_oracle = oracle if variant == "tensor" else s1_oracle(the_data, own_sizes, (), sigma, ins)
        n_cases += 1
        tsize = lambda k: sizes.get(k, dict(ins).get(k, 2))
        a_vals = [sval_funsor_typed(v, sizes[own[i]] if i < n else 1) for i, v in enumerate(args)]
        k_vals = {k: sval_funsor_typed(v, tsize(k)) for k, v in kwargs}
        args_py = [sval_python(v, sizes[own[i]] if i < n else 1) for i, v in enumerate(args)]
        kw_py = [f"{k!r}: {sval_python(v, tsize(k))}" for k, v in kwargs]
        py = s9_python(build, args_py, kw_py, call_interp, ins, the_oracle)
        wit = {"stream": "S9", "variant": variant, "built_under": build_interp, "called_under": call_interp, "mode": mode,
               "inputs": own_sizes, "event_shape": list(ev_shape), "data": data.tolist(),
               "args": [describe_sval(v) for v in args], "kwargs": [(k, describe_sval(v)) for k, v in kwargs],
               "effective_sigma": [(k, describe_sval(v)) for k, v in sigma], "keyword_key_free_in_positional": coincide}
        label = f"S9:{variant}:{mode}:{'coincide' if coincide else 'disjoint'}"
        try:
            with INTERPS[call_interp]:
                r = f(*a_vals, **k_vals)
            if call_interp == "reflect" and isinstance(r, Subs):
                # what was substituted, read off the reflected node: exactly the effective pairs, at once
                got_keys = sorted(k.split("__BOUND_")[0] for k in r.subs)      # the keys of a reflected Subs are alpha-renamed
                # (fidelity, counted only: a different but equivalent nesting is not a violation of the statement;
                #  the value and inputs gates below decide)
                if use_lean:
                    # the Lean model of Funsor.__call__ (`callPairs`, Props/C04/Call.lean) on tokens, against the ordered pairs
                    # of the reflected node (values are cons-hashed: compared by identity after to_funsor)
                    toks = {f"a{i}": (v, None) for i, v in enumerate(a_vals)}
                    toks.update({f"k:{k}": (v, k) for k, v in k_vals.items()})
                    creqs.append("C04 callpairs " + sx([Q(k) for k in f.inputs]) + " " + sx([Q(f"a{i}") for i in range(len(a_vals))]) +
                                 " " + sx([[Q(k), Q(f"k:{k}")] for k in k_vals]))
                    cmeta.append((toks, dict(f.inputs), [(k.split("__BOUND_")[0], v) for k, v in r.subs.items()], not isinstance(r.arg, Subs)))
                if got_keys != sorted(sig) or isinstance(r.arg, Subs):
                    ctx.count("S9:reflected-pairs-differ")
                else:
                    ctx.count("S9:reflected-pairs-ok")
            if call_interp != "eager" or not isinstance(r, (Tensor, Number)):
                # lazily built: the inputs clause is exact
                if call_interp != "eager" and set(r.inputs) != set(exp):
                    ctx.fail("input", "C04.S9.inputs-lazy", witness=wit, expected=f"inputs = {dict(exp)}",
                             got=str({k: str(v) for k, v in r.inputs.items()}), python=py)
                    continue
                with eager:
                    r = reinterpret(r)
        except DECLINE as e:
            ctx.count(f"S9:declined:{type(e).__name__}")
            ctx.case()
            continue
        bad_in = [nm for nm, d in r.inputs.items() if nm not in exp or exp[nm] != d.size]
        if bad_in:
            ctx.fail("input", "C04.S9.inputs", witness=wit, expected=f"inputs ⊆ {dict(exp)}",
                     got=str({k: str(v) for k, v in r.inputs.items()}), python=py)
            continue
        if not isinstance(r, (Tensor, Number)):
            ctx.count("S9:lazy-result")
            ctx.case()
            continue
        try:
            impl = table_of(r, ins)
        except (KeyError, ValueError) as e:
            ctx.fail("input", "C04.S9.inputs", witness=wit, expected=f"inputs ⊆ {dict(exp)}", got=str(e), python=py)
            continue
        if not same_table(impl, the_oracle):
            ctx.fail("input", "C04.S9.value", witness=wit, expected={"inputs": ins, "table": the_oracle.tolist()},
                     got={"inputs": [(k, v.size) for k, v in r.inputs.items()], "table": impl.tolist()}, python=py)
            continue
        ctx.count(label)
        ctx.count(f"S9:called-under:{call_interp}")
        ctx.case(sample=wit if n_cases % 1499 == 0 else None,
                 nontrivial_key=("S9", variant, mode, p, tuple(own_sizes), desc, coincide) if (kwargs or p > 1 or args[0][0] != "num") else None)
        if use_lean and variant == "tensor" and (coincide or n_cases % 5 == 0):
            term = ["subs", ["tensor", [[Q(nm), s] for nm, s in own_sizes], ["real"] + list(ev_shape), [float(x) for x in data.reshape(-1)]],
                    [[Q(k), sval_term_wire(v, sizes[k])] for k, v in sigma]]
            reqs.append(f"C04 denote {sx(term)} {sx(ser.ins_wire(ins))} ()")
            meta.append((wit, impl, py))
    from funsor.terms import to_funsor
    for (toks, f_ins, pairs, direct), ans in zip(cmeta, ctx.driver.ask(creqs) if creqs else []):
        if not ans.startswith("ok "):
            ctx.infra_errors.append(f"driver: {ans} (callpairs)")
            continue
        model = [(str(k), str(t)) for k, t in parse_sx(ans[3:])]
        same = direct and len(model) == len(pairs) and all(
            mk == ik and to_funsor(toks[mt][0], f_ins[mk]) is iv for (mk, mt), (ik, iv) in zip(model, pairs))
        ctx.count("S9:model-callpairs-identical" if same else "S9:model-callpairs-differs")   # fidelity of the model of __call__
    if not reqs:
        return
    for (wit, impl, py), ans in zip(meta, ctx.driver.ask(reqs)):
        tab = ser.parse_table(ans)
        if tab is None or any(c is None for c in tab):
            ctx.fail("correspondence", "C04.S9.lean-denote-undefined", witness=wit, expected="defined table", got=ans[:300])
            continue
        flat = [x for _, vals in tab for x in vals]
        if flat != [futil.exact(x) for x in impl.reshape(-1)]:
            ctx.fail("input", "C04.S9.value-vs-lean-denote", witness=wit, expected=str(flat)[:400], got=str(impl.tolist())[:400], python=py)
        else:
            ctx.count("S9:lean-denote-agrees")


FRESH_COVERED = {"Variable": "S2 (substitute var case)", "Tensor": "S1/S2", "Slice": "S2/S3", "Stack": "S2/S3/S4/S8", "Cat": "S2/S3/S4/S8",
                 "Delta": "S5/S7", "Independent": "S6/S7", "Scatter": "S6/S7", "MarkovProduct": "S6/S7", "Constant": "S6",
                 "Gaussian": "S5", "Approximate": "not a substitution target of its own (fresh = approx_vars, all bound)"}


def extract(ctx):
    """Which Funsor classes introduce FRESH names (the names `do_fresh_subs` / SubstituteInterpretation hand to the class's
    eager_subs): read off the source of every `__init__` under funsor/, cross-checked against the streams that cover them."""
    import ast
    from pathlib import Path
    from ..common import REPO
    found = {}
    for path in sorted((Path(REPO) / "funsor").glob("*.py")):
        try:
            tree = ast.parse(path.read_text())
        except SyntaxError:
            continue
        for node in ast.walk(tree):
            if not isinstance(node, ast.ClassDef):
                continue
            for fn in node.body:
                if isinstance(fn, ast.FunctionDef) and fn.name == "__init__":
                    for st in ast.walk(fn):
                        if isinstance(st, ast.Assign) and any(isinstance(t, ast.Name) and t.id == "fresh" for t in st.targets):
                            v = st.value
                            empty = isinstance(v, ast.Call) and getattr(v.func, "id", "") == "frozenset" and not v.args
                            if not empty and node.name != "Funsor":
                                found[node.name] = f"{path.name}:{st.lineno}"
    ctx.extra["classes_with_fresh_names"] = {k: {"where": w, "covered_by": FRESH_COVERED.get(k, "NOT COVERED")} for k, w in sorted(found.items())}
    unknown = sorted(k for k in found if k not in FRESH_COVERED)
    if unknown:
        ctx.extra["classes_with_fresh_names_uncovered"] = unknown


def correspond(ctx):
    ctx.rule = RULE
    if "classes_with_fresh_names" not in ctx.extra:
        extract(ctx)
    for k, v in ctx.extra.get("classes_with_fresh_names", {}).items():
        ctx.count(f"fresh-class:{k}:{'covered' if v['covered_by'] != 'NOT COVERED' else 'UNCOVERED'}")
    run_rewritten(ctx)
    run_s3(ctx)
    run_s1(ctx)
    run_s2(ctx, 4000 if ctx.tier == "quick" else 60000)
    run_s5(ctx, 500 if ctx.tier == "quick" else 8000)
    run_s6(ctx)
    run_s7(ctx)
    run_s8(ctx)
    run_s9(ctx)
    ctx.extra["beyond_model_spec_only"] = ("stream S5 (Gaussian/Delta substitution) is compared with the explicit formula "
                                           "-1/2||xP-w||^2 / point-mass in numpy only: exploration, not tied to a Lean model")
    ctx.assumptions.append("a Tensor has only scalar Bint inputs (Tensor.__init__ asserts `d.dtype == size` per input, tensor.py:143-144; "
                           "eager_subs asserts `not domain.shape`, tensor.py:294): real-valued ARRAY substitution into a Tensor does not exist; "
                           "real arrays are substituted for Variables (S2: Reals[n] inputs read through sum/getitem), Gaussian/Delta inputs (S5) and "
                           "Independent's reals_var (S6)")
    ctx.assumptions.append("`substitute_sound` is a theorem about the term TREE; the order in which funsor's substitute() rebuilds a shared DAG "
                           "(interpreter.anf: every node after all OCCURRENCES of its children; C03 owns the anf_topological model) is tied by "
                           "correspondence only — stream S8: variadic lazy nodes (Stack, Cat, n-ary Contraction) listing the same cons-hashed "
                           "child 2-3 times in every position next to a sibling 1-3 levels deeper, at and below the root, under both "
                           "reinterpreters (stack_reinterpret / recursion_reinterpret = FUNSOR_USE_TCO 1/0)")
    ctx.assumptions.append("numpy basic/advanced indexing is modelled by its index-level specification (composition of index functions)")
    ctx.assumptions.append("Delta.eager_subs (renaming / ground value -> density; NOT the solve() branch that inverts a value with real inputs: "
                           "C14), Independent.eager_subs and the rename/decline decision of MarkovProduct/Scatter.eager_subs have executable Lean "
                           "models tied in stream S7 (values vs the shared denote; decisions exactly); Gaussian._eager_subs_real is tied through "
                           "`gsubs` (S5); the other Gaussian branches (affine, int, var) and the values of MarkovProduct/Scatter/Constant are checked "
                           "against python oracles only (S5/S6: spec-only); Constant.eager_subs has an executable model (`constsubs`: new const inputs "
                           "exactly + value vs denote, three-way in S6) and the branch chain Gaussian.eager_subs takes (var > int > real > affine > lazy, "
                           "observed through run-time wrappers of the four _eager_subs_* methods) is compared exactly with the names-level model "
                           "`gDecide` on every S5 single-step case — the VALUES of the Gaussian branches other than real stay C12's")


def search(ctx, broken):
    """Python-side oracles only (works without Lean): S1 against numpy, S3 against python slicing at higher
    volume; S2 against a pointwise oracle (number substitution only)."""
    run_rewritten(ctx)
    run_s9(ctx, use_lean=False)
    if any(f.witness is not None for f in ctx.failures):
        return
    run_s5(ctx, 2000, use_lean=False)
    if any(f.witness is not None for f in ctx.failures):
        return
    run_s3(ctx, use_lean=False)
    if any(f.witness is not None for f in ctx.failures):
        return
    run_s1(ctx, use_lean=False, volume=3.0)
    if any(f.witness is not None for f in ctx.failures):
        return
    run_s2_oracle(ctx, 3000)


def run_s2_oracle(ctx, n):
    rng = ctx.rng
    for _ in range(n):
        c = gen_ctx(rng)
        recipe, reals = gen_f(rng, c)
        if reals:
            continue
        interp = rng.choice(["eager", "lazy", "reflect"])
        try:
            with syntax_mode():
                f_syn = build2(recipe)
            f = build_under(interp, recipe)
        except DECLINE:
            continue
        f_ints, f_reals, bad = syntax_inputs(f_syn)
        if bad or f_reals or not f_ints:
            continue
        pool_sizes = dict(f_ints)
        keys = [k for k, _ in f_ints if rng.random() < 0.6] or [f_ints[0][0]]
        sigma = [(k, gen_int_value(rng, c, dict(f_ints)[k], pool_sizes)[0]) for k in keys]
        try:
            vals = {k: build_under("eager", v) for k, v in sigma}
        except DECLINE:
            continue
        exp = OrderedDict((k, int(d.size)) for k, d in f_syn.inputs.items() if k not in vals)
        ill = False
        for v in vals.values():
            for n_, d in v.inputs.items():
                if exp.setdefault(n_, int(d.size)) != int(d.size):
                    ill = True
        if ill:
            continue
        ins = sorted(exp.items())
        try:
            r = f(**vals)
            if not isinstance(r, (Tensor, Number)):
                with eager:
                    r = reinterpret(r)
            if not isinstance(r, (Tensor, Number)):
                continue
            impl = futil.table(r, ins)
        except (KeyError, ValueError) as e:
            impl = None
        except DECLINE:
            continue
        # pointwise oracle
        try:
            with eager:
                fe = build2(recipe)
            oracle = np.zeros(tuple(s for _, s in ins))
            for pt in itertools.product(*[range(s) for _, s in ins]):
                p = dict(zip([n_ for n_, _ in ins], pt))
                point = {}
                for k in fe.inputs:
                    if k in vals:
                        v = vals[k]
                        vv = v(**{n_: p[n_] for n_ in v.inputs})
                        point[k] = int(np.asarray(vv.data))
                    else:
                        point[k] = p[k]
                out = fe(**point)
                oracle[pt] = float(np.asarray(out.data))
        except DECLINE + (AttributeError,):
            continue
        if impl is None or not np.array_equal(impl, oracle):
            ctx.fail("input", "C04.search.value", witness={"f": describe2(recipe), "sigma": [(k, describe2(v)) for k, v in sigma],
                                                           "built_under": interp},
                     expected={"inputs": ins, "table": oracle.tolist()},
                     got=None if impl is None else impl.tolist(), python=s2_python(recipe, sigma, [], interp, "call"))
            return
