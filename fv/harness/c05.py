"""
C05 — bound variables are invisible: no capture, no leakage, renaming-invariant.

Correspondence.  Expressions are nestings of the binder-introducing constructors
{Reduce, Lambda(+getitem), Cat(part_name)(+Subs of its name), Contraction, Subs, Independent, MarkovProduct
(time-dependent and time-homogeneous transitions, one step pair), Integrate, Scatter, Approximate (eager only:
open finding)} plus Binary glue,
with EVERY name (binders, free inputs of leaves, substituted keys and the free names of substituted values,
index variables) drawn from the 3-name pool {i, j, k} (all of one size), so binder names coincide with free
names of siblings / substituted values, with other binders at nested and sibling positions, and a bint-valued
lazy term is substituted into itself.  Each expression is built through funsor's public API under eager,
lazy+reinterpret, reflect+reinterpret and normalize+reinterpret and compared, on its whole input space, with

  * the Lean specification `denote` (Model/Term.lean) of the USER-LEVEL expression (user's names, no mangling),
  * an independent Python evaluator of the recipe (`pyeval`; also the oracle of `search`),
  * the same expression built with all binders renamed to globally fresh distinct names (renaming invariance:
    same value table, same inputs),

and its reflected syntax is walked: `.bound` never meets `.inputs` at any node, every bound name carries the
`__BOUND` marker, `.bound` contains every name the node's CONSTRUCTOR ARGUMENTS say it binds (MarkovProduct: the time
name and all step names; Integrate/Scatter/Reduce/Contraction: reduced_vars; …), `.inputs` = the user-level free names.
MarkovProduct / Integrate / Scatter are not in the shared Lean Term: their user-level meaning is sent to `denote` as the
explicit sum-product it abbreviates (left fold over the time steps; Σ_v mask·f; source[src := perm⁻¹(dest)]).  The binder pattern (base names, sharing) is compared
with the Lean model of `reflect`/`_alpha_mangle` (counted as model fidelity, not gated).

Streams:  clean (above; never applies the optimizer to sibling-shared binders) · fusion (bodies kept lazy by free
real-array inputs z[a]·w[b]; 2-3 nested Reduce/Contraction levels that eager/normalize/apply_optimizer FUSE into one
binder over a mixed bound set; then a substitution whose value's free name collides with a binder's user name; the
rewritten, still lazy term is walked: every binder marked, none among the inputs; also under apply_optimizer) · extras (MarkovProduct,
Integrate, Scatter, Approximate against renaming invariance / Python oracles) · callform (the surface forms of ONE
substitution call: positional / keyword / mixed at every split point / name-string and int sugar / Subs(...), values
mentioning the other keys of the same call; Props/C05/CallForm.lean) · dedicated stream for the open
finding KF-shared-binder-unfold.
"""
import itertools
import re
from collections import OrderedDict
from fractions import Fraction

import numpy as np

from ..common import sx, Q, parse_sx
from .. import futil, ser
from ..futil import funsor, Tensor, Number, Variable, Bint, Real, Reals, ops, exact, same_num

from funsor.terms import Cat, Lambda, Independent, Reduce, Subs, Funsor, Scatter, Approximate, Slice
from funsor.cnf import Contraction
from funsor.interpretations import reflect, lazy, eager, normalize
from funsor.interpreter import reinterpret
from funsor.optimizer import apply_optimizer
from funsor.sum_product import MarkovProduct
from funsor.integrate import Integrate

FACT_SRC = '''
from funsor.factory import Bound, Fresh, Has, make_funsor
from funsor.terms import Funsor as _F, Lambda as _Lambda
import funsor.ops as _ops
@make_funsor
def FSumLast(x: _F, i: Bound) -> Fresh[lambda x: x]:
    return x.reduce(_ops.add, i)
@make_funsor
def FSumFirst(i: Bound, x: _F) -> Fresh[lambda x: x]:
    return x.reduce(_ops.add, i)
@make_funsor
def FSumHas(x: Has[{"i"}], i: Bound) -> Fresh[lambda x: x]:
    return x.reduce(_ops.add, i)
@make_funsor
def FSumHasFirst(i: Bound, x: Has[{"i"}]) -> Fresh[lambda x: x]:
    return x.reduce(_ops.add, i)
@make_funsor
def FDotMid(x: _F, i: Bound, y: _F) -> Fresh[lambda x: x]:
    return (x * y).reduce(_ops.add, i)
@make_funsor
def FDotFirst(i: Bound, x: _F, y: _F) -> Fresh[lambda x: x]:
    return (x * y).reduce(_ops.add, i)
@make_funsor
def FSum2(i: Bound, x: _F, j: Bound) -> Fresh[lambda x: x]:
    return x.reduce(_ops.add, frozenset({i, j}))
@make_funsor
def FLamGet(i: Bound, x: _F, at: _F) -> Fresh[lambda x: x]:
    return _Lambda(i, x)[at]
@make_funsor
def FRenFresh(x: _F, i: Bound, k: Fresh[lambda i: i]) -> Fresh[lambda x: x]:
    return x(**{i.name: k})
@make_funsor
def FRenFreshFirst(k: Fresh[lambda i: i], i: Bound, x: _F) -> Fresh[lambda x: x]:
    return x(**{i.name: k})
'''
import warnings as _warnings
_warnings.filterwarnings("ignore", category=SyntaxWarning, module="funsor.factory")
_fact_ns = {}
exec(FACT_SRC, _fact_ns)
# name -> (class, declaration order of the parameters: B<k> bound name, F<k> funsor argument, R<k> fresh name)
MIXCALL_SRC = '''
from funsor.terms import Subs as _Subs, Variable as _Variable, Number as _Number


def mixcall(body, pairs, style):
    """ONE substitution call for `pairs` written in the surface form `style`:
    ("subs",)            the constructor Subs(body, pairs)
    ("call", npos, sug)  body(*args, **kwargs): the first `npos` inputs of `body` positionally (an input the call has
                         no pair for gets the identity Variable of its own name), the other pairs by keyword;
                         sug: Variable values are written as name strings and Number values as python ints"""
    if style[0] == "subs":
        return _Subs(body, tuple(pairs))
    _, npos, sug = style

    def s(v):
        if sug and isinstance(v, _Variable):
            return v.name
        if sug and isinstance(v, _Number):
            return int(v.data)
        return v
    d = OrderedDict(pairs)
    args = [s(d.pop(k)) if k in d else _Variable(k, body.inputs[k]) for k in list(body.inputs)[:npos]]
    return body(*args, **OrderedDict((k, s(v)) for k, v in d.items()))
'''
exec(MIXCALL_SRC, globals())

FACT = {
    "FSumLast": ("F0", "B0"), "FSumFirst": ("B0", "F0"), "FSumHas": ("F0", "B0"), "FSumHasFirst": ("B0", "F0"),
    "FDotMid": ("F0", "B0", "F1"), "FDotFirst": ("B0", "F0", "F1"), "FSum2": ("B0", "F0", "B1"),
    "FLamGet": ("B0", "F0", "F1"), "FRenFresh": ("F0", "B0", "R0"), "FRenFreshFirst": ("R0", "B0", "F0"),
}
FACT_CLS = {k: _fact_ns[k] for k in FACT}

POOL = ["i", "j", "k"]
RPOOL = ["x", "y"]
SPOOL = ["p", "q"]          # extra names for MarkovProduct step pairs / Scatter destinations
MARK = "__BOUND"
MODES = ["eager", "lazy", "reflect", "normalize"]
MODES_OPT = MODES + ["optimize"]     # + apply_optimizer: only where no two sibling binders are shared
# real-array variables z, y : Reals[n] keep a term lazy under eager; bound to these sample points at the end
RVALS = {"z": (1, 2, 3), "w": (2, 3, 1)}     # (not "x"/"y": those are Independent's reals_var / diag_var)
OPS = {"add": ops.add, "mul": ops.mul, "max": ops.max, "min": ops.min, "sub": ops.sub}
DECLINE = (NotImplementedError, AssertionError, ValueError, TypeError, KeyError, IndexError, AttributeError)

# ------------------------------------------------------------------------------------------------
# Recipes
#   real kind:  ("leaf", lid, names, data)  ("binary", op, a, b)  ("contr", red, bin, v, a, b)
#               ("indep", body, bv, dv)      [reals_var is always "x"]
#   bint kind:  ("bleaf", lid, names, data) ("bvar", w) ("bnum", k)
#   any kind:   ("reduce", op, body, v) ("lamget", v, body, idx) ("subs", body, v, val)
#               ("cat", v, p, part1, part2, idx)   idx: ("bleaf2", lid, names, data) | ("bnum2", k)  (dtype 2n)
# ------------------------------------------------------------------------------------------------


class Gen:
    def __init__(self, rng, n):
        self.rng = rng
        self.n = n
        self.lid = 0
        self.made = {"real": [], "bint": []}   # sub-recipes available for sibling duplication

    def fresh_lid(self):
        self.lid += 1
        return self.lid

    def leaf(self, kind, names=None):
        rng, n = self.rng, self.n
        if names is None:
            names = [x for x in POOL if rng.random() < 0.55]
            rng.shuffle(names)
        size = n ** len(names)
        if kind == "real":
            # non-negative data: funsor treats (max,mul)/(min,mul) as distributive, which needs non-negative operands
            data = tuple(rng.choice([0, 1, 1, 2, 2, 3, 4, 5]) for _ in range(size))
            return ("leaf", self.fresh_lid(), tuple(names), data)
        data = tuple(rng.randrange(n) for _ in range(size))
        return ("bleaf", self.fresh_lid(), tuple(names), data)

    def bint_atom(self):
        r = self.rng.random()
        if r < 0.45:
            return ("bvar", self.rng.choice(POOL))
        if r < 0.6:
            return ("bnum", self.rng.randrange(self.n))
        return self.leaf("bint", [x for x in POOL if self.rng.random() < 0.5][:2])

    def force(self, e, kind, name):
        """make `name` free in e (so that a binder over it is not vacuous / Cat's part has its part_name)"""
        if name in free(e):
            return e
        if kind == "real":
            return ("binary", self.rng.choice(["add", "mul"]), e, self.leaf("real", [name]))
        # bint kind: index a fresh bint table by e  ->  T[name, e'] via substitution
        t = self.leaf("bint", [name, "_t"])
        return ("subs", t, "_t", e)

    def expr(self, depth, kind, allow_indep=True):
        rng = self.rng
        if depth <= 0:
            if kind == "real":
                if rng.random() < 0.12:
                    # a factor z[a] with z a free real-array input keeps the surrounding term lazy under eager
                    return ("binary", "mul", self.leaf("real"), ("rget", rng.choice(sorted(RVALS)), rng.choice(POOL)))
                return self.leaf("real")
            return self.bint_atom()
        # sibling duplication: reuse an earlier sub-recipe (same objects -> hash-consed, shared binders)
        if self.made[kind] and rng.random() < 0.08:
            pick = rng.choice(self.made[kind])
            if allow_indep or not has_indep(pick):      # no Independent inside an Independent (its reals_var
                return pick                             # would be re-typed / captured by the outer diag_var)
        cons = ["reduce", "reduce", "lamget", "cat", "subs", "subs"]
        if kind == "real":
            cons += ["contr", "contr", "binary", "binary", "markov", "integ", "scatter", "approx", "fac", "fac"]
            if allow_indep:
                cons.append("indep")
        c = rng.choice(cons)
        e = self.make(c, depth, kind, allow_indep)
        self.made[kind].append(e)
        return e

    def make(self, c, depth, kind, allow_indep):
        rng, n = self.rng, self.n
        d = depth - 1
        if c == "binary":
            a = self.expr(d, "real", allow_indep)
            b = self.expr(rng.choice([0, d]), "real", allow_indep)
            if rng.random() < 0.5:
                a, b = b, a
            return ("binary", rng.choice(["add", "mul", "mul", "max", "min"]), a, b)
        if c == "reduce":
            body = self.expr(d, kind, allow_indep)
            v = rng.choice(POOL)
            if rng.random() < 0.9:
                body = self.force(body, kind, v)
            op = rng.choice(["add", "add", "mul", "max", "min"]) if kind == "real" else rng.choice(["max", "min"])
            return ("reduce", op, body, v)
        if c == "lamget":
            body = self.expr(d, kind, allow_indep)
            v = rng.choice(POOL)
            idx = self.bint_atom() if rng.random() < 0.8 else self.expr(min(d, 1), "bint", False)
            if idx[0] == "bvar" and idx[1] in free(body) - {v} and rng.random() < 0.7:
                idx = ("bvar", v)     # eager getitem asserts the index variable is not an input of the array
            return ("lamget", v, body, idx)
        if c == "contr":
            a = self.expr(d, "real", allow_indep)
            b = self.expr(rng.choice([0, d]), "real", allow_indep)
            v = rng.choice(POOL)
            # keep away from the open finding KF-contraction-absent-var (a reduced variable that ends up in NO operand
            # after partial evaluation loses its multiplicity): v always occurs in a plain leaf factor of `b`
            if not (b[0] == "leaf" and v in b[2]):
                b = ("binary", "mul", b, self.leaf("real", [v]))
            red, bin_ = rng.choice([("add", "mul"), ("add", "mul"), ("max", "add"), ("min", "add")])
            return ("contr", red, bin_, v, a, b)
        if c == "subs":
            body = self.expr(d, kind, allow_indep)
            v = rng.choice(POOL)
            body = self.force(body, kind, v)     # a substitution for an absent name is dropped by funsor
            r = rng.random()
            if r < 0.2 and kind == "bint":
                val = body                      # a lazy term substituted into itself
            elif r < 0.75:
                val = self.bint_atom()
            else:
                val = self.expr(min(d, 2), "bint", False)
            return ("subs", body, v, val)
        if c == "cat":
            v = rng.choice(POOL)
            p = v if rng.random() < 0.4 else rng.choice(POOL)
            parts = []
            for _ in range(2):
                part = self.expr(rng.choice([0, d]), kind, allow_indep)
                part = self.force(part, kind, p)
                parts.append(part)
            if p != v and any(v in free(x) for x in parts):
                # Cat requires name ∉ inputs of the parts when part_name != name: bind v away in the parts
                parts = [("subs", x, v, self.bint_atom_without(v)) if v in free(x) else x for x in parts]
                parts = [self.force(x, kind, p) for x in parts]
                if any(v in free(x) for x in parts):
                    p = v
                    parts = [self.force(x, kind, p) for x in parts]
            if rng.random() < 0.5:      # (lazy Cat declines Tensor-valued substitutions: NotImplementedError)
                names = [x for x in POOL if rng.random() < 0.5][:2]
                idx = ("bleaf2", self.fresh_lid(), tuple(names),
                       tuple(rng.randrange(2 * n) for _ in range(n ** len(names))))
            else:
                idx = ("bnum2", rng.randrange(2 * n))
            return ("cat", v, p, parts[0], parts[1], idx)
        if c == "fac":
            return self.make_fac(rng.choice(sorted(FACT)), d, allow_indep)
        if c == "markov":
            body = self.expr(d, "real", allow_indep)
            tn = rng.choice(POOL)
            if rng.random() < 0.7:
                p, q = rng.sample(SPOOL, 2)
            else:
                p, q = rng.sample([x for x in POOL if x != tn], 2)
            body = self.force(self.force(body, "real", p), "real", q)
            if rng.random() < 0.5:
                body = self.force(body, "real", tn)       # else possibly time-homogeneous
            return ("markov", tn, p, q, body)
        if c == "integ":
            v = rng.choice(POOL)
            names = [v] + [x for x in POOL if x != v and rng.random() < 0.4][:1]
            rng.shuffle(names)
            mask = ("leaf", self.fresh_lid(), tuple(names), tuple(rng.choice([0, 1, 1]) for _ in range(n ** len(names))))
            return ("integ", v, mask, self.expr(d, "real", allow_indep))
        if c == "scatter":
            source = self.expr(d, "real", allow_indep)
            src = rng.choice(POOL)
            source = self.force(source, "real", src)
            # the destination is never a name that anything substitutes for or binds: a lazy Scatter silently DROPS
            # every non-Variable substitution for its destination (Scatter.eager_subs; reported, C04's subject)
            dest = "s"
            if dest in free(source):
                return self.make("integ", depth, kind, allow_indep)
            perm = list(range(n))
            rng.shuffle(perm)
            return ("scatter", dest, src, tuple(perm), source)
        if c == "approx":
            model = self.expr(d, "real", allow_indep)
            v = rng.choice(POOL)
            model = self.force(model, "real", v)
            return ("approx", v, model, self.leaf("real", [v]))
        if c == "indep":
            body = self.expr(d, "real", False)
            bv = rng.choice(POOL)
            body = self.force(body, "real", bv)
            dv = rng.choice(RPOOL)
            return ("indep", body, bv, dv)
        raise ValueError(c)

    def make_fac(self, name, d, allow_indep, v=None, w=None, body=None):
        """a make_funsor-defined binder; v = bound name, w = second name (2nd bound / fresh / index variable)"""
        rng = self.rng
        v = v or rng.choice(POOL)
        w = w or rng.choice(POOL)
        f0 = self.force(body if body is not None else self.expr(d, "real", allow_indep), "real", v)
        if name.startswith("FSum2"):
            if w == v:
                w = POOL[(POOL.index(v) + 1) % 3]
            return ("fac", name, (v, w), (self.force(f0, "real", w),), ())
        if name.startswith("FSum"):
            return ("fac", name, (v,), (f0,), ())
        if name.startswith("FDot"):
            f1 = self.leaf("real", [v] if v == w else [v, w])
            return ("fac", name, (v,), (f0, f1), ())
        if name == "FLamGet":
            at = ("bvar", w) if w != v else self.bint_atom_without(v)
            return ("fac", name, (v,), (f0, at), ())
        if name.startswith("FRenFresh"):
            k = w if (w != v and w not in free(f0)) else "s"
            if k in free(f0) - {v}:
                return ("fac", "FSumFirst", (v,), (f0,), ())
            return ("fac", name, (v,), (f0,), (k,))
        raise ValueError(name)

    def bint_atom_without(self, v):
        for _ in range(20):
            a = self.bint_atom()
            if v not in free(a):
                return a
        return ("bnum", 0)


def kind_of(r):
    t = r[0]
    if t in ("leaf", "binary", "contr", "indep", "rget", "markov", "integ", "scatter", "approx", "fac"):
        return "real"
    if t in ("bleaf", "bvar", "bnum", "bslice"):
        return "bint"
    if t == "msubs":
        return kind_of(r[1])
    if t == "reduce":
        return kind_of(r[2])
    if t == "lamget":
        return kind_of(r[2])
    if t == "subs":
        return kind_of(r[1])
    if t == "cat":
        return kind_of(r[3])
    raise ValueError(t)


def free(r):
    """user-level free bint names"""
    t = r[0]
    if t in ("leaf", "bleaf", "bleaf2"):
        return set(r[2])
    if t == "bvar":
        return {r[1]}
    if t == "rget":
        return {r[2]}
    if t == "bslice":
        return {r[1]}
    if t == "msubs":       # ("msubs", body, ((key, value), …)): ONE simultaneous substitution call
        out = free(r[1]) - {k for k, _ in r[2]}
        for _, v in r[2]:
            out |= free(v)
        return out
    if t in ("bnum", "bnum2"):
        return set()
    if t == "binary":
        return free(r[2]) | free(r[3])
    if t == "reduce":
        return free(r[2]) - {r[3]}
    if t == "lamget":
        return (free(r[2]) - {r[1]}) | free(r[3])
    if t == "contr":
        return (free(r[4]) | free(r[5])) - {r[3]}
    if t == "subs":
        return (free(r[1]) - {r[2]}) | free(r[3])
    if t == "cat":
        return ((free(r[3]) | free(r[4])) - {r[2]} - {r[1]}) | free(r[5])
    if t == "indep":
        return free(r[1]) - {r[2]}
    if t == "markov":      # ("markov", time, prev, curr, trans): the step names are re-exposed as inputs
        return (free(r[4]) - {r[1], r[2], r[3]}) | {r[2], r[3]}
    if t == "integ":       # ("integ", v | (v1, v2, …), mask_leaf, integrand): binds every listed name in BOTH sub-terms
        return (free(r[2]) | free(r[3])) - set(_ivars(r))
    if t == "scatter":     # ("scatter", dest, src, perm, source)
        return (free(r[4]) - {r[2]}) | {r[1]}
    if t == "approx":      # ("approx", v, model, guide_leaf)
        return free(r[2]) | free(r[3])
    if t == "fac":         # ("fac", class name, bound names, funsor arguments, fresh names): every argument is in scope
        out = set()
        for a in r[3]:
            out |= free(a)
        return (out - set(r[2])) | set(r[4])
    raise ValueError(t)


def has_indep(r):
    return r[0] == "indep" or any(has_indep(x) for x in r if isinstance(x, tuple) and x and isinstance(x[0], str)
                                  and x[0] in TAGS)


def _ivars(r):
    """the reduced names of an ("integ", names, mask, integrand) node (one name or a tuple of names)"""
    return (r[1],) if isinstance(r[1], str) else tuple(r[1])


def has_tag(r, tag):
    return any(s_[0] == tag for s_ in subrecipes(r))


def real_names(r):
    """user-level free real-valued inputs"""
    out = set()
    for s_ in subrecipes(r):
        if s_[0] == "rget":
            out.add(s_[1])
        elif s_[0] == "indep":
            out.add("x")
    return out


TAGS = {"msubs", "bslice", "fac", "markov", "integ", "scatter", "approx", "rget", "leaf", "bleaf", "bleaf2", "bvar", "bnum", "bnum2", "binary", "reduce", "lamget", "contr", "subs", "cat", "indep"}


def subrecipes(r):
    yield r
    kids = r[3] if r[0] == "fac" else ((r[1],) + tuple(v for _, v in r[2])) if r[0] == "msubs" else r[1:]
    for x in kids:
        if isinstance(x, tuple) and x and isinstance(x[0], str) and x[0] in TAGS:
            yield from subrecipes(x)


def binders(r):
    """user-level binder names, one entry per binder occurrence"""
    out = []
    for s in subrecipes(r):
        t = s[0]
        if t == "reduce":
            out.append(s[3])
        elif t == "lamget":
            out.append(s[1])
        elif t == "contr":
            out.append(s[3])
        elif t == "subs":
            out.append(s[2])
        elif t == "cat":
            out += [s[2], s[1]]
        elif t == "indep":
            out += [s[2], s[3]]
        elif t == "markov":
            out += [s[1], s[2], s[3]]
        elif t == "integ":
            out += list(_ivars(s))
        elif t == "scatter":
            out.append(s[2])
        elif t == "fac":
            out += list(s[2])
        elif t == "msubs":
            out += [k for k, _ in s[2]]
    return out


def depth_of(r):
    """nesting depth of binder constructors"""
    t = r[0]
    kids = [x for x in (r[3] if t == "fac" else ((r[1],) + tuple(v for _, v in r[2])) if t == "msubs" else r[1:]) if isinstance(x, tuple) and x and isinstance(x[0], str) and x[0] in TAGS]
    d = max([depth_of(k) for k in kids], default=0)
    return d + (1 if t in ("reduce", "lamget", "contr", "subs", "cat", "indep", "markov", "integ", "scatter", "fac", "msubs") else 0)


# ------------------------------------------------------------------------------------------------
# build / wire / python / pyeval / rename
# ------------------------------------------------------------------------------------------------

def _arr(data, names, n, dtype):
    return np.array(data, dtype=dtype).reshape((n,) * len(names))


def build(r, n, cache=None):
    """construct through funsor's public API under the ACTIVE interpretation; `cache` shares leaf objects"""
    if cache is None:
        cache = {}
    pre = cache.get(("prebuilt", id(r)))
    if pre is not None:
        return pre                 # a sub-term built elsewhere (another thread: see thread_stream)
    t = r[0]
    if t in ("leaf", "bleaf", "bleaf2"):
        key = (t, r[1], r[2])          # same leaf id AND same names -> same ndarray object (hash-consing)
        if key not in cache:
            if t == "leaf":
                cache[key] = (_arr(r[3], r[2], n, np.float64), "real")
            elif t == "bleaf":
                cache[key] = (_arr(r[3], r[2], n, np.int64), n)
            else:
                cache[key] = (_arr(r[3], r[2], n, np.int64), 2 * n)
        data, dtype = cache[key]
        return Tensor(data, OrderedDict((x, Bint[n]) for x in r[2]), dtype)
    if t == "bvar":
        return Variable(r[1], Bint[n])
    if t == "bslice":
        return Slice(r[1], 0, n, 1, n)
    if t == "msubs":
        body = build(r[1], n, cache)
        if len(r) > 3:         # surface form of the ONE call: positional / keyword / mixed / sugar values / Subs(...)
            return mixcall(body, [(k, build(v, n, cache)) for k, v in r[2]], r[3])
        return body(**OrderedDict((k, build(v, n, cache)) for k, v in r[2]))
    if t == "rget":
        return Variable(r[1], Reals[n])[r[2]]
    if t == "bnum":
        return Number(r[1], n)
    if t == "bnum2":
        return Number(r[1], 2 * n)
    if t == "binary":
        return OPS[r[1]](build(r[2], n, cache), build(r[3], n, cache))
    if t == "reduce":
        body = build(r[2], n, cache)
        if r[3] in body.inputs:
            return body.reduce(OPS[r[1]], r[3])
        return Reduce(OPS[r[1]], body, frozenset({Variable(r[3], Bint[n])}))
    if t == "lamget":
        lam = Lambda(Variable(r[1], Bint[n]), build(r[2], n, cache))
        return lam[build(r[3], n, cache)]
    if t == "contr":
        return Contraction(OPS[r[1]], OPS[r[2]], frozenset({Variable(r[3], Bint[n])}),
                           build(r[4], n, cache), build(r[5], n, cache))
    if t == "subs":
        body = build(r[1], n, cache)
        return body(**{r[2]: build(r[3], n, cache)})
    if t == "cat":
        c = Cat(r[1], (build(r[3], n, cache), build(r[4], n, cache)), r[2])
        return c(**{r[1]: build(r[5], n, cache)})
    if t == "indep":
        fn = build(r[1], n, cache) * Variable(r[3], Real)
        return Independent(fn, "x", r[2], r[3])
    if t == "markov":
        return MarkovProduct(ops.add, ops.mul, build(r[4], n, cache), Variable(r[1], Bint[n]), {r[2]: r[3]})
    if t == "integ":
        m = r[2]
        key = ("logmask", m[1], m[2])
        if key not in cache:
            with np.errstate(divide="ignore"):
                cache[key] = np.log(_arr(m[3], m[2], n, np.float64))
        lm = Tensor(cache[key], OrderedDict((x, Bint[n]) for x in m[2]), "real")
        return Integrate(lm, build(r[3], n, cache), frozenset(Variable(v_, Bint[n]) for v_ in _ivars(r)))
    if t == "scatter":
        key = ("perm", r[3], r[2])
        if key not in cache:
            cache[key] = np.array(r[3], dtype=np.int64)
        idx = Tensor(cache[key], OrderedDict([(r[2], Bint[n])]), n)
        return Scatter(ops.add, ((r[1], idx),), build(r[4], n, cache), frozenset({Variable(r[2], Bint[n])}))
    if t == "approx":
        return build(r[2], n, cache).approximate(ops.logaddexp, build(r[3], n, cache), r[1])
    if t == "fac":
        args = []
        for spec in FACT[r[1]]:
            k = int(spec[1])
            if spec[0] == "B":
                args.append(Variable(r[2][k], Bint[n]))
            elif spec[0] == "F":
                args.append(build(r[3][k], n, cache))
            else:
                args.append(r[4][k])
        return FACT_CLS[r[1]](*args)
    raise ValueError(t)


def wire(r, n):
    """the USER-LEVEL expression as a Term for the Lean `denote` (no mangling)"""
    t = r[0]
    B = ["bint", n]
    if t == "leaf":
        return ["tensor", [[Q(x), n] for x in r[2]], ["real"], list(r[3])]
    if t == "bleaf":
        return ["tensor", [[Q(x), n] for x in r[2]], B, list(r[3])]
    if t == "bleaf2":
        return ["tensor", [[Q(x), n] for x in r[2]], ["bint", 2 * n], list(r[3])]
    if t == "bvar":
        return ["var", Q(r[1]), B]
    if t == "bslice":
        return ["slice", Q(r[1]), 0, n, 1, n]
    if t == "msubs":
        return ["subs", wire(r[1], n), [[Q(k), wire(v, n)] for k, v in r[2]]]
    if t == "rget":
        return ["binary", ["getitem", ["offset", 0]], ["var", Q(r[1]), ["real", n]], ["var", Q(r[2]), B]]
    if t == "bnum":
        return ["num", r[1], n]
    if t == "bnum2":
        return ["num", r[1], 2 * n]
    if t == "binary":
        return ["binary", [r[1]], wire(r[2], n), wire(r[3], n)]
    if t == "reduce":
        return ["reduce", r[1], wire(r[2], n), [[Q(r[3]), B]]]
    if t == "lamget":
        return ["binary", ["getitem", ["offset", 0]], ["lambda", Q(r[1]), n, wire(r[2], n)], wire(r[3], n)]
    if t == "contr":
        return ["contraction", r[1], r[2], [[Q(r[3]), B]], wire(r[4], n), wire(r[5], n)]
    if t == "subs":
        return ["subs", wire(r[1], n), [[Q(r[2]), wire(r[3], n)]]]
    if t == "cat":
        return ["subs", ["cat", Q(r[1]), Q(r[2]), [n, n], wire(r[3], n), wire(r[4], n)], [[Q(r[1]), wire(r[5], n)]]]
    if t == "indep":
        fn = ["binary", ["mul"], wire(r[1], n), ["var", Q(r[3]), ["real"]]]
        return ["independent", fn, Q("x"), Q(r[2]), Q(r[3]), n]
    if t == "markov":
        # the shared Term has no MarkovProduct: its user-level meaning, the explicit left fold over the n time
        # steps, written as one sum-product  Σ_{m1..} Π_k trans[time:=k, prev:=m_k, curr:=m_{k+1}]
        tn, p, c = r[1], r[2], r[3]
        body = wire(r[4], n)
        mid = [f"_m{k}" for k in range(1, n)]
        chain = [None] + mid + [None]
        terms = []
        for k in range(n):
            sub = [[Q(tn), ["num", k, n]]]
            if chain[k] is not None:
                sub.append([Q(p), ["var", Q(chain[k]), B]])
            if chain[k + 1] is not None:
                sub.append([Q(c), ["var", Q(chain[k + 1]), B]])
            terms.append(["subs", body, sub])
        return ["contraction", "add", "mul", [[Q(x), B] for x in mid]] + terms
    if t == "integ":
        return ["contraction", "add", "mul", [[Q(v_), B] for v_ in _ivars(r)], wire(r[2], n), wire(r[3], n)]
    if t == "scatter":
        inv = [list(r[3]).index(d) for d in range(n)]
        return ["subs", wire(r[4], n), [[Q(r[2]), ["tensor", [[Q(r[1]), n]], B, inv]]]]
    if t == "approx":
        return wire(r[2], n)
    if t == "fac":         # the user-level meaning of the factory-defined binder (its function body)
        nm_, bs, fs = r[1], r[2], [wire(a, n) for a in r[3]]
        if nm_.startswith("FSum2"):
            return ["reduce", "add", fs[0], [[Q(bs[0]), B], [Q(bs[1]), B]]]
        if nm_.startswith("FSum"):
            return ["reduce", "add", fs[0], [[Q(bs[0]), B]]]
        if nm_.startswith("FDot"):
            return ["contraction", "add", "mul", [[Q(bs[0]), B]], fs[0], fs[1]]
        if nm_ == "FLamGet":
            return ["binary", ["getitem", ["offset", 0]], ["lambda", Q(bs[0]), n, fs[0]], fs[1]]
        if nm_.startswith("FRenFresh"):
            return ["subs", fs[0], [[Q(bs[0]), ["var", Q(r[4][0]), B]]]]
        raise ValueError(nm_)
    raise ValueError(t)


def pyof(r, n, names=None):
    """python expression text that rebuilds the recipe (leaves are bound to variables L<lid> by `py_header`)"""
    t = r[0]
    if t in ("leaf", "bleaf", "bleaf2"):
        dtype = {"leaf": "'real'", "bleaf": str(n), "bleaf2": str(2 * n)}[t]
        return (f"Tensor(L{r[1]}_{'_'.join(r[2]) or 'c'}, OrderedDict([" + ", ".join(f"({x!r}, Bint[{n}])" for x in r[2])
                + f"]), {dtype})")
    if t == "bvar":
        return f"Variable({r[1]!r}, Bint[{n}])"
    if t == "bslice":
        return f"Slice({r[1]!r}, 0, {n}, 1, {n})"
    if t == "msubs" and len(r) > 3:
        return f"mixcall({pyof(r[1], n)}, [" + ", ".join(f"({k!r}, {pyof(v, n)})" for k, v in r[2]) + f"], {r[3]!r})"
    if t == "msubs":
        return f"({pyof(r[1], n)})(**OrderedDict([" + ", ".join(f"({k!r}, {pyof(v, n)})" for k, v in r[2]) + "]))"
    if t == "rget":
        return f"Variable({r[1]!r}, Reals[{n}])[{r[2]!r}]"
    if t == "bnum":
        return f"Number({r[1]}, {n})"
    if t == "bnum2":
        return f"Number({r[1]}, {2 * n})"
    if t == "binary":
        return f"ops.{r[1]}({pyof(r[2], n)}, {pyof(r[3], n)})"
    if t == "reduce":
        return f"red({pyof(r[2], n)}, ops.{r[1]}, {r[3]!r}, {n})"
    if t == "lamget":
        return f"Lambda(Variable({r[1]!r}, Bint[{n}]), {pyof(r[2], n)})[{pyof(r[3], n)}]"
    if t == "contr":
        return (f"Contraction(ops.{r[1]}, ops.{r[2]}, frozenset({{Variable({r[3]!r}, Bint[{n}])}}), "
                f"{pyof(r[4], n)}, {pyof(r[5], n)})")
    if t == "subs":
        return f"({pyof(r[1], n)})(**{{{r[2]!r}: {pyof(r[3], n)}}})"
    if t == "cat":
        return f"Cat({r[1]!r}, ({pyof(r[3], n)}, {pyof(r[4], n)}), {r[2]!r})(**{{{r[1]!r}: {pyof(r[5], n)}}})"
    if t == "indep":
        return f"Independent(({pyof(r[1], n)}) * Variable({r[3]!r}, Real), 'x', {r[2]!r}, {r[3]!r})"
    if t == "markov":
        return (f"MarkovProduct(ops.add, ops.mul, {pyof(r[4], n)}, Variable({r[1]!r}, Bint[{n}]), "
                f"{{{r[2]!r}: {r[3]!r}}})")
    if t == "integ":
        m = r[2]
        lm = (f"Tensor(np.log(L{m[1]}_{'_'.join(m[2]) or 'c'}), OrderedDict([" +
              ", ".join(f"({x!r}, Bint[{n}])" for x in m[2]) + "]), 'real')")
        vs_ = ", ".join(f"Variable({v_!r}, Bint[{n}])" for v_ in _ivars(r))
        return f"Integrate({lm}, {pyof(r[3], n)}, frozenset({{{vs_}}}))"
    if t == "scatter":
        return (f"Scatter(ops.add, (({r[1]!r}, Tensor(np.array({list(r[3])}), OrderedDict([({r[2]!r}, Bint[{n}])]), {n})),), "
                f"{pyof(r[4], n)}, frozenset({{Variable({r[2]!r}, Bint[{n}])}}))")
    if t == "approx":
        return f"({pyof(r[2], n)}).approximate(ops.logaddexp, {pyof(r[3], n)}, {r[1]!r})"
    if t == "fac":
        args = []
        for spec in FACT[r[1]]:
            k = int(spec[1])
            if spec[0] == "B":
                args.append(f"Variable({r[2][k]!r}, Bint[{n}])")
            elif spec[0] == "F":
                args.append(pyof(r[3][k], n))
            else:
                args.append(repr(r[4][k]))
        return f"{r[1]}({', '.join(args)})"
    raise ValueError(t)


PY_HEADER = """import numpy as np
from collections import OrderedDict
import funsor
from funsor.domains import Bint, Real, Reals
from funsor.tensor import Tensor
from funsor.terms import Number, Variable, Cat, Lambda, Independent, Reduce
from funsor.cnf import Contraction
from funsor.terms import Scatter, Slice
from funsor.sum_product import MarkovProduct
from funsor.integrate import Integrate
from funsor.interpretations import reflect, lazy, eager, normalize
from funsor.interpreter import reinterpret
import funsor.ops as ops
""" + FACT_SRC + MIXCALL_SRC + """
def red(body, op, v, n):
    return body.reduce(op, v) if v in body.inputs else Reduce(op, body, frozenset({Variable(v, Bint[n])}))
"""


def py_program(r, n, mode, xval):
    lines = [PY_HEADER]
    seen = set()
    for s in subrecipes(r):
        if s[0] in ("leaf", "bleaf", "bleaf2"):
            nm = f"L{s[1]}_{'_'.join(s[2]) or 'c'}"
            if nm in seen:
                continue
            seen.add(nm)
            dt = "np.float64" if s[0] == "leaf" else "np.int64"
            lines.append(f"{nm} = np.array({list(s[3])}, dtype={dt}).reshape({(n,) * len(s[2])})")
    ex = pyof(r, n)
    if mode == "eager":
        lines.append(f"r = {ex}")
    elif mode == "optimize":
        lines.append(f"from funsor.optimizer import apply_optimizer\nwith lazy:\n    t = {ex}\nr = apply_optimizer(t)")
    else:
        lines.append(f"with {mode}:\n    t = {ex}\nr = reinterpret(t)")
    lines.append("print(r, dict(r.inputs))  # before binding the real inputs")
    if xval is not None:
        lines.append(f"r = r(x=Tensor(np.array({list(xval)}, dtype=np.float64))) if 'x' in r.inputs else r")
    for zn in sorted(real_names(r) - {"x"}):
        lines.append(f"r = r({zn}=Tensor(np.array({list(RVALS[zn][:n])}, dtype=np.float64))) if {zn!r} in r.inputs else r")
    lines.append("print(r, r.inputs)")
    return "\n".join(lines) + "\n"


def pyeval(r, env, n, xval=None):
    """independent evaluator of the user-level meaning: env maps names -> int; returns a python number"""
    t = r[0]
    if t in ("leaf", "bleaf", "bleaf2"):
        idx = 0
        for x in r[2]:
            idx = idx * n + env[x]
        return r[3][idx]
    if t in ("bvar", "bslice"):
        return env[r[1]]
    if t == "msubs":       # simultaneous: every value is evaluated in the CALLER's environment
        vals = {k: pyeval(v, env, n, xval) for k, v in r[2]}
        return pyeval(r[1], {**env, **vals}, n, xval)
    if t == "rget":
        return RVALS[r[1]][env[r[2]]]
    if t in ("bnum", "bnum2"):
        return r[1]
    if t == "binary":
        a, b = pyeval(r[2], env, n, xval), pyeval(r[3], env, n, xval)
        return {"add": a + b, "mul": a * b, "sub": a - b, "max": max(a, b), "min": min(a, b)}[r[1]]
    if t == "reduce":
        vals = [pyeval(r[2], {**env, r[3]: i}, n, xval) for i in range(n)]
        return _fold(r[1], vals)
    if t == "lamget":
        i = pyeval(r[3], env, n, xval)
        return pyeval(r[2], {**env, r[1]: i}, n, xval)
    if t == "contr":
        vals = []
        for i in range(n):
            e2 = {**env, r[3]: i}
            vals.append(_fold(r[2], [pyeval(r[4], e2, n, xval), pyeval(r[5], e2, n, xval)]))
        return _fold(r[1], vals)
    if t == "subs":
        v = pyeval(r[3], env, n, xval)
        return pyeval(r[1], {**env, r[2]: v}, n, xval)
    if t == "cat":
        g = pyeval(r[5], env, n, xval)
        part = r[3] if g < n else r[4]
        e2 = dict(env)
        e2.pop(r[1], None)        # the Cat's own name is not visible inside the parts
        e2[r[2]] = g % n
        return pyeval(part, e2, n, xval)
    if t == "indep":
        tot = 0
        for i in range(n):
            tot += pyeval(r[1], {**env, r[2]: i}, n, xval) * xval[i]
        return tot
    if t == "markov":      # explicit left fold of the n transition matrices
        tn, p, c = r[1], r[2], r[3]
        mats = [[[pyeval(r[4], {**env, tn: k, p: a, c: b}, n, xval) for b in range(n)] for a in range(n)]
                for k in range(n)]
        M = mats[0]
        for k in range(1, n):
            M = [[sum(M[a][m] * mats[k][m][b] for m in range(n)) for b in range(n)] for a in range(n)]
        return M[env[p]][env[c]]
    if t == "integ":
        vs_ = _ivars(r)
        tot = 0
        for pt in itertools.product(range(n), repeat=len(vs_)):
            e2 = {**env, **dict(zip(vs_, pt))}
            tot += pyeval(r[2], e2, n, xval) * pyeval(r[3], e2, n, xval)
        return tot
    if t == "scatter":
        e2 = dict(env)
        d = e2.pop(r[1])
        e2[r[2]] = list(r[3]).index(d)
        return pyeval(r[4], e2, n, xval)
    if t == "approx":
        return pyeval(r[2], env, n, xval)
    if t == "fac":
        nm_, bs, fs = r[1], r[2], r[3]
        if nm_.startswith("FSum2"):
            return sum(pyeval(fs[0], {**env, bs[0]: a, bs[1]: b}, n, xval) for a in range(n) for b in range(n))
        if nm_.startswith("FSum"):
            return sum(pyeval(fs[0], {**env, bs[0]: a}, n, xval) for a in range(n))
        if nm_.startswith("FDot"):
            return sum(pyeval(fs[0], {**env, bs[0]: a}, n, xval) * pyeval(fs[1], {**env, bs[0]: a}, n, xval)
                       for a in range(n))
        if nm_ == "FLamGet":
            return pyeval(fs[0], {**env, bs[0]: pyeval(fs[1], env, n, xval)}, n, xval)
        if nm_.startswith("FRenFresh"):
            return pyeval(fs[0], {**env, bs[0]: env[r[4][0]]}, n, xval)
        raise ValueError(nm_)
    raise ValueError(t)


def _fold(op, vals):
    acc = vals[0]
    for v in vals[1:]:
        acc = {"add": acc + v, "mul": acc * v, "max": max(acc, v), "min": min(acc, v)}[op]
    return acc


def rename_binders(r, counter=None, m=None):
    """the same expression with every binder renamed to a globally fresh distinct name u<k>"""
    if counter is None:
        counter = [0]
    m = m or {}

    def fresh():
        counter[0] += 1
        return f"u{counter[0]}"

    def nm(x):
        return m.get(x, x)
    t = r[0]
    if t in ("leaf", "bleaf", "bleaf2"):
        return (t, r[1], tuple(nm(x) for x in r[2]), r[3])
    if t == "bvar":
        return ("bvar", nm(r[1]))
    if t == "bslice":
        return ("bslice", nm(r[1]))
    if t == "msubs":
        # key-renaming invariance: t(σ) = t[k := q](σ[q/k]) — the keys are the binders of this one call
        us = [fresh() for _ in r[2]]
        m2 = {**m, **{k: u for (k, _), u in zip(r[2], us)}}
        return ("msubs", rename_binders(r[1], counter, m2),
                tuple((u, rename_binders(v, counter, m)) for (_, v), u in zip(r[2], us))) + tuple(r[3:])
    if t == "rget":
        return ("rget", r[1], nm(r[2]))
    if t in ("bnum", "bnum2"):
        return r
    if t == "binary":
        return ("binary", r[1], rename_binders(r[2], counter, m), rename_binders(r[3], counter, m))
    if t == "reduce":
        u = fresh()
        return ("reduce", r[1], rename_binders(r[2], counter, {**m, r[3]: u}), u)
    if t == "lamget":
        u = fresh()
        return ("lamget", u, rename_binders(r[2], counter, {**m, r[1]: u}), rename_binders(r[3], counter, m))
    if t == "contr":
        u = fresh()
        m2 = {**m, r[3]: u}
        return ("contr", r[1], r[2], u, rename_binders(r[4], counter, m2), rename_binders(r[5], counter, m2))
    if t == "subs":
        u = fresh()
        return ("subs", rename_binders(r[1], counter, {**m, r[2]: u}), u, rename_binders(r[3], counter, m))
    if t == "cat":
        uv, up = fresh(), fresh()
        m2 = {k: v for k, v in m.items() if k != r[1]}   # the Cat's name is not visible in the parts
        m2[r[2]] = up
        return ("cat", uv, up, rename_binders(r[3], counter, m2), rename_binders(r[4], counter, m2),
                rename_binders(r[5], counter, m))
    if t == "indep":
        ub, ud = fresh(), fresh()
        return ("indep", rename_binders(r[1], counter, {**m, r[2]: ub}), ub, ud)
    if t == "markov":
        # only the time name is a pure binder; the step names are also the (free) inputs of the result, so they
        # follow the surrounding scope consistently, inside and outside
        u = fresh()
        return ("markov", u, nm(r[2]), nm(r[3]), rename_binders(r[4], counter, {**m, r[1]: u}))
    if t == "integ":
        vs_ = _ivars(r)
        us = tuple(fresh() for _ in vs_)
        m2 = {**m, **dict(zip(vs_, us))}
        return ("integ", us if not isinstance(r[1], str) else us[0], rename_binders(r[2], counter, m2),
                rename_binders(r[3], counter, m2))
    if t == "scatter":
        u = fresh()
        return ("scatter", nm(r[1]), u, r[3], rename_binders(r[4], counter, {**m, r[2]: u}))
    if t == "approx":
        return ("approx", nm(r[1]), rename_binders(r[2], counter, m), rename_binders(r[3], counter, m))
    if t == "fac":
        us = tuple(fresh() for _ in r[2])
        m2 = {**m, **dict(zip(r[2], us))}
        return ("fac", r[1], us, tuple(rename_binders(a, counter, m2) for a in r[3]), tuple(nm(k) for k in r[4]))
    raise ValueError(t)


def describe(r):
    def go(x):
        if isinstance(x, tuple):
            return [go(y) for y in x]
        return x
    return go(r)


# ------------------------------------------------------------------------------------------------
# running the implementation
# ------------------------------------------------------------------------------------------------

def run_mode_full(r, n, mode, xval):
    """-> ("value", funsor, funsor before the real inputs were bound) | ("declined", reason, None)"""
    try:
        cache = {}
        if mode == "eager":
            res = build(r, n, cache)
        elif mode == "optimize":
            with lazy:
                t = build(r, n, cache)
            res = apply_optimizer(t)
        else:
            interp = {"lazy": lazy, "reflect": reflect, "normalize": normalize}[mode]
            with interp:
                t = build(r, n, cache)
            res = reinterpret(t)
        pre = res
        if xval is not None and "x" in res.inputs:
            res = res(x=Tensor(np.array(xval, dtype=np.float64)))
        for zn, zv in RVALS.items():
            if zn in res.inputs:
                res = res(**{zn: Tensor(np.array(zv[:n], dtype=np.float64))})
    except DECLINE as e:
        return ("declined", f"{type(e).__name__}", None)
    except RecursionError:
        return ("declined", "RecursionError", None)
    return ("value", res, pre)


def run_mode(r, n, mode, xval):
    """-> ("value", funsor) | ("declined", reason)"""
    return run_mode_full(r, n, mode, xval)[:2]


def syntax(r, n):
    with reflect:
        return build(r, n, {})


def walk(f, seen=None):
    """all Funsor nodes of a syntax tree"""
    if seen is None:
        seen = set()
    if id(f) in seen:
        return
    seen.add(id(f))
    yield f

    def kids(x):
        if isinstance(x, Funsor):
            yield x
        elif isinstance(x, (tuple, frozenset)):
            for y in x:
                yield from kids(y)
    for a in getattr(f, "_ast_values", ()):
        for k in kids(a):
            yield from walk(k, seen)


def documented_bound(node):
    """the names the class documents as bound, read from the CONSTRUCTOR ARGUMENTS of the node (not from `.bound`
    and not from the inputs of its children)"""
    if isinstance(node, (Reduce, Contraction, Integrate, Scatter)):
        return {v.name for v in node.reduced_vars}
    if isinstance(node, Lambda):
        return {node.var.name}
    if isinstance(node, Cat):
        return {node.part_name}
    if isinstance(node, Independent):
        return {node.bint_var, node.diag_var}
    if isinstance(node, Subs):
        return set(node.subs)
    if isinstance(node, MarkovProduct):
        return {node.time.name} | set(node.step) | set(node.step.values())
    for nm_, cls in FACT_CLS.items():
        if isinstance(node, cls):
            fields = cls._ast_fields
            return {getattr(node, f).name for f, spec in zip(fields, FACT[nm_]) if spec[0] == "B"}
    return set()


def check_names(syn, user_free, real_free, exact_inputs=True):
    """-> None | (kind, detail)  — the name clauses of the property on a (reflected or rewritten) term"""
    for node in walk(syn):
        common = set(node.bound) & set(node.inputs)
        if common:
            return ("bound-in-inputs", f"{type(node).__name__}: bound {sorted(node.bound)} inputs {list(node.inputs)}")
        for b in node.bound:
            if MARK not in b:
                return ("unmarked-binder", f"{type(node).__name__}: bound {sorted(node.bound)}")
        missing = documented_bound(node) - set(node.bound)
        if missing:
            return ("documented-binder-not-bound",
                    f"{type(node).__name__}: constructor binds {sorted(documented_bound(node))}, .bound = {sorted(node.bound)}")
    ins = set(syn.inputs)
    if any(MARK in x for x in ins):
        return ("leaked-bound-name", f"inputs {sorted(ins)}")
    want = set(user_free) | set(real_free)
    if (ins != want) if exact_inputs else not (ins <= want):
        return ("inputs-differ", f"inputs {sorted(ins)} expected {sorted(set(user_free) | set(real_free))}")
    return None


def binder_pattern(syn):
    """(sorted base names of all binders, number of distinct mangled names) of a reflected term"""
    names = []
    for node in walk(syn):
        names += list(node.bound)
    base = sorted(re.sub(r"__BOUND_\d+$", "", b) for b in names)
    return base, len(set(names))


def table_points(ins, n):
    return list(itertools.product(*[range(n) for _ in ins]))


def impl_table(val, ins, n):
    """exact value table of a ground result over `ins` (sorted free names) or None if lazy"""
    if not isinstance(val, (Tensor, Number)):
        return None
    tab = futil.table(val, [(x, n) for x in ins])
    if tab.shape != (n,) * len(ins):
        return ("wrong-output-shape", tuple(tab.shape[len(ins):]))     # every recipe denotes a scalar
    return [exact(tab[p]) for p in table_points(ins, n)]


def py_table(r, ins, n, xval):
    return [Fraction(pyeval(r, dict(zip(ins, p)), n, xval)) for p in table_points(ins, n)]


def tables_same(a, b):
    if not isinstance(a, list) or not isinstance(b, list):
        return False
    return len(a) == len(b) and all(same_num(x, y) or _big_close(x, y) for x, y in zip(a, b))


def _big_close(x, y):
    """beyond 2^50 float64 arithmetic on integers is no longer exact (nested Markov products / mul-reductions):
    there, and only there, compare with a relative tolerance"""
    try:
        return (isinstance(x, Fraction) and isinstance(y, Fraction) and max(abs(x), abs(y)) > 2 ** 50
                and abs(x - y) <= Fraction(1, 10 ** 9) * max(abs(x), abs(y)))
    except Exception:
        return False


def lean_request(r, ins, n, xval):
    env = [[Q("x"), ["arr", [n], list(xval)]]] if xval is not None else []
    for zn in sorted(real_names(r) - {"x"}):
        env.append([Q(zn), ["arr", [n], list(RVALS[zn][:n])]])
    return f"C05 denote {sx(wire(r, n))} {sx([[Q(x), n] for x in ins])} {sx(env)}"


def lean_table(ans):
    tab = ser.parse_table(ans)
    if tab is None:
        return "error"
    out = []
    for cell in tab:
        if cell is None or cell[0] != [] or len(cell[1]) != 1:
            return None
        out.append(cell[1][0])
    return out


# ------------------------------------------------------------------------------------------------
# one case
# ------------------------------------------------------------------------------------------------

def gen_case(rng, tier):
    n = rng.choice([2, 2, 2, 3])
    maxd = 3 if tier == "quick" else 4
    depth = rng.choice([1, 2, 2, 3, 3] if maxd == 3 else [2, 3, 3, 4, 4])
    g = Gen(rng, n)
    kind = "real" if rng.random() < 0.8 else "bint"
    for _ in range(50):
        r = g.expr(depth, kind)
        if depth_of(r) >= 1 and len(list(subrecipes(r))) <= 60:
            break
    xval = tuple(rng.choice([0, 1, 2, 3]) for _ in range(n)) if has_indep(r) else None
    return n, r, xval


def failing_modes(r, n, xval, oracle_tab, ins, modes=MODES):
    """modes whose value differs from the oracle table (python-side; used by shrink/search/replay)"""
    bad = []
    has_rget = any(s_[0] == "rget" for s_ in subrecipes(r))
    if has_tag(r, "approx"):
        modes = ["eager"]
    for mode in modes:
        if mode == "normalize" and has_rget and "optimize" not in modes:
            continue      # see check_cases: KF-contraction-absent-var region for random recipes
        st, val, pre = run_mode_full(r, n, mode, xval)
        if st != "value":
            continue
        if isinstance(pre, Funsor) and not isinstance(pre, (Tensor, Number)):
            nm = check_names(pre, free(r), real_names(r), exact_inputs=False)
            if nm:
                bad.append((mode, f"{nm[0]}: {nm[1]}"))
                continue
        extra = set(val.inputs) - set(ins)
        if extra:
            bad.append((mode, f"foreign inputs {sorted(extra)}"))
            continue
        tab = impl_table(val, ins, n)
        if tab is None:
            continue
        if not tables_same(tab, oracle_tab):
            bad.append((mode, tab))
    return bad


def fails_py(r, n, xval, modes=MODES):
    """python-side oracle: does any exact interpretation return a value different from `pyeval`,
    or leak / fail the name clauses?"""
    try:
        ins = sorted(free(r))
        if len(ins) > 4:
            return None
        orc = py_table(r, ins, n, xval)
    except Exception:
        return None
    bad = failing_modes(r, n, xval, orc, ins, modes)
    if bad:
        return ("value", bad[0][0], orc, bad[0][1])
    if has_tag(r, "approx"):
        return None
    try:
        syn = syntax(r, n)
    except DECLINE + (RecursionError,):
        return None
    nm = check_names(syn, free(r), real_names(r))
    if nm:
        return ("names", nm[0], None, nm[1])
    return None


def outcome_kind(res):
    st, val = res
    return st if st != "value" else ("value" if isinstance(val, (Tensor, Number)) else "lazy")


def outcome_asymmetry(r, n, xval):
    """(mode, outcome with the user's names, outcome with fresh binder names) if one raises and the other
    returns a value — the choice of bound names must not decide whether a value is returned"""
    r2 = rename_binders(r)
    for mode in ("reflect", "eager"):
        o1 = outcome_kind(run_mode(r, n, mode, xval))
        o2 = outcome_kind(run_mode(r2, n, mode, xval))
        if {o1, o2} == {"declined", "value"}:
            return (mode, o1, o2)
    return None


def shrink(r, n, xval, still_fails, budget=150):
    """greedy: replace the recipe by a same-kind sub-recipe, or a sub-recipe by a leaf"""
    cur = r
    improved = True
    while improved and budget > 0:
        improved = False
        k = kind_of(cur)
        cands = [s for s in subrecipes(cur) if s is not cur and s[0] not in ("bleaf2", "bnum2") and kind_of(s) == k]
        cands.sort(key=lambda s: len(list(subrecipes(s))))
        for c in cands:
            budget -= 1
            if budget <= 0:
                break
            try:
                xv = xval if has_indep(c) else None
                if still_fails(c, xv):
                    cur, xval, improved = c, xv, True
                    break
            except Exception:
                continue
    return cur, xval


def report_value(ctx, name, r, n, xval, mode, expected, got, modes=MODES):
    def still(c, xv):
        f = fails_py(c, n, xv, modes)
        return f is not None and f[0] == "value"
    small, xv = shrink(r, n, xval, still)
    if small is not r:
        f = fails_py(small, n, xv, modes)
        if f is not None and f[0] == "value":
            r, xval, mode, expected, got = small, xv, f[1], f[2], f[3]
    ctx.fail("input", name, witness={"n": n, "recipe": describe(r), "mode": mode, "x": xval,
                                     "inputs": sorted(free(r)), "modes": list(modes)},
             expected=str(expected)[:600], got=str(got)[:600],
             python=py_program(r, n, mode, xval) +
             f"# expected table over {sorted(free(r))} (row-major): {[str(x) for x in expected][:64]}\nFAILS = True\n")


# ------------------------------------------------------------------------------------------------
# correspond
# ------------------------------------------------------------------------------------------------

def clean_stream(ctx, ncases):
    rng = ctx.rng
    cases = []
    for _ in range(ncases):
        n, r, xval = gen_case(rng, ctx.tier)
        ins = sorted(free(r))
        if len(ins) > 4:
            continue
        cases.append((n, r, xval, ins))
    check_cases(ctx, cases, "random")


CONS = ["reduce", "lamget", "cat", "contr", "subs", "indep"]
CONS2 = ["markov", "markov-hom", "integ", "scatter"]     # binder classes the shared Lean Term lacks (see `wire`)


def mk(g, cons, v, w, body):
    """one binder constructor around `body` with binder name v and auxiliary name w (deterministic shape)"""
    n = g.n
    if cons == "reduce":
        return ("reduce", "add", g.force(body, "real", v), v)
    if cons == "lamget":
        return ("lamget", v, body, ("bvar", w))
    if cons == "contr":
        return ("contr", "add", "mul", v, body, g.leaf("real", [v] if v == w else [v, w]))
    if cons == "subs":
        return ("subs", g.force(body, "real", v), v, ("bvar", w))
    if cons == "indep":
        if has_indep(body):
            return None
        return ("indep", g.force(body, "real", v), v, "x" if w == "i" else "y")
    if cons.startswith("fac:"):
        return g.make_fac(cons[4:], 0, False, v=v, w=w, body=body)
    if cons in ("markov", "markov-hom"):
        # time name v (adversarial), step pair (p, q); the auxiliary name w stays a free input of the transition
        b = body
        if cons == "markov-hom":
            if v in free(b):
                b = ("subs", b, v, ("bnum", 0))           # time-homogeneous: the transition does not mention v
        else:
            b = g.force(b, "real", v)
        if v != w:
            b = g.force(b, "real", w)
        b = ("binary", "mul", b, g.leaf("real", ["p", "q"]))
        return ("markov", v, "p", "q", b)
    if cons == "integ":
        mask = ("leaf", g.fresh_lid(), (v,), tuple([1, 0, 1][:n]))
        return ("integ", v, mask, body)
    if cons == "scatter":
        src = v
        source = g.force(body, "real", src)
        dest = "s"       # see Gen.make: substitutions for a lazy Scatter's destination are dropped by funsor
        if dest in free(source):
            return None
        return ("scatter", dest, src, tuple(reversed(range(n))), source)
    if cons == "cat":
        p = w
        if p != v and v in free(body):
            body = ("subs", body, v, ("bnum", 0))
        part1 = g.force(body, "real", p)
        part2 = g.leaf("real", [p])
        return ("cat", v, p, part1, part2, ("bnum2", 1 + (len(v + w) + ord(w[0])) % (2 * n - 1)))
    raise ValueError(cons)


def enum_stream(ctx):
    """systematic part: every ordered nesting of two (thorough: sampled three) binder constructors around a
    leaf over the whole pool, with EVERY assignment of pool names to the binders and auxiliary names"""
    rng = ctx.rng
    quick = ctx.tier == "quick"
    cases = []
    n = 2
    g = Gen(rng, n)
    base = g.leaf("real", list(POOL))
    for c_in, c_out in itertools.product(CONS, CONS):
        for v_in, v_out, w_in in itertools.product(POOL, POOL, POOL):
            for w_out in (POOL if not quick else [POOL[(POOL.index(w_in) + 1) % 3]]):
                inner = mk(g, c_in, v_in, w_in, base)
                if inner is None:
                    continue
                outer = mk(g, c_out, v_out, w_out, inner)
                if outer is None:
                    continue
                ins = sorted(free(outer))
                xval = (1, 2) if has_indep(outer) else None
                cases.append((n, outer, xval, ins))
    n_exh = len(cases)
    # the four further binder classes, as inner and as outer constructor of every class, then a substitution of a
    # value named like ANY pool name (so: like the time / reduced / source name) for a remaining free input
    extra = []
    CONS3 = ["fac:" + k for k in sorted(FACT)]       # make_funsor binders: every declaration order
    for c2 in CONS2 + CONS3:
        for c1 in CONS + CONS2 + CONS3:
            for v2, v1, w in itertools.product(POOL, POOL, POOL):
                if quick and rng.random() > (0.03 if (c2 in CONS3 and c1 in CONS3) else 0.05):
                    continue
                for inner_c, outer_c, vi, vo in ((c2, c1, v2, v1), (c1, c2, v1, v2)):
                    inner = mk(g, inner_c, vi, w, base)
                    outer = mk(g, outer_c, vo, w, inner) if inner is not None else None
                    if outer is not None:
                        extra.append(outer)
        for v, w in itertools.product(POOL, POOL):
            one = mk(g, c2, v, w, base)
            if one is None:
                continue
            for key in sorted(free(one) & set(POOL)):
                for u in POOL:
                    extra.append(("subs", one, key, ("bvar", u)))
                    extra.append(("subs", one, key, g.leaf("bint", [u])))
    for r_ in extra:
        ins = sorted(free(r_))
        if len(ins) <= 4:
            cases.append((n, r_, (1, 2) if has_indep(r_) else None, ins))
    ctx.count("enumerated:further-binder-classes", len(extra))
    if not quick:
        triples = list(itertools.product(CONS, CONS, CONS))
        for _ in range(6000):
            c1, c2, c3 = rng.choice(triples)
            names = [rng.choice(POOL) for _ in range(6)]
            t1 = mk(g, c1, names[0], names[1], base)
            t2 = mk(g, c2, names[2], names[3], t1) if t1 is not None else None
            t3 = mk(g, c3, names[4], names[5], t2) if t2 is not None else None
            if t3 is None:
                continue
            ins = sorted(free(t3))
            cases.append((n, t3, (1, 2) if has_indep(t3) else None, ins))
    ctx.count("enumerated:two-level-nestings-x-name-assignments", n_exh)
    check_cases(ctx, cases, "enum")


# ---- the fresh-name supply across threads ------------------------------------------------------------------

def in_thread(fn):
    """run fn() on a FRESH worker thread and return its result (threads run one after the other)"""
    import threading
    box = {}

    def target():
        try:
            box["result"] = fn()
        except BaseException as e:
            box["error"] = e
    th = threading.Thread(target=target)
    th.start()
    th.join()
    if "error" in box:
        raise box["error"]
    return box["result"]


SUPPLY_PY = """import threading
from funsor import interpreter
out = []
def go():
    out.append(interpreter.gensym('i__BOUND'))
for _ in range(3):
    th = threading.Thread(target=go); th.start(); th.join()
go()
print(out)
FAILS = len(set(out)) != len(out)
"""

THREAD_PY = """import threading
def in_thread(fn):
    box = {}
    def target():
        box['r'] = fn()
    th = threading.Thread(target=target); th.start(); th.join()
    return box['r']
"""


def nested_same_mangled(term):
    """a binder node one of whose bound names is bound again strictly inside it (different thread-local counters
    would produce this; a single monotone counter cannot, except through self-substitution, which this stream
    does not generate)"""
    for node in walk(term):
        if not node.bound:
            continue
        inner = set()
        for a in getattr(node, "_ast_values", ()):
            for sub in (walk(a) if isinstance(a, Funsor) else
                        [x for y in (a if isinstance(a, (tuple, frozenset)) else ()) if isinstance(y, Funsor)
                         for x in walk(y)]):
                inner |= set(sub.bound)
        both = set(node.bound) & inner
        if both:
            return f"{type(node).__name__} binds {sorted(both)} which is bound again inside it"
    return None


def thread_stream(ctx):
    """Capture avoidance rests on mangled names being unique among ALL live terms, whichever thread built them.
    Inner binder terms are built on worker thread A, the enclosing binder over the SAME user name on worker thread B
    (both fresh), the binders are opened on the main thread (reinterpret / substitution)."""
    from funsor import interpreter
    rng = ctx.rng
    # (a) the supply itself: names issued on different threads (and on this one) are pairwise different
    names = [in_thread(lambda: interpreter.gensym("i__BOUND")) for _ in range(3)] + [interpreter.gensym("i__BOUND")]
    ctx.count("threads:supply-probe")
    if len(set(names)) != len(names):
        ctx.fail("input", "C05.gensym-supply-not-injective", witness={"issued": names},
                 expected="pairwise different names", got=str(names), python=SUPPLY_PY)
    # (b) Independent opened by substitution (inner reduction mentions the diag variable, so it stays lazy)
    n = 3
    for interp_name, interp in (("lazy", lazy), ("reflect", reflect)):
        for bname, iname in itertools.product(POOL, POOL):
            P = np.array([rng.choice([1., 2., 3.]) for _ in range(n)])
            Qd = np.array([rng.choice([0., 1., 2.]) for _ in range(n)])
            V = np.array([rng.choice([1., 2., 4.]) for _ in range(n)])
            want = float(sum(P[b] * V[b] + sum(Qd[i] * V[b] for i in range(n)) for b in range(n)))

            def run(threaded):
                xi = Variable("xi", Real)
                p_ = Tensor(P, OrderedDict([(bname, Bint[n])]))
                q_ = Tensor(Qd, OrderedDict([(iname, Bint[n])]))

                def make_inner():
                    with interp:
                        return (q_ * xi).reduce(ops.add, iname)

                def make_outer(inner):
                    def go():
                        with interp:
                            return Independent(p_ * xi + inner, "x", bname, "xi")
                    return go
                inner = in_thread(make_inner) if threaded else make_inner()
                ind = in_thread(make_outer(inner)) if threaded else make_outer(inner)()
                with interp:
                    res = ind(x=Tensor(V))
                return ind, reinterpret(res)
            try:
                ind, got = run(True)
                _, single = run(False)
            except DECLINE as e:
                ctx.count(f"threads:independent:declined:{type(e).__name__}")
                continue
            ctx.count("threads:independent")
            probe = nested_same_mangled(ind)
            ok = isinstance(got, Tensor) and not got.inputs and abs(float(got.data) - want) < 1e-9
            if probe or not ok:
                ctx.fail("input", "C05.threads-independent", witness={"batch": bname, "inner": iname, "interp": interp_name,
                         "P": P.tolist(), "Q": Qd.tolist(), "V": V.tolist()},
                         expected=f"{want} (single-thread build: {single})", got=f"{got}; {probe or ''}",
                         python=THREAD_PY + THREAD_IND_PY.format(b=bname, i=iname, interp=interp_name, P=P.tolist(),
                                                                 Q=Qd.tolist(), V=V.tolist(), want=want))
            ctx.case()
    # (c) recipes: INNER binder over v with free w (thread A); OUTER binder over the same v around h(v) * INNER[w := v]
    n = 2
    g = Gen(rng, n)
    inners = ["reduce", "contr", "integ", "fac:FSumFirst", "fac:FDotMid"]
    outers = ["reduce", "contr", "integ", "lamget", "fac:FSumLast", "fac:FDotFirst", "markov"]
    for c_in, c_out, interp_name in itertools.product(inners, outers, ("lazy", "reflect")):
        interp = {"lazy": lazy, "reflect": reflect}[interp_name]
        for v, w in itertools.permutations(POOL, 2):
            if ctx.tier == "quick" and rng.random() > 0.35:
                continue
            inner = mk(g, c_in, v, w, g.leaf("real", [v, w]))
            if inner is None or w not in free(inner):
                continue
            body = ("binary", "mul", g.leaf("real", [v]), ("subs", inner, w, ("bvar", v)))
            r = mk(g, c_out, v, [x for x in POOL if x not in (v, w)][0], body)
            if r is None:
                continue
            ins = sorted(free(r))
            if len(ins) > 4:
                continue
            try:
                orc = py_table(r, ins, n, None)
            except Exception:
                continue

            def build_threaded():
                cache = {}

                def a():
                    with interp:
                        return build(inner, n, cache)
                cache[("prebuilt", id(inner))] = in_thread(a)

                def b():
                    with interp:
                        return build(r, n, cache)
                return in_thread(b)
            try:
                term = build_threaded()
                got = reinterpret(term)
            except DECLINE + (RecursionError,) as e:
                ctx.count(f"threads:recipe:declined:{type(e).__name__}")
                continue
            ctx.count("threads:recipe")
            probe = nested_same_mangled(term)
            tab = impl_table(got, ins, n) if not (set(got.inputs) - set(ins)) else f"foreign inputs {sorted(got.inputs)}"
            if probe or (tab is not None and not tables_same(tab, orc)):
                ctx.fail("input", "C05.threads-nested-binders",
                         witness={"n": n, "recipe": describe(r), "inner": describe(inner), "interp": interp_name},
                         expected=str(orc)[:300], got=f"{tab}; {probe or ''}"[:500],
                         python=THREAD_PY + py_program(r, n, interp_name, None).replace(
                             "FAILS", "# NOTE: build the `inner` sub-term with in_thread(...) first, then the rest with in_thread(...)\nFAILS")
                         + "FAILS = True\n")
            ctx.case(nontrivial_key=repr(describe(r)) + interp_name)


THREAD_IND_PY = """import numpy as np
from collections import OrderedDict
import funsor, funsor.ops as ops
from funsor.domains import Bint, Real
from funsor.tensor import Tensor
from funsor.terms import Variable, Independent
from funsor.interpretations import lazy, reflect
from funsor.interpreter import reinterpret
interp = {interp}
xi = Variable('xi', Real)
p = Tensor(np.array({P}), OrderedDict([({b!r}, Bint[3])]))
q = Tensor(np.array({Q}), OrderedDict([({i!r}, Bint[3])]))
def make_inner():
    with interp:
        return (q * xi).reduce(ops.add, {i!r})
inner = in_thread(make_inner)
def make_outer():
    with interp:
        return Independent(p * xi + inner, 'x', {b!r}, 'xi')
ind = in_thread(make_outer)
with interp:
    res = ind(x=Tensor(np.array({V})))
res = reinterpret(res)
print(res, 'expected', {want})
FAILS = bool(res.inputs) or abs(float(res.data) - {want}) > 1e-9
"""


def onesub_stream(ctx):
    """Binder classes with SEVERAL sub-terms: a bound name that occurs in exactly ONE of them (each position), next to
    a sibling factor mentioning a FREE variable of the same user-level name.  The class's `_alpha_convert` must
    rename the name in every sub-term it occurs in — and only the binder's own occurrences."""
    rng = ctx.rng
    cases = []
    for n in ([2] if ctx.tier == "quick" else [2, 3]):
        g = Gen(rng, n)
        for v, w, u in itertools.permutations(POOL, 3):
            L = lambda names: g.leaf("real", list(names))      # noqa: E731
            mask = lambda names: ("leaf", g.fresh_lid(), tuple(names), tuple(rng.choice([0, 1, 1]) for _ in range(n ** len(names))))  # noqa: E731
            inner = [
                # Integrate over {w, v}: v only in the integrand / only in the measure / in both; w in both
                ("integ", (w, v), mask([u, w]), L([w, v])),
                ("integ", (v, w), mask([w, v]), L([w, u])),
                ("integ", (w, v), mask([w, v]), L([v, w])),
                ("integ", (v,), mask([u]), L([v, u])),                 # measure does not mention the bound name at all
                ("integ", (v,), mask([v, u]), L([u])),                 # integrand does not mention it
                # Contraction: v only in the first / only in the second operand
                ("contr", "add", "mul", v, L([v, w]), L([w, u])),
                ("contr", "add", "mul", v, L([w, u]), L([v, w])),
                ("contr", "max", "add", v, L([v, w]), L([u])),
                # Subs: the key occurs in the argument only; the value mentions a free variable of the same name
                ("subs", L([v, w]), v, g.leaf("bint", [v])),
                ("msubs", L([v, w]), ((v, ("bvar", w)), (w, g.leaf("bint", [v])))),
                # factory binders with two Funsor arguments
                ("fac", "FDotMid", (v,), (L([v, w]), L([w, u])), ()),
                ("fac", "FDotMid", (v,), (L([w, u]), L([v, w])), ()),
                ("fac", "FDotFirst", (v,), (L([v, w]), L([u])), ()),
                ("fac", "FDotFirst", (v,), (L([u]), L([v, w])), ()),
                ("fac", "FLamGet", (v,), (L([v, w]), ("bvar", u)), ()),
                # Scatter: the reduced name in the index tensor only (the source does not mention it) / in both
                ("scatter", "s", v, tuple(reversed(range(n))), L([w, u])),
                ("scatter", "s", v, tuple(reversed(range(n))), L([v, w])),
                # MarkovProduct: the time name only in the transition / nowhere (homogeneous); Independent
                ("markov", v, "p", "q", ("binary", "mul", L([v, w]), L(["p", "q"]))),
                ("markov", v, "p", "q", ("binary", "mul", L([w]), L(["p", "q"]))),
                ("indep", L([v, w]), v, "y"),
            ]
            for t_ in inner:
                # a sibling factor with a FREE variable of the bound name, and an enclosing binder over it
                sib = ("binary", "mul", t_, L([v, u]))
                cases.append((n, t_))
                cases.append((n, sib))
                cases.append((n, ("reduce", "add", sib, v)))
                cases.append((n, ("subs", sib, v, ("bvar", w))))
    if ctx.tier == "quick" and len(cases) > 260:
        cases = rng.sample(cases, 260)
    out = []
    for n, r in cases:
        ins = sorted(free(r))
        if len(ins) <= 4:
            out.append((n, r, (1, 2, 3)[:n] if has_indep(r) else None, ins))
    ctx.count("onesub:cases", len(out))
    check_cases(ctx, out, "onesub")


REBUILD_PY = """import numpy as np
from collections import OrderedDict
import funsor
from funsor.domains import Bint, Real, Reals
from funsor.tensor import Tensor
from funsor.terms import Lambda, Variable
binder, free, fsize, index = {binder!r}, {free!r}, {fsize}, {index}
Wd = np.arange(1.0, 7.0).reshape(3, 2)
Ud = np.array({U})
W, v = Variable('W', Reals[3, 2]), Variable('v', Real)
z2 = Lambda(Variable(binder, Bint[3]), W[binder] * v)(v=Tensor(Ud, OrderedDict([(free, Bint[fsize])])))
t = z2[index]
print(dict(t.inputs))
r = t(W=Tensor(Wd))
print(r)
expected = Ud.reshape((-1,) + (1,) * Wd[index].ndim) * Wd[index]
FAILS = set(t.inputs) != {{'W', free}} or not isinstance(r, Tensor) or r.data.shape != expected.shape or not np.allclose(r.data, expected)
"""


def rebuild_stream(ctx):
    """Eager rules that REBUILD a binder term and choose its bound name (eager_getslice_lambda behind z[:, k], z[:],
    z[..., k], z[a:b]; eager_getitem_lambda behind z[k], z[Variable], z[Tensor]) applied AFTER a capture-prone
    substitution: Lambda(b, W[b] * v)(v := U(f)) with the free name f drawn from the pool (f = the binder's raw name
    included), W a free real array (the term stays lazy under eager)."""
    rng = ctx.rng
    Wd = np.arange(1.0, 7.0).reshape(3, 2)
    pyidx = [("[:, k]", lambda k: (slice(None), k)), ("[:]", lambda k: slice(None)), ("[..., k]", lambda k: (Ellipsis, k)),
             ("[a:b]", lambda k: slice(1, 3)), ("[a:b, k]", lambda k: (slice(0, 2), k)), ("[k]", lambda k: 2)]
    for binder, free in itertools.product(POOL, POOL):
        for fsize in (3, 2):
            Ud = np.array([float(rng.choice([1, 2, 3, 5])) for _ in range(fsize)])
            for mode in ("eager", "lazy", "reflect"):
                for label, mk_index in pyidx + [("[Variable]", None), ("[Tensor]", None)]:
                    k = rng.randrange(2)
                    cname = rng.choice(POOL)

                    def build(bn):
                        W, v = Variable("W", Reals[3, 2]), Variable("v", Real)
                        z2 = Lambda(Variable(bn, Bint[3]), W[bn] * v)(v=Tensor(Ud, OrderedDict([(free, Bint[fsize])])))
                        if label == "[Variable]":
                            return z2[Variable(cname, Bint[3])]
                        if label == "[Tensor]":
                            return z2[Tensor(np.array([2, 0, 1]), OrderedDict([(cname, Bint[3])]), 3)]
                        return z2[mk_index(k)]
                    # expected value as a named array over the free discrete names
                    if label in ("[Variable]", "[Tensor]"):
                        rows = Wd if label == "[Variable]" else Wd[[2, 0, 1]]
                        if cname == free:
                            if fsize != 3:
                                continue            # one name, two sizes: ill-typed
                            names, E = [free], Ud[:, None] * rows
                        else:
                            names, E = [free, cname], Ud[:, None, None] * rows[None]
                    else:
                        sub = Wd[mk_index(k)]
                        names, E = [free], Ud.reshape((-1,) + (1,) * sub.ndim) * sub
                    ctx.count(f"rebuild:lambda{label}")
                    if binder == free:
                        ctx.count("rebuild:free-name-equals-binder")
                    outs = {}
                    bad = None
                    for twin, bn in ((False, binder), (True, "u1")):
                        try:
                            if mode == "eager":
                                t = build(bn)
                            else:
                                with {"lazy": lazy, "reflect": reflect}[mode]:
                                    t0 = build(bn)
                                t = reinterpret(t0)
                            nm_ = check_names(t, names, {"W"}, exact_inputs=True) if not isinstance(t, (Tensor, Number)) else None
                            res = t(W=Tensor(Wd))
                        except DECLINE + (RecursionError,) as e:
                            outs[twin] = "declined"
                            ctx.count(f"rebuild:{mode}:declined:{type(e).__name__}")
                            continue
                        if nm_:
                            bad = f"{nm_[0]}: {nm_[1]}"
                            break
                        if not isinstance(res, Tensor):
                            outs[twin] = "lazy"
                            continue
                        if set(res.inputs) != set(names):
                            bad = f"result inputs {sorted(res.inputs)}, free names {sorted(names)}"
                            break
                        order = [(nm2, E.shape[q]) for q, nm2 in enumerate(names)]
                        tab = np.asarray(futil.table(res, order))
                        if tab.shape != E.shape or not np.allclose(tab, E):
                            bad = f"{'twin ' if twin else ''}value {tab.tolist()} != {E.tolist()}"
                            break
                        outs[twin] = "value"
                    if bad is None and {outs.get(False), outs.get(True)} == {"declined", "value"}:
                        bad = f"binder name {binder!r}: {outs[False]}; fresh binder name: {outs[True]}"
                    if bad:
                        idx_src = {"[:, k]": f"(slice(None), {k})", "[:]": "slice(None)", "[..., k]": f"(Ellipsis, {k})",
                                   "[a:b]": "slice(1, 3)", "[a:b, k]": f"(slice(0, 2), {k})", "[k]": "2"}.get(label, "slice(None)")
                        ctx.fail("input", "C05.rebuilt-binder-captures", witness={"binder": binder, "free": free, "free_size": fsize,
                                 "index": label, "k": k, "index_name": cname, "mode": mode}, expected=f"function of {names}: {E.tolist()}",
                                 got=bad, python=REBUILD_PY.format(binder=binder, free=free, fsize=fsize, index=idx_src, U=Ud.tolist()))
                    ctx.case(nontrivial_key=f"{binder}{free}{fsize}{label}{mode}" if outs.get(False) == "value" and binder == free else None)


PAIRS_PY = """import numpy as np
from collections import OrderedDict
import funsor, funsor.ops as ops
from funsor.domains import Bint
from funsor.tensor import Tensor
from funsor.terms import Variable
from funsor.sum_product import MarkovProduct
from funsor.interpretations import lazy, reflect, normalize
from funsor.interpreter import reinterpret
names, step, T, n = {names}, {step}, {T}, {n}
data = np.array({data}, dtype=np.float64).reshape((T,) + (n,) * (len(names) - 1))
trans = Tensor(data, OrderedDict((x, Bint[T] if x == names[0] else Bint[n]) for x in names))
with {mode}:
    t = MarkovProduct(ops.add, ops.mul, trans, Variable(names[0], Bint[T]), step)
got = reinterpret(t)
want = MarkovProduct(ops.add, ops.mul, trans, Variable(names[0], Bint[T]), step)
order = tuple(want.inputs)
print(got.align(order).data, want.data)
FAILS = not np.allclose(got.align(order).data, want.data)
"""


def pairs_stream(ctx):
    """Binders whose bound names come in PAIRS / ordered lists: MarkovProduct with 2-3 step pairs {prev: curr} over
    equal state domains, names in EVERY pairing (so sorting the prev names and the curr names separately would pair
    them differently); Scatter with two (destination, index) pairs.  lazy / reflect / normalize + reinterpret vs the
    eager build and the brute-force chain product."""
    rng = ctx.rng
    quick = ctx.tier == "quick"
    pool = POOL + SPOOL + ["r", "s"]
    n = 2
    combos = []
    for npairs in (2, 3):
        perms = list(itertools.permutations(pool, 2 * npairs))
        rng.shuffle(perms)
        combos += [(npairs, pm) for pm in perms[:(120 if quick else 600) // (1 if npairs == 2 else 4)]]
    for npairs, pm in combos:
        prevs, currs = list(pm[:npairs]), list(pm[npairs:])
        step = dict(zip(prevs, currs))
        T = rng.choice([2, 3])
        tname = rng.choice([x for x in pool + ["t"] if x not in pm])
        # canonical data: axes (time, prevs…, currs…)
        canon = np.array([rng.choice([0., 1., 1., 2., 3.]) for _ in range(T * n ** (2 * npairs))]).reshape((T,) + (n,) * (2 * npairs))
        M = [canon[k].reshape(n ** npairs, n ** npairs) for k in range(T)]
        prod = M[0]
        for k in range(1, T):
            prod = prod @ M[k]
        want = prod.reshape((n,) * (2 * npairs))
        # the Tensor's inputs in a shuffled order
        axes = list(range(1, 2 * npairs + 1))
        rng.shuffle(axes)
        canon_names = prevs + currs
        names = [tname] + [canon_names[a - 1] for a in axes]
        data = np.transpose(canon, [0] + axes)
        trans = Tensor(data, OrderedDict((x, Bint[T] if x == tname else Bint[n]) for x in names))
        if sorted(prevs) != prevs or [step[x] for x in sorted(prevs)] != sorted(currs):
            ctx.count("pairs:markov:sorted-orders-disagree")
        order = [(x, n) for x in canon_names]
        for mode in ("eager", "lazy", "reflect", "normalize"):
            try:
                if mode == "eager":
                    got = MarkovProduct(ops.add, ops.mul, trans, Variable(tname, Bint[T]), step)
                    nm_ = None
                else:
                    with {"lazy": lazy, "reflect": reflect, "normalize": normalize}[mode]:
                        t = MarkovProduct(ops.add, ops.mul, trans, Variable(tname, Bint[T]), step)
                    nm_ = check_names(t, canon_names, set(), exact_inputs=True) if isinstance(t, MarkovProduct) else None
                    got = reinterpret(t)
            except DECLINE as e:
                ctx.count(f"pairs:markov:{mode}:declined:{type(e).__name__}")
                continue
            bad = None
            if nm_:
                bad = f"{nm_[0]}: {nm_[1]}"
            elif not isinstance(got, Tensor):
                ctx.count(f"pairs:markov:{mode}:lazy-result")
                continue
            elif set(got.inputs) != set(canon_names):
                bad = f"inputs {sorted(got.inputs)} != {sorted(canon_names)}"
            elif not np.array_equal(futil.table(got, order), want):
                bad = f"value {futil.table(got, order).tolist()} != chain product {want.tolist()}"
            if bad:
                ctx.fail("input", "C05.markov-step-pairs", witness={"step": step, "time": tname, "T": T, "names": names, "mode": mode},
                         expected="chain product of the joint transition matrices", got=bad[:500],
                         python=PAIRS_PY.format(names=names, step=step, T=T, n=n, data=data.reshape(-1).tolist(),
                                                mode=mode if mode != "eager" else "lazy"))
                break
            ctx.count(f"pairs:markov:{mode}:value")
        ctx.case(nontrivial_key=repr((pm, T)))
    # Scatter with two (destination, index) pairs
    for _ in range(30 if quick else 200):
        s1, s2, d1, d2 = rng.sample(pool, 4)
        p1, p2 = list(range(n)), list(range(n))
        rng.shuffle(p1); rng.shuffle(p2)
        src = np.array([rng.choice([1., 2., 3., 5.]) for _ in range(n * n)]).reshape(n, n)
        want = np.zeros((n, n))
        for a in range(n):
            for b in range(n):
                want[p1[a], p2[b]] = src[a, b]
        pairs = ((d1, Tensor(np.array(p1), OrderedDict([(s1, Bint[n])]), n)), (d2, Tensor(np.array(p2), OrderedDict([(s2, Bint[n])]), n)))
        if rng.random() < 0.5:
            pairs = pairs[::-1]
        source = Tensor(src, OrderedDict([(s1, Bint[n]), (s2, Bint[n])]))
        rv = frozenset({Variable(s1, Bint[n]), Variable(s2, Bint[n])})
        for mode in ("eager", "lazy", "reflect"):
            try:
                if mode == "eager":
                    got = Scatter(ops.add, pairs, source, rv)
                else:
                    with {"lazy": lazy, "reflect": reflect}[mode]:
                        t = Scatter(ops.add, pairs, source, rv)
                    got = reinterpret(t)
            except DECLINE as e:
                ctx.count(f"pairs:scatter:{mode}:declined:{type(e).__name__}")
                continue
            if isinstance(got, Tensor):
                if set(got.inputs) != {d1, d2} or not np.array_equal(futil.table(got, [(d1, n), (d2, n)]), want):
                    ctx.fail("input", "C05.scatter-pairs", witness={"src": [s1, s2], "dest": [d1, d2], "perm": [p1, p2], "mode": mode},
                             expected=str(want.tolist()), got=f"{list(got.inputs)} {np.asarray(got.data).tolist()}", python=None)
                    break
                ctx.count(f"pairs:scatter:{mode}:value")
        ctx.case()


def simsubs_stream(ctx):
    """SIMULTANEOUS substitution into ground Tensors / eager results: the keys of one call are binders of that call.
    Every pattern {key a renamed (Variable / Slice) onto the name of another key b of the same call, b replaced by a
    Number / Tensor over any pool name / Slice / another rename}, both keyword orders, optional third key, 2-3 inputs
    of one size; gates as everywhere (pointwise definition via pyeval and Lean `denote` of the Subs term, inputs =
    free names of the values, keys renamed to fresh names give the same table)."""
    rng = ctx.rng
    quick = ctx.tier == "quick"
    cases = []
    for n in ([3] if quick else [2, 3]):
        g = Gen(rng, n)
        for names in list(itertools.permutations(POOL, 2)) + list(itertools.permutations(POOL, 3)):
            leaf = g.leaf("real", list(names))
            bodies = [leaf, ("binary", "add", g.leaf("real", list(names[:1])), g.leaf("real", list(names[::-1])))]
            for a, b in itertools.permutations(names, 2):
                for va in (("bvar", b), ("bslice", b)):
                    vbs = [("bnum", rng.randrange(n))]
                    vbs += [g.leaf("bint", [c]) for c in POOL]
                    vbs += [("bslice", c) for c in POOL if c != b]
                    vbs += [("bvar", c) for c in POOL if c != b]
                    for vb in vbs:
                        for order in (0, 1):
                            pairs = [(a, va), (b, vb)]
                            if order:
                                pairs.reverse()
                            third = [x for x in names if x not in (a, b)]
                            if third and rng.random() < 0.5:
                                c = third[0]
                                pairs.insert(rng.randrange(3), (c, rng.choice([("bnum", 0), ("bvar", b), ("bvar", a),
                                                                                   g.leaf("bint", [b])])))
                            body = bodies[rng.randrange(2)]
                            cases.append((n, ("msubs", body, tuple(pairs))))
    if quick and len(cases) > 350:
        cases = rng.sample(cases, 350)
    out = []
    for n, r in cases:
        ins = sorted(free(r))
        if len(ins) <= 4:
            out.append((n, r, None, ins))
    ctx.count("simsubs:cases", len(out))
    check_cases(ctx, out, "simsubs", modes=["eager", "lazy", "reflect"])


def callform_stream(ctx):
    """The SURFACE FORMS of one simultaneous substitution call.  `x(a, b, k=v)` desugars to ONE Subs whose keys are the
    binders of that call; the same pairs written positionally, by keyword, MIXED (every split point of the input
    list), with name strings / python ints for Variable / Number values, or through the Subs constructor must all
    denote the simultaneous substitution (Lean `denote` of the Subs term; pyeval; keys renamed to fresh names).
    Grid: bodies over every ordering of 2-3 pool names {ground Tensor, eager Binary of two Tensors, body * (body
    reduced over one of its OWN input names: the bound name is also a key), body * z[a] kept lazy by a free real
    array}; every input gets no pair / a Variable or Slice of any pool name / a Number / a bint Tensor over a pool
    name — so positional values mention keyword keys, keyword values mention positional keys, two keys swap, a key is
    renamed onto the name of a dropped key, …; split point 0..#inputs; sugar on/off; Subs(...)."""
    rng = ctx.rng
    quick = ctx.tier == "quick"
    grid, rest = [], []
    for n in ([3] if quick else [2, 3]):
        g = Gen(rng, n)

        def bodies(names):
            leaf = g.leaf("real", list(names))
            return [leaf,
                    ("binary", "add", g.leaf("real", list(names[:1])), g.leaf("real", list(names[::-1]))),
                    ("binary", "mul", leaf, ("reduce", "add", g.leaf("real", list(names)), rng.choice(names))),
                    ("binary", "mul", leaf, ("rget", "z", rng.choice(names)))]

        def options(small):
            o = [None, ("bnum", rng.randrange(n))] + [("bvar", c) for c in POOL]
            if not small:
                o += [("bslice", c) for c in POOL] + [g.leaf("bint", [c]) for c in POOL]
                o += [g.leaf("bint", list(rng.sample(POOL, 2)))]
            return o

        def styles(k):
            return [("subs",)] + [("call", npos, sug) for npos in range(k + 1) for sug in (False, True)]
        for names in list(itertools.permutations(POOL, 2)) + list(itertools.permutations(POOL, 3)):
            k = len(names)
            # (a) the whole name-coincidence grid over Variable / Number values (name strings / ints under sugar)
            for vals in itertools.product(*[options(True) for _ in names]):
                pairs = tuple((a, v) for a, v in zip(names, vals) if v is not None)
                if not pairs:
                    continue
                for st in styles(k):
                    if k == 3 and rng.random() < 0.8:
                        continue
                    for order in ((0, 1) if len(pairs) > 1 else (0,)):
                        grid.append((n, ("msubs", rng.choice(bodies(names)), pairs[::-1] if order else pairs, st)))
            # (b) sampled: Slice / bint-Tensor values (never sugared), all styles
            for _ in range(60 if quick else 250):
                vals = [rng.choice(options(False)) for _ in names]
                pairs = [(a, v) for a, v in zip(names, vals) if v is not None]
                if not pairs:
                    continue
                rng.shuffle(pairs)
                rest.append((n, ("msubs", rng.choice(bodies(names)), tuple(pairs), rng.choice(styles(k)))))
    ng, nr = (260, 120) if quick else (1400, 600)
    cases = (rng.sample(grid, ng) if len(grid) > ng else grid) + (rng.sample(rest, nr) if len(rest) > nr else rest)
    out = []
    for n, r in cases:
        ins = sorted(free(r))
        if len(ins) > 4:
            continue
        st = r[3]
        ctx.count("callform:style:" + (st[0] if st[0] == "subs" else
                                       ("positional" if st[1] >= len(free(r[1])) else "keyword" if st[1] == 0 else "mixed")
                                       + ("+sugar" if st[2] else "")))
        keys = {k_ for k_, _ in r[2]}
        if any(free(v) & (keys - {k_}) for k_, v in r[2]):
            ctx.count("callform:value-mentions-another-key")
        out.append((n, r, None, ins))
    ctx.count("callform:cases", len(out))
    check_cases(ctx, out, "callform", modes=["eager", "lazy", "reflect"])


def fusion_stream(ctx):
    """Binders created by FUSION of nested binders.  Body x[i,j,k] * z[a] * w[b] with z, w free real-array
    inputs (so eager cannot collapse it); 2-3 nested Reduce / Contraction levels with binder names from the
    pool (normalize / eager / apply_optimizer fuse them into ONE binder over a set that mixes an already
    mangled name with a fresh user name); THEN a substitution for a remaining free input of a value whose
    free name is any pool name (colliding with the inner/outer binder names); real inputs bound last."""
    rng = ctx.rng
    quick = ctx.tier == "quick"
    cases = []
    for n in ([2] if quick else [2, 3]):
        g = Gen(rng, n)
        x = g.leaf("real", list(POOL))

        def level(kind, cur, v, w):
            if kind == "R":
                return ("reduce", "add", cur, v)
            return ("contr", "add", "mul", v, cur, g.leaf("real", [v] if v == w else [v, w]))
        for a, b in itertools.permutations(POOL, 2):
            f = ("binary", "mul", ("binary", "mul", x, ("rget", "z", a)), ("rget", "w", b))
            for k1, k2 in itertools.product("RC", "RC"):
                for v1, v2 in itertools.permutations(POOL, 2):
                    for w in POOL:
                        h = level(k2, level(k1, f, v1, w), v2, w)
                        fr = sorted(free(h))
                        if not fr:
                            continue
                        key = fr[0]
                        vals = [("bvar", u) for u in POOL]
                        if not quick or rng.random() < 0.3:
                            vals.append(g.leaf("bint", [rng.choice(POOL)]))
                        for val in vals:
                            cases.append((n, ("subs", h, key, val)))
                        if rng.random() < (0.25 if quick else 1.0):
                            cases.append((n, h))
        # three levels (sampled): the third binder re-uses a pool name freed by a Contraction's extra factor
        for _ in range(150 if quick else 800):
            a, b = rng.sample(POOL, 2)
            f = ("binary", "mul", ("binary", "mul", x, ("rget", "z", a)), ("rget", "w", b))
            cur = f
            ok = True
            for _lvl in range(3):
                fr = sorted(free(cur))
                if not fr:
                    ok = False
                    break
                cur = level(rng.choice("RC"), cur, rng.choice(fr), rng.choice(POOL))
            fr = sorted(free(cur))
            if ok and fr:
                cases.append((n, ("subs", cur, rng.choice(fr), ("bvar", rng.choice(POOL)))))
    if quick and len(cases) > 300:
        cases = rng.sample(cases, 300)
    out = []
    for n, r in cases:
        ins = sorted(free(r))
        if len(ins) <= 3:
            out.append((n, r, None, ins))
    ctx.count("fusion:cases", len(out))
    check_cases(ctx, out, "fusion", modes=MODES_OPT)


def check_cases(ctx, cases, stream, modes=MODES):
    reqs = []
    for n, r, xval, ins in cases:
        r2 = rename_binders(r)
        reqs.append(lean_request(r, ins, n, xval))
        reqs.append(lean_request(r2, ins, n, xval))
        reqs.append(f"C05 mangle {sx(wire(r, n))}")
    answers = ctx.driver.ask(reqs)
    for ci, (n, r, xval, ins) in enumerate(cases):
        a_user, a_ren, a_mangle = answers[3 * ci: 3 * ci + 3]
        model = lean_table(a_user)
        model_ren = lean_table(a_ren)
        if model == "error" or model_ren == "error":
            ctx.infra_errors.append(f"driver: {a_user[:200]} / {a_ren[:200]} for {describe(r)}")
            continue
        d = depth_of(r)
        ctx.count(f"stream:{stream}")
        ctx.count(f"depth:{d}")
        ctx.count(f"root:{r[0]}")
        ctx.count(f"size:{n}")
        bs = binders(r)
        fr_all = set()
        for s in subrecipes(r):
            fr_all |= free(s)
        if set(bs) & fr_all:
            ctx.count("adversarial:binder-name-also-free-somewhere")
        if len(bs) != len(set(bs)):
            ctx.count("adversarial:same-name-bound-twice")
        if any(s[0] == "subs" and s[1] == s[3] for s in subrecipes(r)):
            ctx.count("adversarial:self-substitution")
        for s in set(x[0] for x in subrecipes(r)):
            ctx.count(f"has:{s}")
        if model is None or model_ren is None:
            ctx.count("spec-undefined")
            ctx.case()
            continue
        try:
            orc = py_table(r, ins, n, xval)
        except Exception as e:
            orc = None
            ctx.count(f"pyeval-error:{type(e).__name__}")
        # spec-side consistency: Lean denote(user) = Lean denote(renamed binders) = pyeval
        if not tables_same(model, model_ren):
            ctx.infra_errors.append(f"Lean denote not renaming-invariant (generator/model bug): {describe(r)}")
            continue
        if orc is not None and not tables_same(model, orc):
            ctx.infra_errors.append(f"pyeval != Lean denote (generator/model bug): {describe(r)} {orc} {model}")
            continue
        # --- names on reflected syntax
        try:
            syn = syntax(r, n) if not has_tag(r, "approx") else None
        except DECLINE + (RecursionError,) as e:
            ctx.count(f"reflect-construction-declined:{type(e).__name__}")
            syn = None
        nm = check_names(syn, free(r), real_names(r)) if syn is not None else None
        if nm:
            ctx.fail("input", f"C05.{nm[0]}", witness={"n": n, "recipe": describe(r)}, expected="bound ∩ inputs = ∅, "
                     "binders marked, inputs = user-level free names", got=nm[1],
                     python=py_program(r, n, "reflect", None).replace("r = reinterpret(t)", "r = t") +
                     "FAILS = True\n")
            continue
        # model fidelity of reflect/_alpha_mangle (counted, not gated)
        m = re.match(r"ok \(([^)]*)\) (\d+) ", a_mangle)
        if m and syn is not None:
            lean_names = re.findall(r'"([^"]*)"', m.group(1))
            lean_base = sorted(re.sub(r"__BOUND_\d+$", "", b) for b in lean_names)
            impl_base, impl_distinct = binder_pattern(syn)
            # the Lean model lists a shared node once per occurrence; compare base-name SETS and distinct counts
            ctx.count("mangle-model:base-names-" + ("agree" if set(lean_base) == set(impl_base) else "differ"))
            ctx.count("mangle-model:distinct-binders-" + ("agree" if len(set(lean_names)) == impl_distinct else "differ"))
        # --- values under every exact interpretation
        bad = None
        got_value = False
        outcome = {}
        case_modes = list(modes)
        has_approx = any(s_[0] == "approx" for s_ in subrecipes(r))
        if has_approx:
            case_modes = ["eager"]        # a lazy Approximate leaks its mangled name: KF-approximate-binder-leak
            ctx.count("approx:eager-only")
        if stream == "random" and any(s_[0] == "rget" for s_ in subrecipes(r)):
            # a Reduce whose variable disappears from a LAZY argument on reinterpretation loses its multiplicity
            # under normalize (open finding KF-contraction-absent-var, not C05's subject): the fusion stream,
            # whose bodies mention every pool name in a plain leaf, covers normalize over lazy terms instead
            case_modes = [m for m in case_modes if m != "normalize"]
            ctx.count("random:rget:normalize-skipped")
        for mode in case_modes:
            st, val, pre = run_mode_full(r, n, mode, xval)
            if st == "value" and isinstance(pre, Funsor) and not isinstance(pre, (Tensor, Number)):
                # the term as rewritten by this interpretation (fused reductions, …) and still lazy because of
                # free real inputs: every binder in it must be marked, none may be an input
                nm2 = check_names(pre, free(r), real_names(r), exact_inputs=False)
                ctx.count(f"{mode}:rewritten-term-walked")
                if nm2:
                    bad = (mode, "bound ∩ inputs = ∅, all binders marked, inputs ⊆ user-level free names",
                           f"{nm2[0]}: {nm2[1]}")
                    break
            outcome[mode] = st if st != "value" else ("value" if isinstance(val, (Tensor, Number)) else "lazy")
            if st != "value":
                ctx.count(f"{mode}:declined:{val}")
                continue
            extra = set(val.inputs) - set(ins)
            if extra:
                bad = (mode, f"inputs ⊆ {ins}", f"foreign inputs {sorted(extra)}")
                break
            tab = impl_table(val, ins, n)
            if tab is None:
                ctx.count(f"{mode}:lazy-result")
                continue
            got_value = True
            ctx.count(f"{mode}:value")
            if not tables_same(tab, model):
                bad = (mode, model, tab)
                break
        if bad:
            report_value(ctx, "C05.value-ne-denote", r, n, xval, *bad, modes=modes)
            continue
        # --- renaming invariance of the implementation (fresh distinct binder names)
        r2 = rename_binders(r)
        # the user's choice of bound names must not decide WHETHER a value is returned either
        asym = None
        for mode in [m_ for m_ in ("reflect", "eager") if m_ in outcome]:
            st, val2 = run_mode(r2, n, mode, xval)
            o2 = st if st != "value" else ("value" if isinstance(val2, (Tensor, Number)) else "lazy")
            if {outcome[mode], o2} == {"declined", "value"}:
                asym = (mode, outcome[mode], o2)
                break
            if outcome[mode] != o2:
                ctx.count(f"renamed:{mode}:outcome-differs-lazy-vs-value")
        if asym:
            which = r if asym[1] == "declined" else r2
            ctx.fail("input", "C05.name-choice-changes-outcome",
                     witness={"n": n, "recipe": describe(r), "renamed": describe(r2), "mode": asym[0], "x": xval},
                     expected=f"same outcome for both choices of bound names (fresh names: {asym[2]})",
                     got=f"user names: {asym[1]}",
                     python=py_program(which, n, asym[0], xval).replace("print(r, r.inputs)", "print(r, r.inputs)  # raises") +
                     "FAILS = False  # reaching this line means the construction no longer raises\n")
            continue
        if st == "value":
            extra = set(val2.inputs) - set(ins)
            tab2 = impl_table(val2, ins, n) if not extra else None
            if extra or (tab2 is not None and not tables_same(tab2, model)):
                report_value(ctx, "C05.renaming-changes-value", r2, n, xval, "eager", model,
                             tab2 if not extra else f"foreign inputs {sorted(extra)}")
                continue
            ctx.count("renamed:value" if tab2 is not None else "renamed:lazy-result")
        else:
            ctx.count(f"renamed:declined:{val2}")
        nontrivial = got_value and d >= 2 and (set(bs) & fr_all or len(bs) != len(set(bs)))
        ctx.case(sample={"n": n, "expr": pyof(r, n)[:300], "inputs": ins},
                 nontrivial_key=repr(describe(r)) if nontrivial else None)


# ---- extras: binder classes the shared Term lacks (Python oracles) ---------------------------------

def extras_stream(ctx, ncases):
    from funsor.sum_product import MarkovProduct, naive_sequential_sum_product
    from funsor.integrate import Integrate
    rng = ctx.rng
    for _ in range(ncases):
        n = rng.choice([2, 2, 3])
        which = rng.choice(["markov", "integrate", "scatter", "approximate-eager"])
        a, b, c = rng.sample(POOL, 3)
        try:
            if which == "markov":
                T = rng.choice([2, 3, 4])
                tname, prev, curr = rng.choice([("t", a, b), (c, a, b), ("t", b, a)])
                extra = rng.choice([None, c if c != tname else None])
                names = [tname, prev, curr] + ([extra] if extra else [])
                shape = tuple(T if x == tname else n for x in names)
                data = np.array([rng.choice([0, 1, 1, 2, 3]) for _ in range(int(np.prod(shape)))], dtype=np.float64).reshape(shape)
                trans = Tensor(data, OrderedDict((x, Bint[s]) for x, s in zip(names, shape)))
                time = Variable(tname, Bint[T])
                step = {prev: curr}
                expected = naive_sequential_sum_product(ops.add, ops.mul, trans, time, step)
                vals = []
                for mode in ("eager", "lazy", "reflect"):
                    if mode == "eager":
                        got = MarkovProduct(ops.add, ops.mul, trans, time, step)
                    else:
                        with {"lazy": lazy, "reflect": reflect}[mode]:
                            t = MarkovProduct(ops.add, ops.mul, trans, time, step)
                        bad = set(t.bound) & set(t.inputs)
                        if bad:
                            ctx.fail("input", "C05.extras.bound-in-inputs", witness={"class": "MarkovProduct", "names": names},
                                     expected="bound ∩ inputs = ∅", got=str(sorted(bad)), python=None)
                        got = reinterpret(t)
                    vals.append((mode, got))
                order = [(x, s) for x, s in expected.inputs.items()]
                order = [(x, s.size) for x, s in order]
                et = futil.table(expected, order)
                for mode, got in vals:
                    if not isinstance(got, Tensor):
                        ctx.count(f"extras:markov:{mode}:lazy-result")
                        continue
                    if set(got.inputs) != set(expected.inputs) or not np.array_equal(futil.table(got, order), et):
                        ctx.fail("input", "C05.extras.markov-value", witness={"names": names, "T": T, "n": n,
                                 "data": data.tolist(), "mode": mode}, expected=str(et.tolist()),
                                 got=f"{list(got.inputs)} {np.asarray(got.data).tolist()}", python=None)
                ctx.count("extras:markov")
            elif which == "integrate":
                # Integrate(log_measure, integrand, {v}) with discrete measure = sum_v exp(lm) * f
                v = a
                lm = Tensor(np.log(np.array([rng.choice([1., 2., 4.]) for _ in range(n * n)])).reshape(n, n),
                            OrderedDict([(v, Bint[n]), (b, Bint[n])]))
                f = Tensor(np.array([rng.choice([0., 1., 2., 3.]) for _ in range(n * n)]).reshape(n, n),
                           OrderedDict([(v, Bint[n]), (rng.choice([b, c]), Bint[n])]))
                expected = (lm.exp() * f).reduce(ops.add, v)
                for mode in ("eager", "lazy", "reflect"):
                    if mode == "eager":
                        got = Integrate(lm, f, v)
                    else:
                        with {"lazy": lazy, "reflect": reflect}[mode]:
                            t = Integrate(lm, f, v)
                        bad = set(t.bound) & set(t.inputs)
                        if bad or any(MARK in x for x in t.inputs):
                            ctx.fail("input", "C05.extras.bound-in-inputs", witness={"class": "Integrate"},
                                     expected="bound ∩ inputs = ∅", got=str(sorted(t.inputs)), python=None)
                        got = reinterpret(t)
                    if isinstance(got, Tensor):
                        order = [(x, s.size) for x, s in expected.inputs.items()]
                        if set(got.inputs) != set(expected.inputs) or not np.allclose(
                                futil.table(got, order), futil.table(expected, order), rtol=1e-9, atol=1e-12):
                            ctx.fail("input", "C05.extras.integrate-value", witness={"mode": mode, "lm": np.asarray(lm.data).tolist(),
                                     "f": np.asarray(f.data).tolist(), "names": [list(lm.inputs), list(f.inputs)]},
                                     expected=str(np.asarray(expected.data).tolist()), got=str(np.asarray(got.data).tolist()), python=None)
                ctx.count("extras:integrate")
            elif which == "scatter":
                # Scatter(op, ((dest, index-by-src),), source, {src}) : out[dest] = op over src with idx(src)=dest
                src, dest = a, rng.choice([b, a])
                other = c
                perm = list(range(n)); rng.shuffle(perm)   # Scatter is specified for injective substitutions only
                idx = Tensor(np.array(perm), OrderedDict([(src, Bint[n])]), n)
                source = Tensor(np.array([rng.choice([1., 2., 3., 5.]) for _ in range(n * n)]).reshape(n, n),
                                OrderedDict([(src, Bint[n]), (other, Bint[n])]))
                exp = np.zeros((n, n))
                for s_ in range(n):
                    exp[int(idx.data[s_])] += source.data[s_]
                for mode in ("eager", "lazy", "reflect"):
                    if mode == "eager":
                        got = Scatter(ops.add, ((dest, idx),), source, frozenset({Variable(src, Bint[n])}))
                    else:
                        with {"lazy": lazy, "reflect": reflect}[mode]:
                            t = Scatter(ops.add, ((dest, idx),), source, frozenset({Variable(src, Bint[n])}))
                        bad = set(t.bound) & set(t.inputs)
                        if bad or any(MARK in x for x in t.inputs):
                            ctx.fail("input", "C05.extras.bound-in-inputs", witness={"class": "Scatter", "src": src, "dest": dest},
                                     expected="bound ∩ inputs = ∅", got=str(sorted(t.inputs)), python=None)
                        got = reinterpret(t)
                    if isinstance(got, Tensor):
                        tab = futil.table(got, [(dest, n), (other, n)])
                        if set(got.inputs) != {dest, other} or not np.array_equal(tab, exp):
                            ctx.fail("input", "C05.extras.scatter-value", witness={"mode": mode, "src": src, "dest": dest,
                                     "idx": np.asarray(idx.data).tolist(), "source": np.asarray(source.data).tolist()},
                                     expected=str(exp.tolist()), got=f"{list(got.inputs)} {np.asarray(got.data).tolist()}", python=None)
                    else:
                        ctx.count(f"extras:scatter:{mode}:lazy-result")
                ctx.count("extras:scatter")
            else:
                # Approximate is exact under eager: equals the model; approx vars stay inputs
                model = Tensor(np.array([rng.choice([0., 1., 2.]) for _ in range(n * n)]).reshape(n, n),
                               OrderedDict([(a, Bint[n]), (b, Bint[n])]))
                guide = Tensor(np.array([rng.choice([0., 1., 2.]) for _ in range(n)]), OrderedDict([(a, Bint[n])]))
                got = model.approximate(ops.logaddexp, guide, a)
                order = [(a, n), (b, n)]
                if not isinstance(got, Tensor) or set(got.inputs) != {a, b} or \
                        not np.array_equal(futil.table(got, order), futil.table(model, order)):
                    ctx.fail("input", "C05.extras.approximate-value", witness={"names": [a, b]},
                             expected=str(np.asarray(model.data).tolist()), got=str(got), python=None)
                ctx.count("extras:approximate-eager")
        except DECLINE as e:
            ctx.count(f"extras:{which}:declined:{type(e).__name__}")
        ctx.case()


# ---- Integrate as a binder over mixed real + discrete reduced sets (Gaussian / mixture / Delta measures) --------

def _gauss_case(rng):
    """parameters of one case; everything the oracle needs is in the dict (json-able)"""
    K = rng.choice([2, 3])
    a = rng.choice(POOL)
    b = rng.choice([None, None] + [x for x in POOL if x != a])
    Kb = rng.choice([2, 3])
    measure = rng.choice(["gauss", "mix-tg", "mix-tg", "mix-gt", "mix-gt", "delta-t", "delta-t", "delta2"])
    integrand = rng.choice(["num", "tens", "lin", "lin", "quad", "gauss"])
    if measure in ("gauss", "delta2"):
        b = None
    if measure == "delta2":
        integrand = rng.choice(["num", "tens", "lin", "xy", "xy"])
    disc = [a] + ([b] if b else [])
    # `pre`: discrete names over which the MEASURE is reduced lazily (logaddexp) before Integrate sees it: the
    # measure then carries its own binder (normalize_integrate_contraction / eager_integrate_gaussianmixture
    # must integrate under it: /repo 9f0848d, f38a442)
    pre = []
    if measure != "gauss" and rng.random() < 0.35:
        pre = [v for v in disc if rng.random() < 0.6] or [rng.choice(disc)]
    reals = ["x", "y"] if measure == "delta2" else ["x"]
    cands = reals + [v for v in disc if v not in pre]
    R = [v for v in cands if rng.random() < 0.6] or [rng.choice(cands)]
    if measure in ("delta-t", "delta2"):
        R = sorted(set(R) | set(reals))
    if b and measure.startswith("mix") and not pre and rng.random() < 0.15:
        # both discrete names of the weight table reduced with an integrand without discrete inputs (f38a442)
        integrand = rng.choice(["quad", "gauss", "num"])
        R = sorted(set(R) | {a, b})
    wrapper = rng.choice(["none", "none", "reduce-same", "contr-same", "fac-same", "subs-collide"])
    if a in pre and integrand in ("tens", "lin"):
        wrapper = "none"      # the integrand's free `a` is a different variable from the measure's bound `a`
    c = dict(K=K, Kb=Kb, a=a, b=b, measure=measure, integrand=integrand, R=sorted(R), pre=sorted(pre),
             d=[[round(rng.uniform(-1, 1), 2) for _ in range(Kb if b else 1)] for _ in range(K)],
             m=[round(rng.uniform(-2, 2), 2) for _ in range(K)],
             m2=[round(rng.uniform(-2, 2), 2) for _ in range(K)],
             p=[round(rng.uniform(0.5, 3), 2) for _ in range(K)],
             w=[round(rng.uniform(-2, 2), 2) for _ in range(K)],
             c0=round(rng.uniform(-2, 2), 2), q=round(rng.uniform(0.5, 2), 2), a0=round(rng.uniform(-1, 1), 2),
             x0=round(rng.uniform(-1, 1), 2), v=[round(rng.uniform(-3, 3), 2) for _ in range(3)],
             wrapper=wrapper, idx=[rng.randrange(8) for _ in range(3)])
    return c


def _gauss_oracle(c):
    """-> (names of the free discrete inputs in order, ndarray over them) of Integrate(...) itself (no wrapper):
    closed-form moments of each component times the weight table, summed over every bound discrete name (those the
    measure was pre-reduced over and those in the Integrate's reduced set)"""
    import math
    K, a, b = c["K"], c["a"], c["b"]
    m, p, w = np.array(c["m"]), np.array(c["p"]), np.array(c["w"])
    kind = c["integrand"]
    uses_w = kind in ("tens", "lin")
    c0 = np.zeros(K); c1 = np.zeros(K); c2 = np.zeros(K)
    if kind == "num":
        c0 += c["c0"]
    elif kind == "tens":
        c0 += 1.0
    elif kind == "lin":
        c1 += 1.0
    elif kind == "quad":
        c2 += 1.0
    elif kind == "gauss":  # gaussian integrand  -q/2 (x - a0)^2
        q, a0 = c["q"], c["a0"]
        c2 += -0.5 * q; c1 += q * a0; c0 += -0.5 * q * a0 * a0
    if c["measure"] == "delta2":
        m2 = np.array(c["m2"])
        M = m * m2 if kind == "xy" else c0 + c1 * m
    elif c["measure"] == "delta-t":
        M = c0 + c1 * m + c2 * m * m                      # point mass at x = m_i
    elif "x" in c["R"]:
        Z = np.sqrt(2 * math.pi / p)
        M = Z * (c0 + c1 * m + c2 * (m * m + 1.0 / p))
    else:
        x0 = c["x0"]
        M = np.exp(-0.5 * p * (x0 - m) ** 2) * (c0 + c1 * x0 + c2 * x0 * x0)
    same_var = a not in c["pre"]          # the integrand's `a` is the measure's `a` unless the measure binds it itself
    if uses_w and same_var:
        M = M * w
    if c["measure"] == "gauss":
        T = M.reshape(K, 1)
    else:
        T = np.exp(np.array(c["d"])) * M.reshape(K, 1)      # (K, Kb or 1)
    names = [a] + ([b] if b else [])
    if not b:
        T = T[:, 0]
    bound = set(c["R"]) | set(c["pre"])
    for ax in reversed(range(len(names))):
        if names[ax] in bound:
            T = T.sum(axis=ax)
    rest = [nm_ for nm_ in names if nm_ not in bound]
    if uses_w and not same_var:
        T = np.multiply.outer(w, np.asarray(T))           # free `a` of the integrand comes first
        rest = [a] + rest
    return rest, np.asarray(T)


def _gauss_build(c, ren=None):
    """the funsor term (under the ACTIVE interpretation); `ren` renames the bound discrete names (twin)"""
    from funsor.gaussian import Gaussian
    from funsor.delta import Delta
    ren = ren or {}
    K, Kb = c["K"], c["Kb"]
    a = ren.get(c["a"], c["a"])                          # the measure's name
    a_f = c["a"] if c["a"] in c["pre"] else a            # the integrand's name (free if the measure binds its own)
    b = ren.get(c["b"], c["b"]) if c["b"] else None
    ia = OrderedDict([(a, Bint[K])])
    m, p, w = np.array(c["m"]), np.array(c["p"]), np.array(c["w"])
    x = Variable("x", Real)
    dins = OrderedDict([(a, Bint[K])] + ([(b, Bint[Kb])] if b else []))
    d = np.array(c["d"]) if b else np.array(c["d"])[:, 0]
    if c["measure"] == "delta2":
        # the weights live in a separate Tensor (a Delta's own log_density is dropped by Delta.eager_reduce when the
        # Delta is reduced over its variable through exp/reduce instead of Integrate: C14's subject, reported)
        lm = Delta((("x", (Tensor(m, ia), Tensor(np.zeros(K), ia))),
                    ("y", (Tensor(np.array(c["m2"]), ia), Tensor(np.zeros(K), ia))))) + Tensor(d, ia)
    else:
        if c["measure"] == "delta-t":
            core = Delta("x", Tensor(m, ia))
        else:
            core = Gaussian(mean=m.reshape(K, 1), precision=p.reshape(K, 1, 1),
                            inputs=OrderedDict([(a, Bint[K]), ("x", Real)]))
        if c["measure"] == "gauss":
            lm = core
        else:
            disc = Tensor(d, dins)
            lm = (core + disc) if c["measure"] == "mix-gt" else (disc + core)
    if c["pre"]:
        lm = lm.reduce(ops.logaddexp, frozenset(ren.get(v, v) for v in c["pre"]))
    kind = c["integrand"]
    wf = Tensor(w, OrderedDict([(a_f, Bint[K])]))
    if kind == "num":
        f = Number(c["c0"])
    elif kind == "tens":
        f = wf
    elif kind == "lin":
        f = x * wf
    elif kind == "quad":
        f = x * x
    elif kind == "xy":
        f = x * Variable("y", Real)
    else:
        f = Gaussian(mean=np.array([c["a0"]]), precision=np.array([[c["q"]]]), inputs=OrderedDict(x=Real))
    R = frozenset(ren.get(v, v) for v in c["R"])
    return Integrate(lm, f, R)


def _gauss_wrap(c, I, names, E, ren=None):
    """an enclosing construct that re-uses the name of a reduced (bound) discrete variable -> (term, names, expected)"""
    ren = ren or {}
    Rd = [v for v in c["R"] if v not in ("x", "y")] + list(c.get("pre", []))
    wr = c["wrapper"]
    if wr == "none" or not Rd:
        return I, names, E
    cname = Rd[0]
    size = c["K"] if cname == c["a"] else c["Kb"]
    if wr in ("reduce-same", "contr-same", "fac-same"):
        # the outer binder keeps the USER's name even in the twin of the inner one: it is a different binder
        v = Tensor(np.array(c["v"][:size]), OrderedDict([(cname, Bint[size])]))
        if wr == "reduce-same":
            t = (v * I).reduce(ops.add, cname)
        elif wr == "contr-same":
            t = Contraction(ops.add, ops.mul, frozenset({Variable(cname, Bint[size])}), v, I)
        else:
            t = FACT_CLS["FSumFirst"](Variable(cname, Bint[size]), v * I)
        return t, names, float(np.sum(c["v"][:size])) * E
    # subs-collide: substitute for a remaining free discrete input a value whose free name is the bound name
    if not names:
        return I, names, E
    fname = names[0]
    fsize = E.shape[0]
    idx = np.array([c["idx"][k] % fsize for k in range(size)])
    t = I(**{fname: Tensor(idx, OrderedDict([(cname, Bint[size])]), fsize)})
    return t, [cname] + names[1:], np.take(E, idx, axis=0)


def gauss_integrate_stream(ctx, ncases):
    from funsor.gaussian import Gaussian  # noqa: F401
    rng = ctx.rng
    for _ in range(ncases):
        c = _gauss_case(rng)
        names0, E0 = _gauss_oracle(c)
        Rd = [v for v in c["R"] if v not in ("x", "y")] + list(c["pre"])
        ren = {v: f"u{k + 1}" for k, v in enumerate(Rd)}
        if c["pre"]:
            ctx.count("gauss:measure-pre-reduced:" + c["measure"])
        ctx.count(f"gauss:{c['measure']}:{c['integrand']}")
        ctx.count("gauss:reduced:" + ("mixed" if Rd and "x" in c["R"] else "real-only" if not Rd else "discrete-only"))
        ctx.count(f"gauss:wrapper:{c['wrapper']}")
        results = {}
        bad = None
        for mode in ("eager", "lazy", "reflect"):
            for twin in (False, True):
                try:
                    if mode == "eager":
                        I = _gauss_build(c, ren if twin else None)
                        t, names, E = _gauss_wrap(c, I, names0, E0)
                        res = t
                    else:
                        with {"lazy": lazy, "reflect": reflect}[mode]:
                            I = _gauss_build(c, ren if twin else None)
                            t, names, E = _gauss_wrap(c, I, names0, E0)
                        if not twin:
                            nm_ = check_names(t, names, {"x"} if "x" not in c["R"] else set(), exact_inputs=True)
                            if nm_:
                                bad = (mode, f"{nm_[0]}: {nm_[1]}", "names")
                                break
                        res = reinterpret(t)
                    if "x" in res.inputs:
                        res = res(x=Tensor(np.array(c["x0"])))
                except DECLINE + (RecursionError,) as e:
                    ctx.count(f"gauss:{mode}:declined:{type(e).__name__}")
                    continue
                foreign = set(res.inputs) - set(names)
                if foreign:
                    bad = (mode, f"result has inputs {sorted(res.inputs)}, free names are {sorted(names)} "
                                 f"(reduced: {c['R']}{' / twin ' + str(ren) if twin else ''})", "inputs")
                    break
                if not isinstance(res, (Tensor, Number)):
                    ctx.count(f"gauss:{mode}:lazy-result")
                    continue
                order = [(nm_, E.shape[k]) for k, nm_ in enumerate(names)]
                tab = futil.table(res, order) if order else np.asarray(res.data, dtype=float)
                tab = np.asarray(tab, dtype=float).reshape(np.shape(E))
                if not np.allclose(tab, E, rtol=1e-6, atol=1e-8):
                    bad = (mode, f"{'twin ' if twin else ''}value {tab.tolist()} != closed form {np.asarray(E).tolist()}", "value")
                    break
                results[(mode, twin)] = tab
                ctx.count(f"gauss:{mode}:value")
            if bad:
                break
        if bad:
            ctx.fail("input", f"C05.integrate-gaussian-{bad[2]}", witness={"case": c, "mode": bad[0]},
                     expected=f"free names {names0} (before the wrapper), closed form {np.asarray(E0).tolist()}",
                     got=bad[1], python=GAUSS_PY.format(case=c))
        ctx.case(sample=None, nontrivial_key=repr(sorted(c.items(), key=str)) if results and Rd else None)


# ---- direct Contraction(...) over binder-carrying Gaussian mixtures ---------------------------------------------

def _nadd(a, b):
    """named arrays (names, ndarray): broadcasted sum"""
    names = list(a[0]) + [x for x in b[0] if x not in a[0]]

    def expand(t):
        arr = t[1]
        perm = [t[0].index(x) for x in names if x in t[0]]
        arr = np.transpose(arr, perm) if arr.ndim else arr
        shape = [arr.shape[[x for x in names if x in t[0]].index(x)] if x in t[0] else 1 for x in names]
        return arr.reshape(shape)
    return names, expand(a) + expand(b)


def _nlse(a, name):
    ax = a[0].index(name)
    return [x for x in a[0] if x != name], np.logaddexp.reduce(a[1], axis=ax)


def _gcon_case(rng):
    k, m = rng.sample(POOL, 2)
    K, Mm = rng.choice([2, 3]), rng.choice([2, 3])
    two = rng.random() < 0.5
    inner = rng.choice(["plain", "red-k", "red-k", "red-all"] if two else ["plain", "red-k", "red-k"])
    Rin = [] if inner == "plain" else [k] if inner == "red-k" else [k, m]
    F = [x for x in ([k, m] if two else [k]) if x not in Rin]
    j = rng.choice(POOL)
    sizes = {k: K, m: Mm}
    J = sizes[j] if j in F else rng.choice([2, 3])
    nested = rng.random() < 0.3
    l = rng.choice(POOL)
    after = [x for x in F if x != j]
    L = sizes[l] if l in after else rng.choice([2, 3])
    return dict(k=k, m=m if two else None, K=K, M=Mm, Rin=Rin, j=j, J=J, order=rng.randrange(2),
                nested=nested, l=l, L=L, order2=rng.randrange(2),
                t=[[round(rng.uniform(-1, 1), 2) for _ in range(Mm if two else 1)] for _ in range(K)],
                mean=[round(rng.uniform(-2, 2), 2) for _ in range(K)], prec=[round(rng.uniform(0.5, 3), 2) for _ in range(K)],
                w=[round(rng.uniform(-1, 1), 2) for _ in range(3)], w3=[round(rng.uniform(-1, 1), 2) for _ in range(3)],
                x0=round(rng.uniform(-1, 1), 2))


def _gcon_oracle(c):
    k, m = c["k"], c["m"]
    mean, prec = np.array(c["mean"]), np.array(c["prec"])
    g = ([k], -0.5 * prec * (c["x0"] - mean) ** 2)
    t = ([k, m], np.array(c["t"])) if m else ([k], np.array(c["t"])[:, 0])
    a = _nadd(t, g)
    for nm_ in c["Rin"]:
        a = _nlse(a, nm_)
    a = _nlse(_nadd(a, ([c["j"]], np.array(c["w"][:c["J"]]))), c["j"])
    if c["nested"]:
        a = _nlse(_nadd(a, ([c["l"]], np.array(c["w3"][:c["L"]]))), c["l"])
    return a


def _gcon_build(c, ren=None, flip=False):
    """ren: {'in:<name>': new, 'j': new, 'l': new} renames the binders (twin); flip: other operand order"""
    from funsor.gaussian import Gaussian
    ren = ren or {}
    k, m = c["k"], c["m"]
    K, Mm = c["K"], c["M"]
    kk = ren.get("in:" + k, k) if k in c["Rin"] else k
    mm = (ren.get("in:" + m, m) if m in c["Rin"] else m) if m else None
    F = [x for x in ([k, m] if m else [k]) if x not in c["Rin"]]
    jn = ren.get("j", c["j"])
    ln = ren.get("l", c["l"])
    # a free name of the mixture that the outer binder binds must follow the outer binder's renaming
    after = [x for x in F if x != c["j"]]
    def outer_name(x):
        if x == c["j"]:
            return jn
        if c["nested"] and x == c["l"] and x in after:
            return ln
        return x
    if k not in c["Rin"]:
        kk = outer_name(k)
    if m and m not in c["Rin"]:
        mm = outer_name(m)
    tins = OrderedDict([(kk, Bint[K])] + ([(mm, Bint[Mm])] if m else []))
    t = Tensor(np.array(c["t"]) if m else np.array(c["t"])[:, 0], tins)
    g = Gaussian(mean=np.array(c["mean"]).reshape(K, 1), precision=np.array(c["prec"]).reshape(K, 1, 1),
                 inputs=OrderedDict([(kk, Bint[K]), ("x", Real)]))
    mix = t + g
    if c["Rin"]:
        mix = mix.reduce(ops.logaddexp, frozenset([kk] + ([mm] if (m and m in c["Rin"]) else [])))
    w = Tensor(np.array(c["w"][:c["J"]]), OrderedDict([(jn, Bint[c["J"]])]))
    terms = (mix, w) if (c["order"] == 0) != flip else (w, mix)
    res = Contraction(ops.logaddexp, ops.add, frozenset({Variable(jn, Bint[c["J"]])}), *terms)
    if c["nested"]:
        w3 = Tensor(np.array(c["w3"][:c["L"]]), OrderedDict([(ln, Bint[c["L"]])]))
        terms = (res, w3) if (c["order2"] == 0) != flip else (w3, res)
        res = Contraction(ops.logaddexp, ops.add, frozenset({Variable(ln, Bint[c["L"]])}), *terms)
    return res


def gauss_contraction_stream(ctx, ncases):
    """Contraction(logaddexp, add, {j}, mix, w) built DIRECTLY, mix a Gaussian mixture that carries its own (lazy)
    logaddexp binder; binder names from the pool (outer named like the inner one, …); normalize rules
    normalize_contraction_commute_joint must keep `reduced_vars | mixture.reduced_vars`."""
    rng = ctx.rng
    for _ in range(ncases):
        c = _gcon_case(rng)
        names, E = _gcon_oracle(c)
        ren = {"j": "u3", "l": "u4"}
        for q, nm_ in enumerate(c["Rin"]):
            ren["in:" + nm_] = f"u{q + 1}"
        ctx.count("gcon:inner:" + ("plain" if not c["Rin"] else "reduced-%d" % len(c["Rin"])) + (":nested" if c["nested"] else ""))
        if c["j"] in c["Rin"]:
            ctx.count("gcon:outer-named-like-inner")
        bad = None
        got_any = False
        for mode in ("eager", "normalize", "lazy"):
            for variant in ("plain", "twin", "flip"):
                try:
                    kw = dict(ren=ren if variant == "twin" else None, flip=variant == "flip")
                    if mode == "eager":
                        t = _gcon_build(c, **kw)
                        res = t
                    else:
                        with {"normalize": normalize, "lazy": lazy}[mode]:
                            t = _gcon_build(c, **kw)
                        res = reinterpret(t)
                    pre = res
                    if "x" in res.inputs:
                        res = res(x=Tensor(np.array(c["x0"])))
                except DECLINE + (RecursionError,) as e:
                    ctx.count(f"gcon:{mode}:declined:{type(e).__name__}")
                    continue
                want_inputs = set(names) | {"x"}
                if set(pre.inputs) != want_inputs:
                    bad = (mode, variant, f"inputs {sorted(pre.inputs)}, free names are {sorted(want_inputs)}")
                    break
                nm2 = check_names(pre, names, {"x"}, exact_inputs=True) if not isinstance(pre, (Tensor, Number)) else None
                if nm2:
                    bad = (mode, variant, f"{nm2[0]}: {nm2[1]}")
                    break
                if not isinstance(res, (Tensor, Number)):
                    ctx.count(f"gcon:{mode}:lazy-result")
                    continue
                order = [(x, E.shape[q]) for q, x in enumerate(names)]
                tab = np.asarray(futil.table(res, order) if order else res.data, dtype=float).reshape(np.shape(E))
                if not np.allclose(tab, E, rtol=1e-6, atol=1e-8):
                    bad = (mode, variant, f"value {tab.tolist()} != brute force {np.asarray(E).tolist()}")
                    break
                got_any = True
                ctx.count(f"gcon:{mode}:value")
            if bad:
                break
        if bad:
            ctx.fail("input", "C05.contraction-over-mixture", witness={"case": c, "mode": bad[0], "variant": bad[1]},
                     expected=f"inputs {sorted(set(names) | {'x'})}, value {np.asarray(E).tolist()} at x={c['x0']}",
                     got=bad[2], python=GCON_PY.format(case=c))
        ctx.case(nontrivial_key=repr(sorted(c.items(), key=str)) if got_any and c["Rin"] else None)


KF4 = "KF-contraction-mixed-redop-binder-merge"
KF4_PY = """import numpy as np
from collections import OrderedDict
import funsor, funsor.ops as ops
from funsor.domains import Bint, Real
from funsor.gaussian import Gaussian
from funsor.cnf import Contraction
from funsor.tensor import Tensor
from funsor.terms import Variable
T = np.array([0.3, -1.2, 0.7]); MEAN = np.array([[0.5], [-1.0], [2.0]]); PREC = np.array([[[1.0]], [[2.0]], [[0.5]]])
W = np.array([0.1, -0.4]); x0 = 0.3
t = Tensor(T, OrderedDict(k=Bint[3])); g = Gaussian(mean=MEAN, precision=PREC, inputs=OrderedDict(k=Bint[3], x=Real))
w = Tensor(W, OrderedDict(j=Bint[2]))
mix = (t + g).reduce(ops.logaddexp, 'k')
r = Contraction(ops.max, ops.add, frozenset({Variable('j', Bint[2])}), mix, w)(x=Tensor(np.array(x0)))
want = np.logaddexp.reduce(T - 0.5 * PREC[:, 0, 0] * (x0 - MEAN[:, 0]) ** 2) + W.max()
print(r, 'expected', want)
FAILS = abs(float(r.data) - want) > 1e-6
"""


def mixed_redop_stream(ctx):
    """Contraction(max|min, add, {j}, mix, w) with mix a logaddexp-reduced mixture: normalize_contraction_commute_joint
    merges the mixture's binder under the OUTER op (max over k and j instead of max_j logsumexp_k)."""
    from funsor.gaussian import Gaussian
    rng = ctx.rng
    hit = None
    tried = 0
    for _ in range(6):
        K, J = rng.choice([2, 3]), rng.choice([2, 3])
        k, j = rng.sample(POOL, 2)
        T = np.array([round(rng.uniform(-1, 1), 2) for _ in range(K)])
        mean = np.array([round(rng.uniform(-2, 2), 2) for _ in range(K)])
        prec = np.array([round(rng.uniform(0.5, 3), 2) for _ in range(K)])
        W = np.array([round(rng.uniform(-1, 1), 2) for _ in range(J)])
        x0 = round(rng.uniform(-1, 1), 2)
        t = Tensor(T, OrderedDict([(k, Bint[K])]))
        g = Gaussian(mean=mean.reshape(K, 1), precision=prec.reshape(K, 1, 1), inputs=OrderedDict([(k, Bint[K]), ("x", Real)]))
        w = Tensor(W, OrderedDict([(j, Bint[J])]))
        mix = (t + g).reduce(ops.logaddexp, k)
        lse = np.logaddexp.reduce(T - 0.5 * prec * (x0 - mean) ** 2)
        for red, agg in ((ops.max, np.max), (ops.min, np.min)):
            for terms in ((mix, w), (w, mix)):
                tried += 1
                r = Contraction(red, ops.add, frozenset({Variable(j, Bint[J])}), *terms)
                if set(r.inputs) != {"x"}:
                    ctx.fail("input", "C05.mixed-redop-inputs", witness={"k": k, "j": j}, expected="inputs {x}",
                             got=str(sorted(r.inputs)), python=KF4_PY)
                    return
                v = r(x=Tensor(np.array(x0)))
                want = float(lse + agg(W))
                if isinstance(v, Tensor) and abs(float(v.data) - want) > 1e-6 and hit is None:
                    hit = (red.__name__ if hasattr(red, "__name__") else str(red), float(v.data), want)
    ctx.count(f"dedicated:{KF4}:" + ("reproduced" if hit else "not-reproduced"))
    what = None
    if hit:
        what = (f"Contraction(ops.{hit[0]}, ops.add, {{j}}, (t+g).reduce(logaddexp,k), w) evaluates to {hit[1]:.6g} (the {hit[0]} over "
                f"k AND j) instead of {hit[2]:.6g} = {hit[0]}_j(logsumexp_k(t_k+g_k(x)) + w_j): normalize_contraction_commute_joint "
                f"merges reduced_vars | mixture.reduced_vars under the outer op")
    listed = ctx.known(KF4, hit is not None, what)
    if hit and not listed:
        ctx.fail("input", "C05.contraction-mixed-redop", witness={"op": hit[0]}, expected=str(hit[2]), got=str(hit[1]),
                 python=KF4_PY)


GCON_PY = """import sys
sys.path.insert(0, '/verif')
from fv.harness import c05
case = {case}
names, E = c05._gcon_oracle(case)
t = c05._gcon_build(case)
print('inputs', dict(t.inputs), 'free names', names + ['x'])
print(t)
FAILS = set(t.inputs) != set(names) | {{'x'}}
"""


GAUSS_PY = """import sys
sys.path.insert(0, '/verif')
from fv.harness import c05
from funsor.interpretations import lazy
from funsor.interpreter import reinterpret
case = {case}
names, E = c05._gauss_oracle(case)
I = c05._gauss_build(case)
t, names2, E2 = c05._gauss_wrap(case, I, names, E)
print('term inputs', dict(t.inputs), 'free names', names2)
print('value', t, 'closed form', E2)
FAILS = bool(set(t.inputs) - set(names2) - {{'x'}})
"""


# ---- dedicated stream: KF-shared-binder-unfold -----------------------------------------------------

KF = "KF-shared-binder-unfold"


def shared_binder_stream(ctx):
    rng = ctx.rng
    reproduced = None
    for trial in range(6):
        n = rng.choice([2, 3])
        data = np.array([rng.choice([1., 2., 3.]) for _ in range(n)])
        if trial == 0:
            n, data = 3, np.array([1., 2., 3.])
        f = Tensor(data, OrderedDict(i=Bint[n]))
        with lazy:
            t = f.reduce(ops.add, "i") * f.reduce(ops.add, "i")
        want = float(data.sum() ** 2)
        plain = reinterpret(t)
        got = apply_optimizer(t)
        if not (isinstance(plain, Tensor) and float(plain.data) == want):
            # the un-optimized value itself is wrong: not the known finding
            ctx.fail("input", "C05.shared-binder-plain", witness={"f": data.tolist()}, expected=str(want),
                     got=str(plain), python=KF_PY.format(data=data.tolist(), n=n))
            return
        if isinstance(got, Tensor) and float(got.data) != want:
            reproduced = (data.tolist(), want, float(got.data))
            break
    what = None
    if reproduced:
        what = (f"apply_optimizer((f.reduce(add,'i'))*(f.reduce(add,'i'))) with f={reproduced[0]} returns "
                f"{reproduced[2]} instead of {reproduced[1]} (both factors are one hash-consed Reduce with one mangled binder; "
                f"optimizer.unfold merges reduced_vars | v.reduced_vars)")
    listed = ctx.known(KF, reproduced is not None, what)
    if reproduced and not listed:
        ctx.fail("input", "C05.shared-binder-unfold", witness={"f": reproduced[0]}, expected=str(reproduced[1]),
                 got=str(reproduced[2]), python=KF_PY.format(data=reproduced[0], n=len(reproduced[0])))
    ctx.count("dedicated:KF-shared-binder-unfold:" + ("reproduced" if reproduced else "not-reproduced"))


KF2 = "KF-approximate-binder-leak"
KF2_PY = """import numpy as np
from collections import OrderedDict
import funsor, funsor.ops as ops
from funsor.domains import Bint
from funsor.tensor import Tensor
from funsor.interpretations import lazy
from funsor.interpreter import reinterpret
m = Tensor(np.array([[2., 2.], [1., 0.]]), OrderedDict(i=Bint[2], k=Bint[2]))
g = Tensor(np.array([1., 2.]), OrderedDict(i=Bint[2]))
with lazy:
    t = m.approximate(ops.logaddexp, g, "i")
print(dict(t.inputs), t.bound, dict(reinterpret(t).inputs))
FAILS = set(t.inputs) != {"i", "k"} or set(reinterpret(t).inputs) != {"i", "k"}
"""


def approximate_stream(ctx):
    """A lazy Approximate declares its approx_vars `bound`, so reflect mangles names that remain inputs."""
    rng = ctx.rng
    leak = None
    for mode, interp in (("lazy", lazy), ("reflect", reflect)):
        for _ in range(4):
            n = rng.choice([2, 3])
            a, b = rng.sample(POOL, 2)
            model = Tensor(np.array([rng.choice([0., 1., 2.]) for _ in range(n * n)]).reshape(n, n),
                           OrderedDict([(a, Bint[n]), (b, Bint[n])]))
            guide = Tensor(np.array([rng.choice([0., 1., 2.]) for _ in range(n)]), OrderedDict([(a, Bint[n])]))
            with interp:
                t = model.approximate(ops.logaddexp, guide, a)
            got = reinterpret(t)
            bad_t = any(MARK in x for x in t.inputs) or set(t.inputs) != {a, b}
            bad_r = set(got.inputs) != {a, b}
            if not bad_r and isinstance(got, Tensor):
                if not np.array_equal(futil.table(got, [(a, n), (b, n)]), futil.table(model, [(a, n), (b, n)])):
                    ctx.fail("input", "C05.approximate-value", witness={"mode": mode, "names": [a, b]},
                             expected=str(np.asarray(model.data).tolist()), got=str(got), python=KF2_PY)
                    return
            if bad_t or bad_r:
                leak = (mode, [a, b], sorted(t.inputs), sorted(got.inputs))
    ctx.count("dedicated:KF-approximate-binder-leak:" + ("reproduced" if leak else "not-reproduced"))
    what = None
    if leak:
        what = (f"with {leak[0]}: model.approximate(logaddexp, guide, {leak[1][0]!r}) has inputs {leak[2]} and reinterprets to a "
                f"Tensor with inputs {leak[3]} instead of {sorted(leak[1])} (Approximate declares approx_vars as `bound` "
                f"although they remain inputs; _alpha_mangle renames them)")
    listed = ctx.known(KF2, leak is not None, what)
    if leak and not listed:
        ctx.fail("input", "C05.approximate-binder-leak", witness={"mode": leak[0], "names": leak[1]},
                 expected=f"inputs {sorted(leak[1])}", got=f"lazy inputs {leak[2]}, reinterpreted inputs {leak[3]}",
                 python=KF2_PY)
    if not leak and not listed:
        # fixed and not listed: nothing to report; un-list the stale NOTE that ctx.known would have produced
        pass


KF_PY = """import numpy as np
from collections import OrderedDict
import funsor, funsor.ops as ops
from funsor.domains import Bint
from funsor.tensor import Tensor
from funsor.interpretations import lazy
from funsor.interpreter import reinterpret
from funsor.optimizer import apply_optimizer
f = Tensor(np.array({data}, dtype=np.float64), OrderedDict(i=Bint[{n}]))
with lazy:
    t = f.reduce(ops.add, 'i') * f.reduce(ops.add, 'i')
print(reinterpret(t), apply_optimizer(t))
FAILS = float(apply_optimizer(t).data) != float(np.array({data}).sum() ** 2)
"""


GEN_FILE = "FunsorVerif/Gen/C05Gensym.lean"


def gensym_source_form(repo):
    """AST of funsor/interpreter.py::gensym -> the facts the freshness argument rests on"""
    import ast
    src = (repo / "funsor" / "interpreter.py").read_text()
    mod = ast.parse(src)
    fn = next((x for x in mod.body if isinstance(x, ast.FunctionDef) and x.name == "gensym"), None)
    facts = dict(found=fn is not None, counterIsModuleGlobal=False, incrementsByOne=False, usesPerContextState=True,
                 nameFromCounter=False, counter="")
    if fn is None:
        return facts
    globals_ = [n_ for st in fn.body if isinstance(st, ast.Global) for n_ in st.names]
    int_globals = {t.id for st in mod.body if isinstance(st, ast.Assign) and isinstance(st.value, ast.Constant)
                   and isinstance(st.value.value, int) for t in st.targets if isinstance(t, ast.Name)}
    counter = next((g_ for g_ in globals_ if g_ in int_globals), "")
    facts["counter"] = counter
    facts["counterIsModuleGlobal"] = bool(counter)
    facts["incrementsByOne"] = any(
        isinstance(st, ast.AugAssign) and isinstance(st.target, ast.Name) and st.target.id == counter
        and isinstance(st.op, ast.Add) and isinstance(st.value, ast.Constant) and st.value.value == 1
        for st in fn.body)
    # any state other than that module-global integer: attribute stores, getattr/setattr, threading/contextvars…
    suspicious = False
    for node in ast.walk(fn):
        if isinstance(node, ast.Attribute) and isinstance(node.ctx, (ast.Store, ast.Del)):
            suspicious = True
        if isinstance(node, ast.Call) and isinstance(node.func, ast.Name) and node.func.id in ("getattr", "setattr"):
            suspicious = True
        if isinstance(node, ast.Name) and node.id in ("threading", "contextvars", "local", "ContextVar", "get_ident", "getpid"):
            suspicious = True
    facts["usesPerContextState"] = suspicious or not counter
    facts["nameFromCounter"] = any(
        isinstance(node, ast.Return) and isinstance(node.value, ast.BinOp) and isinstance(node.value.op, ast.Add)
        and isinstance(node.value.right, ast.Call) and getattr(node.value.right.func, "id", "") == "str"
        for node in ast.walk(fn))
    return facts


def extract(ctx):
    """regenerate lean/FunsorVerif/Gen/C05Gensym.lean from /repo's funsor/interpreter.py (and cross-check live)"""
    from ..common import REPO, LEAN
    facts = gensym_source_form(REPO)
    from funsor import interpreter
    live_global = isinstance(getattr(interpreter, facts["counter"], None), int) if facts["counter"] else False
    b = lambda x: "true" if x else "false"   # noqa: E731
    text = f"""/-
  GENERATED by fv/harness/c05.py::extract from funsor/interpreter.py (function `gensym`) on every run.
  The source form of the fresh-name supply: a module-global integer counter, incremented by one on every call,
  no per-thread / per-context state, the returned name is built from the counter value.
-/
namespace FV.Gen.C05

structure GensymForm where
  found : Bool
  counterIsModuleGlobal : Bool
  incrementsByOne : Bool
  usesPerContextState : Bool
  nameFromCounter : Bool
  liveCounterIsInt : Bool
  deriving Repr, DecidableEq

/-- counter variable: {facts['counter'] or '(none found)'} -/
def gensymForm : GensymForm :=
  ⟨{b(facts['found'])}, {b(facts['counterIsModuleGlobal'])}, {b(facts['incrementsByOne'])}, {b(facts['usesPerContextState'])}, {b(facts['nameFromCounter'])}, {b(live_global)}⟩

end FV.Gen.C05
"""
    path = LEAN / GEN_FILE
    if not path.exists() or path.read_text() != text:
        path.write_text(text)
    ctx.extra["gensym_source_form"] = facts


def correspond(ctx):
    quick = ctx.tier == "quick"
    ctx.rule = ("random nestings (generator depth <= %d; measured binder nesting is larger because Cat comes with a Subs of its name and forced dependencies add binders) of Reduce, Lambda+getitem, Cat(part_name)+Subs, Contraction, Subs, "
                "Independent and Binary glue over leaves whose inputs, binders, substituted keys, substituted values' free "
                "names and index variables are ALL drawn from the pool {i,j,k} (one size 2 or 3), incl. sibling duplication "
                "(hash-consed shared binders) and bint-valued terms substituted into themselves; each built under eager, "
                "lazy/reflect/normalize + reinterpret and decided on its whole input space against Lean `denote` of the "
                "user-level expression, a Python evaluator and the fresh-binder-names variant; reflected syntax walked "
                "for bound∩inputs=∅ / markers / documented binders ⊆ .bound / inputs; MarkovProduct (time-dependent and "
                "-homogeneous), Integrate, Scatter as first-class constructors (inner and outer of every class, then "
                "colliding-name substitutions); plus the fusion family (x[i,j,k]*z[a]*w[b] with free real arrays, 2-3 "
                "nested Reduce/Contraction levels fused by eager/normalize/apply_optimizer, then a colliding-name "
                "substitution; the rewritten lazy term of every mode is walked for unmarked binders); plus the callform family "
                "(one simultaneous substitution written positionally / by keyword / mixed at every split point / with "
                "name-string and int sugar / as Subs(...), values mentioning other keys of the same call). Non-trivial = binder depth >= 2, some value returned, and a binder "
                "name that is also free somewhere in the expression or bound twice; distinct by full content." %
                (3 if quick else 4))
    enum_stream(ctx)
    simsubs_stream(ctx)
    callform_stream(ctx)
    onesub_stream(ctx)
    rebuild_stream(ctx)
    pairs_stream(ctx)
    fusion_stream(ctx)
    clean_stream(ctx, 600 if quick else 5000)
    extras_stream(ctx, 80 if quick else 600)
    thread_stream(ctx)
    gauss_integrate_stream(ctx, 200 if quick else 2000)
    gauss_contraction_stream(ctx, 120 if quick else 1200)
    for name, fid, stream in (("shared-binder", KF, shared_binder_stream), ("approximate", KF2, approximate_stream),
                              ("mixed-redop", KF4, mixed_redop_stream)):
        try:
            stream(ctx)
        except DECLINE + (RecursionError,) as e:
            # the construction itself raises on this tree: the finding cannot be reproduced (a decline, not a value)
            ctx.count(f"dedicated:{fid}:construction-raised:{type(e).__name__}")
            ctx.known(fid, False)
    ctx.exhaustive = False
    ctx.assumptions.append("MarkovProduct, Integrate, Scatter, Approximate are outside the shared Lean Term: checked "
                           "against Python oracles (naive_sequential_sum_product, explicit sums) only")
    ctx.assumptions.append("optimizer/unfold is not applied in the clean stream (open finding KF-shared-binder-unfold; "
                           "the optimizer is C08's subject)")


def search(ctx, broken):
    """Python-side oracle (pyeval + name clauses), 10x volume; works without the Lean driver."""
    rng = ctx.rng
    n_cases = 3000 if ctx.tier == "quick" else 30000
    found = 0
    for _ in range(n_cases):
        n, r, xval = gen_case(rng, ctx.tier)
        f = fails_py(r, n, xval)
        if f is None:
            asym = outcome_asymmetry(r, n, xval)
            if asym:
                ctx.fail("input", "C05.name-choice-changes-outcome",
                         witness={"n": n, "recipe": describe(r), "mode": asym[0], "x": xval},
                         expected=f"fresh binder names: {asym[2]}", got=f"user names: {asym[1]}",
                         python=py_program(r if asym[1] == "declined" else rename_binders(r), n, asym[0], xval) +
                         "FAILS = False  # reaching this line means the construction no longer raises\n")
                found += 1
                if found >= 3:
                    break
            continue
        if f[0] == "value":
            report_value(ctx, "C05.value-ne-oracle", r, n, xval, f[1], f[2], f[3])
        else:
            ctx.fail("input", f"C05.{f[1]}", witness={"n": n, "recipe": describe(r)}, expected="name clauses", got=f[3],
                     python=py_program(r, n, "reflect", None) + "FAILS = True\n")
        found += 1
        if found >= 3:
            break


def replay(ctx, doc):
    w = doc.get("witness") or {}
    if "recipe" not in w:
        py = doc.get("python")
        if not py:
            return True
        g = {}
        exec(py, g)
        return bool(g.get("FAILS", False))

    def tup(x):
        return tuple(tup(y) for y in x) if isinstance(x, list) else x
    r = tup(w["recipe"])
    xval = tuple(w["x"]) if w.get("x") else None
    f = fails_py(r, w["n"], xval)
    return f is not None or outcome_asymmetry(r, w["n"], xval) is not None
