"""
C06 — declared types match actual values (find_domain half + tensor-data half).

Three observers per (op, operand domains) case:

  impl     the real `funsor.domains.find_domain(op, *domains)`                       (declared type)
  model    Lean `FV.C06.findDomain rule opName params doms` via the driver           (typing rules)
  reality  the real op applied to numpy arrays of exactly those domains (Bint arrays at the extreme
           values), and, at term level, the eager result on `Tensor`s with batch inputs vs the lazy
           term built from `Variable`s under `reflect`                               (actual values)
  spec     Lean `np…` shape specification (the functions the theorems are about) vs reality

Gates (property C06):  impl == model where both return;  impl shape == reality shape and Bint values
in [0,size) wherever the op returns;  lazy .output == eager .output, eager .data.shape == batch sizes
+ .output.shape, eager inputs ⊆ operand inputs.  A decline (exception / lazy result) is allowed.
Known open findings run in dedicated streams (ctx.known) and never enter the clean stream.
"""
import ast
import inspect
import itertools
import warnings
from collections import OrderedDict

import numpy as np

from ..common import sx, parse_sx, Q, REPO, LEAN
from ..futil import funsor, Tensor, Bint, Real, Reals, ops, Variable

from funsor.domains import find_domain, Array
from funsor.terms import Unary, Binary, Finitary, Number, Funsor
from funsor.interpretations import reflect

GEN_FILE = LEAN / "FunsorVerif" / "Gen" / "C06OpSignatures.lean"

U_GENERIC = "_find_domain_pointwise_unary_generic"
B_GENERIC = "_find_domain_pointwise_binary_generic"
ASSOC = "_find_domain_associative_generic"

# the typing rule each catalogue op is expected to be dispatched to (mirrors Props.C06.expectedRule)
EXPECTED_RULE = {
    **{n: U_GENERIC for n in ("abs", "neg", "pos", "sqrt", "log1p", "sigmoid", "tanh", "atanh", "reciprocal",
                              "lgamma", "invert", "detach", "isnan", "clamp", "flip")},
    "exp": "_find_domain_log_exp", "log": "_find_domain_log_exp",
    "astype": "_find_domain_astype",
    **{n: "_find_domain_reduction" for n in ("all", "any", "amax", "amin", "sum", "prod", "logsumexp", "mean",
                                             "std", "var")},
    "reshape": "_find_domain_reshape", "getitem": "_find_domain_getitem", "getslice": "_find_domain_getslice",
    **{n: B_GENERIC for n in ("sub", "pow", "truediv", "lshift", "rshift", "safesub", "safediv")},
    **{n: "_find_domain_comparison" for n in ("eq", "ne", "lt", "le", "gt", "ge")},
    "floordiv": "_find_domain_floordiv", "mod": "_find_domain_mod", "matmul": "_find_domain_matmul",
    **{n: ASSOC for n in ("add", "mul", "max", "min", "and_", "or_", "xor", "logaddexp", "sample", "null")},
    "stack": "_find_domain_stack", "cat": "_find_domain_cat", "einsum": "_find_domain_einsum",
    # shape-changing unary ops without a rule of their own (KF-generic-unary-shape)
    **{n: U_GENERIC for n in ("unsqueeze", "transpose", "permute", "argmax", "argmin", "expand", "diagonal",
                              "new_zeros")},
}
SHAPE_CHANGING = ("unsqueeze", "transpose", "permute", "argmax", "argmin", "expand", "diagonal", "new_zeros")
INT_SOUND_UNARY = ("abs", "pos", "detach", "flip")
POINTWISE_UNARY = ("abs", "neg", "pos", "sqrt", "exp", "log", "log1p", "sigmoid", "tanh", "atanh", "reciprocal",
                   "lgamma", "invert", "detach", "isnan")
REDUCTIONS = ("all", "any", "amax", "amin", "sum", "prod", "logsumexp", "mean", "std", "var")
COMPARISONS = ("eq", "ne", "lt", "le", "gt", "ge")
GENERIC_BINARY = ("sub", "pow", "truediv", "lshift", "rshift", "safesub", "safediv")
ASSOC_OPS = ("add", "mul", "max", "min", "and_", "or_", "xor", "logaddexp", "sample")

KF_INT = "KF-generic-int-range"
KF_FLOORDIV = "KF-floordiv-bound"
KF_BITWISE = "KF-bitwise-int-range"
KF_SHAPE = "KF-generic-unary-shape"
KF_MOD_UNIT = "KF-mod-unit-divisor"
PENDING = ()      # findings reported to the integrator but not yet listed (dedicated stream not gated until listed)
DIVISOR_OPS = ("floordiv", "mod", "truediv", "safediv")
KF_WHAT = {
    KF_MOD_UNIT: "Bint[n] % Bint[1] declares Bint[0]; numpy integer modulo by zero returns 0 (RuntimeWarning only)",
    KF_INT: "generic same-dtype rules keep Bint[n] although values leave [0,n) or are not integers",
    KF_FLOORDIV: "Bint[n]//Bint[m] declared Bint[(n-1)//(m-1)+1], too small unless the divisor is maximal",
    KF_BITWISE: "and_/or_/xor on Bint[n>2] operands declared Bint[2]",
    KF_SHAPE: "shape-changing unary ops typed by the pointwise generic rule (declared shape = operand shape)",
}


# ----------------------------------------------------------------------------------------------
# extract: op signatures and the keys find_domain reads, from /repo
# ----------------------------------------------------------------------------------------------

def _lean_str(s):
    return '"' + str(s).replace("\\", "\\\\").replace('"', '\\"') + '"'


def _lean_list(xs):
    return "[" + ", ".join(xs) + "]"


def _ast_make_params():
    """op name -> parameter names of the default implementation, read from the AST of funsor/ops/*.py
    (functions decorated with `@X.make` / `@X.make(...)`)."""
    out = {}
    for fn in ("builtin.py", "array.py", "op.py"):
        tree = ast.parse((REPO / "funsor" / "ops" / fn).read_text())
        for node in ast.walk(tree):
            if not isinstance(node, ast.FunctionDef):
                continue
            for dec in node.decorator_list:
                d = dec.func if isinstance(dec, ast.Call) else dec
                if isinstance(d, ast.Attribute) and d.attr == "make":
                    name = node.name
                    if isinstance(dec, ast.Call):
                        for kw in dec.keywords:
                            if kw.arg == "name" and isinstance(kw.value, ast.Constant):
                                name = kw.value.value
                    a = node.args
                    names = [x.arg for x in a.posonlyargs + a.args + a.kwonlyargs]
                    out.setdefault(name, names)
    return out


def _ast_find_domain_rules():
    """rule function name -> (classes it is registered for, keys read with op.defaults[k], keys read with .get)."""
    tree = ast.parse((REPO / "funsor" / "domains.py").read_text())
    rules = []
    for node in tree.body:
        if not isinstance(node, ast.FunctionDef):
            continue
        classes = []
        for dec in node.decorator_list:
            if (isinstance(dec, ast.Call) and isinstance(dec.func, ast.Attribute) and dec.func.attr == "register"
                    and isinstance(dec.func.value, ast.Name) and dec.func.value.id == "find_domain"):
                for a in dec.args:
                    classes.append(a.attr if isinstance(a, ast.Attribute) else getattr(a, "id", "?"))
        if not classes:
            continue
        bracket, get = [], []
        for sub in ast.walk(node):
            # op.defaults["k"]
            if (isinstance(sub, ast.Subscript) and isinstance(sub.value, ast.Attribute) and sub.value.attr == "defaults"
                    and isinstance(sub.slice, ast.Constant) and isinstance(sub.slice.value, str)):
                if sub.slice.value not in bracket:
                    bracket.append(sub.slice.value)
            # op.defaults.get("k", …)
            if (isinstance(sub, ast.Call) and isinstance(sub.func, ast.Attribute) and sub.func.attr == "get"
                    and isinstance(sub.func.value, ast.Attribute) and sub.func.value.attr == "defaults"
                    and sub.args and isinstance(sub.args[0], ast.Constant)):
                if sub.args[0].value not in get:
                    get.append(sub.args[0].value)
        rules.append((node.name, classes, bracket, get))
    return rules


def op_table():
    ast_params = _ast_make_params()
    rows = []
    from funsor.ops.op import _iter_subclasses
    classes = {}
    for cls in _iter_subclasses(ops.Op):
        if isinstance(getattr(cls, "name", None), str) and hasattr(cls, "signature") and not cls.name.startswith("fv_"):
            classes.setdefault(cls.name, cls)
    for name in sorted(classes):
        cls = classes[name]
        o = getattr(ops, name, None)
        if not isinstance(o, ops.Op) or type(o) is not cls:
            try:
                o = cls()       # the default instance (ops that are exported only as a class, e.g. ReshapeOp)
            except Exception:
                continue
        mro = [c.__name__ for c in cls.__mro__ if isinstance(c, type) and issubclass(c, ops.Op)]
        params = []
        for i, (pn, p) in enumerate(cls.signature.parameters.items()):
            if i < cls.arity:
                continue
            params.append((pn, "<required>" if p.default is inspect.Parameter.empty else repr(p.default)))
        live_defaults = list(o.defaults.keys())
        try:
            rule = find_domain.dispatch(cls).__name__
        except Exception:
            rule = "?"
        ap = ast_params.get(o.name)
        ast_extra = None if ap is None else ap[cls.arity:]
        rows.append(dict(name=o.name, attr=name, cls=cls.__name__, mro=mro, arity=cls.arity, params=params,
                         live_defaults=live_defaults, rule=rule, ast_params=ast_extra))
    return rows


def render_gen(rows, rules):
    L = ["/- GENERATED by fv/harness/c06.py:extract from /repo (funsor/ops/*.py, funsor/domains.py) on every run — do not edit. -/",
         "namespace FV.Gen.C06", "",
         "structure OpSig where",
         "  name : String",
         "  cls : String",
         "  mro : List String",
         "  arity : Nat",
         "  params : List (String × String)   -- declared non-funsor parameters (inspect.signature): name, repr(default)",
         "  defaultsKeys : List String          -- keys of the default instance's op.defaults",
         "  astParams : Option (List String)    -- the same names read from the AST of the `@X.make` function, if any",
         "  rule : String                       -- find_domain.dispatch(type(op)).__name__",
         "  deriving Repr, DecidableEq", "",
         "def ops : List OpSig := ["]
    body = []
    for r in rows:
        params = _lean_list(["(" + _lean_str(a) + ", " + _lean_str(b) + ")" for a, b in r["params"]])
        astp = "none" if r["ast_params"] is None else "some " + _lean_list([_lean_str(x) for x in r["ast_params"]])
        body.append("  ⟨" + ", ".join([
            _lean_str(r["name"]), _lean_str(r["cls"]), _lean_list([_lean_str(m) for m in r["mro"]]), str(r["arity"]),
            params, _lean_list([_lean_str(k) for k in r["live_defaults"]]), astp, _lean_str(r["rule"])]) + "⟩")
    L.append(",\n".join(body))
    L += ["]", "",
          "structure RuleReads where",
          "  rule : String",
          "  registeredFor : List String   -- `@find_domain.register(ops.X)` decorators",
          "  bracketKeys : List String     -- op.defaults[\"k\"]",
          "  getKeys : List String         -- op.defaults.get(\"k\", …)",
          "  deriving Repr, DecidableEq", "",
          "def rules : List RuleReads := ["]
    body = []
    for name, classes, bracket, get in rules:
        body.append("  ⟨" + ", ".join([_lean_str(name), _lean_list([_lean_str(c) for c in classes]),
                                       _lean_list([_lean_str(k) for k in bracket]),
                                       _lean_list([_lean_str(k) for k in get])]) + "⟩")
    L.append(",\n".join(body))
    L += ["]", "", "end FV.Gen.C06", ""]
    return "\n".join(L)


GEN_CONTRACTION = LEAN / "FunsorVerif" / "Gen" / "C06Contraction.lean"


def _ast_contraction_init():
    """Source form of the typing part of cnf.Contraction.__init__: every statement that assigns `output`,
    `inputs` or `bound` (with the test guarding it), as normalised source text (ast.unparse)."""
    tree = ast.parse((REPO / "funsor" / "cnf.py").read_text())
    init = None
    for node in tree.body:
        if isinstance(node, ast.ClassDef) and node.name == "Contraction":
            for sub in node.body:
                if isinstance(sub, ast.FunctionDef) and sub.name == "__init__":
                    init = sub
    stmts = []
    if init is None:
        return stmts, ""

    def targets(st):
        if isinstance(st, ast.Assign):
            return [ast.unparse(t) for t in st.targets]
        if isinstance(st, (ast.AugAssign, ast.AnnAssign)):
            return [ast.unparse(st.target)]
        return []

    def walk(body, guard):
        for st in body:
            if isinstance(st, ast.If):
                t = ast.unparse(st.test)
                walk(st.body, guard + [t])
                walk(st.orelse, guard + ["not (" + t + ")"])
            elif isinstance(st, (ast.For, ast.While, ast.With, ast.Try)):
                src = ast.unparse(st)
                if any(w in src for w in ("output", "inputs", "bound")):
                    stmts.append((" and ".join(guard), src.replace("\n", " ; ")))
            elif any(t in ("output", "inputs", "bound") for t in targets(st)):
                stmts.append((" and ".join(guard), ast.unparse(st).replace("\n", " ")))
            elif isinstance(st, ast.Expr) and "__init__" in ast.unparse(st):
                stmts.append((" and ".join(guard), ast.unparse(st)))
    walk(init.body, [])
    return stmts, ast.unparse(init.args)


def _ast_dependent_source():
    """Source forms: Dependent.__init__ / __call__ (domains.py) and the call in make_op's find_domain rule."""
    out = []
    tree = ast.parse((REPO / "funsor" / "domains.py").read_text())
    for node in tree.body:
        if isinstance(node, ast.ClassDef) and node.name == "Dependent":
            for sub in node.body:
                if isinstance(sub, ast.FunctionDef) and sub.name in ("__init__", "__call__"):
                    body = [st for st in sub.body if not (isinstance(st, ast.Expr) and isinstance(st.value, ast.Constant))]
                    out.append(("Dependent." + sub.name, ast.unparse(sub.args), " ; ".join(ast.unparse(st) for st in body)))
    tree = ast.parse((REPO / "funsor" / "op_factory.py").read_text())
    for node in ast.walk(tree):
        if isinstance(node, ast.FunctionDef) and node.name == "find_domain_made_op":
            for st in ast.walk(node):
                if isinstance(st, ast.Return):
                    out.append(("find_domain_made_op.return", ast.unparse(node.args), ast.unparse(st)))
        if isinstance(node, ast.FunctionDef) and node.name == "make_op":
            for st in node.body:
                if isinstance(st, ast.Assign) and ast.unparse(st.targets[0]) == "parameters":
                    out.append(("make_op.parameters", "", ast.unparse(st)))
    return out


def render_contraction(stmts, args):
    L = ["/- GENERATED by fv/harness/c06.py:extract from /repo/funsor/cnf.py (Contraction.__init__) on every run — do not edit. -/",
         "namespace FV.Gen.C06", "",
         "/-- the statements of `Contraction.__init__` that compute the declared type: (guard, statement) -/",
         "def contractionInitArgs : String := " + _lean_str(args), "",
         "def contractionInitTyping : List (String × String) := ["]
    L.append(",\n".join("  (" + _lean_str(g) + ", " + _lean_str(st) + ")" for g, st in stmts))
    L += ["]", "",
          "/-- `Dependent.__init__` / `__call__` and the call site in `make_op`: (where, args, body) -/",
          "def dependentSource : List (String × String × String) := ["]
    L.append(",\n".join("  (" + ", ".join(_lean_str(x) for x in row) + ")" for row in _ast_dependent_source()))
    L += ["]", "", "end FV.Gen.C06", ""]
    return "\n".join(L)


def extract(ctx):
    cst, cargs = _ast_contraction_init()
    ctxt = render_contraction(cst, cargs)
    if not GEN_CONTRACTION.exists() or GEN_CONTRACTION.read_text() != ctxt:
        GEN_CONTRACTION.write_text(ctxt)
    ctx.extra["contraction_init_statements"] = len(cst)
    rows = op_table()
    rules = _ast_find_domain_rules()
    txt = render_gen(rows, rules)
    GEN_FILE.parent.mkdir(parents=True, exist_ok=True)
    if not GEN_FILE.exists() or GEN_FILE.read_text() != txt:
        GEN_FILE.write_text(txt)
    ctx.extra["op_signature_rows"] = len(rows)
    ctx.extra["find_domain_rules"] = len(rules)
    ctx._c06_rows = rows
    ctx._c06_rules = rules


# ----------------------------------------------------------------------------------------------
# wire encoding
# ----------------------------------------------------------------------------------------------

def enc_dom(d):
    if d.dtype == "real":
        return ["real", [int(s) for s in d.shape]]
    return ["bint", int(d.dtype), [int(s) for s in d.shape]]


def dom_key(d):
    return ("real", tuple(d.shape)) if d.dtype == "real" else ("bint", int(d.dtype), tuple(d.shape))


def enc_part(p):
    if p is None:
        return "na"
    if p is Ellipsis:
        return "el"
    if isinstance(p, slice):
        return ["sl"] + ["none" if v is None else int(v) for v in (p.start, p.stop, p.step)]
    return ["k", int(p)]


def enc_pval(key, v):
    if key == "index":
        parts = v if isinstance(v, tuple) else (v,)
        return ["idx"] + [enc_part(p) for p in parts]
    if v is None:
        return "none"
    if isinstance(v, bool):
        return v
    if isinstance(v, (int, np.integer)):
        return ["i", int(v)]
    if isinstance(v, str):
        return ["s", Q(v)]
    if isinstance(v, tuple) and all(isinstance(x, (int, np.integer)) and not isinstance(x, bool) for x in v):
        return ["is"] + [int(x) for x in v]
    return "other"


def enc_params(op):
    return [[Q(k), enc_pval(k, v)] for k, v in op.defaults.items()]


def enc_axis(a):
    if a is None:
        return "none"
    if isinstance(a, tuple):
        return ["is"] + list(a)
    return ["i", a]


def parse_answer(ans):
    """-> ("dom", key) | ("raise", name) | ("err", text)"""
    if not ans.startswith("ok "):
        return ("err", ans)
    t = parse_sx(ans[3:])
    if isinstance(t, list) and t and t[0] == "raise":
        return ("raise", t[1])
    if isinstance(t, list) and t and t[0] == "real":
        return ("dom", ("real", tuple(int(x) for x in t[1])))
    if isinstance(t, list) and t and t[0] == "bint":
        return ("dom", ("bint", int(t[1]), tuple(int(x) for x in t[2])))
    return ("err", ans)


def parse_shape_answer(ans):
    if not ans.startswith("ok "):
        return ("err", ans)
    body = ans[3:].strip()
    if body == "none":
        return ("none", None)
    t = parse_sx(body)
    if isinstance(t, list) and t and t[0] == "raise":
        return ("none", None)
    if isinstance(t, str):
        return ("shape", int(t))
    return ("shape", tuple(int(x) for x in t))


# ----------------------------------------------------------------------------------------------
# running the real thing
# ----------------------------------------------------------------------------------------------

def impl_find_domain(op, doms, finitary):
    try:
        d = find_domain(op, tuple(doms)) if finitary else find_domain(op, *doms)
    except Exception as e:  # a decline
        return ("raise", type(e).__name__)
    if d is None:
        return ("raise", "None")
    return ("dom", dom_key(d))


def make_array(dom, variant, nrng):
    """An array of exactly the domain `dom`.  variant: max | zero | rand | lo1 (smallest non-zero)"""
    shape = tuple(dom.shape)
    if dom.dtype == "real":
        vals = np.array([0.5, 1.0, 1.5, 2.0, 0.25, 3.0])
        return vals[nrng.integers(0, len(vals), size=shape)]
    n = int(dom.dtype)
    if n == 0:
        return None
    if variant == "max":
        return np.full(shape, n - 1, dtype=np.int64)
    if variant == "zero":
        return np.zeros(shape, dtype=np.int64)
    if variant == "lo1":
        return np.full(shape, min(1, n - 1), dtype=np.int64)
    return nrng.integers(0, n, size=shape, dtype=np.int64)


def apply_op(op, arrs, finitary):
    with np.errstate(all="ignore"), warnings.catch_warnings():
        warnings.simplefilter("ignore")
        try:
            r = op(tuple(arrs)) if finitary else op(*arrs)
        except Exception as e:
            return ("raise", type(e).__name__)
    if isinstance(r, tuple):
        return ("raise", "tuple-result")
    try:
        return ("val", np.asarray(r))
    except Exception as e:
        return ("raise", type(e).__name__)


def value_defect(key, arr):
    """None if `arr` inhabits the domain `key`, else 'shape' / 'range'."""
    shape = key[-1]
    if tuple(arr.shape) != tuple(shape):
        return "shape"
    if key[0] == "bint" and arr.size:
        if arr.dtype == object:
            return "range"
        a = arr.astype(np.float64)
        if not (np.all(np.isfinite(a)) and np.all(a == np.floor(a)) and a.min() >= 0 and a.max() < key[1]):
            return "range"
    return None


def mkop(name, **kw):
    o = getattr(ops, name, None)
    cls = type(o) if isinstance(o, ops.Op) else getattr(ops, "".join(p.capitalize() for p in name.split("_") if p) + "Op")
    return cls(**kw) if kw or o is None else o


def dom_of(dtype, shape):
    return Array[dtype, tuple(shape)]


def dom_src(k):
    return f"Array[{k[0]!r}, {k[-1]!r}]" if k[0] == "real" else f"Array[{k[1]}, {k[-1]!r}]"


def op_src(op):
    if not op.defaults and isinstance(getattr(ops, op.name, None), ops.Op):
        return f"ops.{op.name}"
    return f"ops.{type(op).__name__}(**{dict(op.defaults)!r})"


PY_FD = """
# replay for C06 ({what})
import warnings, numpy as np
import funsor; funsor.set_backend("numpy")
from funsor import ops
from funsor.domains import find_domain, Array
Ellipsis_ = Ellipsis
op = {op}
doms = [{doms}]
declared = find_domain(op, {call})
arrs = {arrs}
with np.errstate(all="ignore"), warnings.catch_warnings():
    warnings.simplefilter("ignore")
    actual = np.asarray(op({acall}))
print("declared", declared, "actual shape", actual.shape, "values", actual.tolist())
bad_shape = tuple(actual.shape) != tuple(declared.shape)
bad_range = False
if declared.dtype != "real" and actual.size:
    a = actual.astype(float)
    bad_range = not (np.isfinite(a).all() and (a == np.floor(a)).all() and a.min() >= 0 and a.max() < declared.dtype)
FAILS = bool(bad_shape or bad_range)
"""


def fd_python(what, op, doms, finitary, arrs):
    return PY_FD.format(
        what=what, op=op_src(op).replace("Ellipsis", "Ellipsis_"),
        doms=", ".join(dom_src(dom_key(d)) for d in doms),
        call="tuple(doms)" if finitary else "*doms",
        arrs="[" + ", ".join(f"np.array({a.tolist()!r}, dtype=np.{a.dtype}).reshape({tuple(a.shape)!r})" for a in arrs) + "]",
        acall="tuple(arrs)" if finitary else "*arrs")


PY_TERM = """
# replay for C06 ({what}): lazy term over Variables vs eager result on Tensors
import numpy as np
from collections import OrderedDict
import funsor; funsor.set_backend("numpy")
from funsor import ops, Variable, Tensor, Bint
from funsor.domains import Array
from funsor.terms import Unary, Binary, Finitary
from funsor.interpretations import reflect
Ellipsis_ = Ellipsis
op = {op}
doms = [{doms}]
vs = [Variable("x%d" % i, d) for i, d in enumerate(doms)]
with reflect:
    L = {lazy}
ts = {tensors}
E = {eager}
print("lazy output", L.output, "| eager", type(E).__name__, E.output, getattr(getattr(E, "data", None), "shape", None))
FAILS = L.output != E.output
if isinstance(E, Tensor):
    FAILS = FAILS or tuple(E.data.shape) != tuple(v.size for v in E.inputs.values()) + tuple(E.output.shape)
    if E.output.dtype != "real" and E.data.size:
        a = np.asarray(E.data).astype(float)
        FAILS = FAILS or not ((a == np.floor(a)).all() and a.min() >= 0 and a.max() < E.output.dtype)
FAILS = bool(FAILS)
"""


# ----------------------------------------------------------------------------------------------
# the box
# ----------------------------------------------------------------------------------------------

def all_shapes(maxrank, sizes):
    out = []
    for r in range(maxrank + 1):
        out += list(itertools.product(sizes, repeat=r))
    return out


def axis_variants(r):
    """every axis parameter for an operand of rank r: None, each int in [-r, r), every non-empty subset with
    every sign choice, the empty tuple, and the two nearest out-of-range values."""
    out = [None, ()]
    out += list(range(-r, r))
    for k in range(1, r + 1):
        for sub in itertools.combinations(range(r), k):
            for signs in itertools.product((0, 1), repeat=k):
                out.append(tuple(a - r if s else a for a, s in zip(sub, signs)))
    out += [r, -r - 1]
    if r >= 2:
        out.append((0, -r))     # duplicate axis: numpy raises
    return out


SLICE_BOUNDS = (None, 0, 1, 2, 3, 5, -1, -2, -3, -5)
SLICE_STEPS = (None, 1, 2, 3, -1, -2, -3)


def all_slices():
    return [slice(a, b, c) for a in SLICE_BOUNDS for b in SLICE_BOUNDS for c in SLICE_STEPS]


def some_slices(rng, k):
    base = [slice(None), slice(None, None, -1), slice(1, None), slice(None, -1), slice(None, None, 2),
            slice(-2, None, -1), slice(5, 0, -2), slice(0, 0), slice(2, 1), slice(-5, 5, 3)]
    alls = all_slices()
    return base + [rng.choice(alls) for _ in range(k)]


def einsum_equations(quick, rng):
    letters = "abc"
    ins = [""] + list(letters) + [x + y for x in letters for y in letters]
    eqs = []
    for k in (1, 2):
        for combo in itertools.product(ins, repeat=k):
            used = sorted(set("".join(combo)))
            outs = [""] + used + [x + y for x in used for y in used if x != y]
            for o in outs:
                eqs.append((",".join(combo), o))
    eqs.append(("ab,bc", "ad"))      # output letter never bound: KeyError
    eqs.append(("abc,acb", "a"))
    if quick:
        rng.shuffle(eqs)
        eqs = eqs[:260] + [("ab,bc", "ac"), ("ab,b", "a"), ("aa", "a"), ("ab", "ba"), ("a,a", ""), ("ab,bc", "ad")]
    return eqs


class Run:
    """Collects cases, asks the driver once, then compares."""

    def __init__(self, ctx, use_driver=True):
        self.ctx = ctx
        self.use_driver = use_driver
        self.cases = []
        self.spec = []
        self.nrng = np.random.default_rng(ctx.rng.getrandbits(32))
        self.known_hits = {}
        self.known_seen = {}
        self.sampled = set()
        self.found = 0

    # ---- classification -------------------------------------------------------------
    @staticmethod
    def region(op, rule, doms):
        name = op.name
        bints = [d for d in doms if d.dtype != "real"]
        if name in SHAPE_CHANGING:
            return KF_SHAPE
        if rule == "_find_domain_mod" and len(bints) == 2 and doms[1].dtype == 1:
            return KF_MOD_UNIT
        if rule == U_GENERIC and bints and name not in INT_SOUND_UNARY:
            return KF_INT
        if rule == B_GENERIC and len(bints) == 2:
            return KF_INT
        if rule == ASSOC and len(doms) == 2 and len(bints) == 2:
            if name in ("logaddexp", "sample", "null"):
                return KF_INT
            if name in ("and_", "or_", "xor") and any(d.dtype > 2 for d in bints):
                return KF_BITWISE
        if rule == "_find_domain_floordiv" and len(bints) == 2:
            return KF_FLOORDIV
        return None

    @staticmethod
    def term_region(op, rule, doms):
        """regions that only show at term level (the declared type is right, the eager rule is not)"""
        return None

    def add(self, stream, op, doms, finitary=False, variants=("rand",), term=None):
        rule = EXPECTED_RULE.get(op.name)
        self.cases.append((stream, op, tuple(doms), finitary, variants, term, rule))

    def add_spec(self, line, reality, what):
        """np-spec request + what numpy really returned (shape tuple / int / None for 'raises')."""
        self.spec.append((line, reality, what))

    # ---- execution ------------------------------------------------------------------
    def flush(self):
        ctx = self.ctx
        cases, self.cases = self.cases, []
        spec, self.spec = self.spec, []
        answers = spec_answers = None
        if self.use_driver:
            lines = [f"C06 fd {rule} {op.name} {sx(enc_params(op))} {sx([enc_dom(d) for d in doms])}"
                     for (_, op, doms, _, _, _, rule) in cases]
            out = ctx.driver.ask(lines + [s[0] for s in spec])
            answers, spec_answers = out[:len(lines)], out[len(lines):]
        for i, case in enumerate(cases):
            self.check(case, parse_answer(answers[i]) if answers is not None else None)
        for j, (line, reality, what) in enumerate(spec):
            if spec_answers is None:
                continue
            kind, val = parse_shape_answer(spec_answers[j])
            if kind == "err":
                ctx.infra_errors.append(f"driver: {spec_answers[j]} for {line}")
                continue
            ctx.count("spec:" + what)
            if val != reality:
                # the Lean numpy-shape specification itself is wrong: our bug, never a violation
                ctx.infra_errors.append(f"np-spec mismatch ({what}): {line} -> {val}, numpy gives {reality}")

    def check(self, case, model):
        ctx = self.ctx
        stream, op, doms, finitary, variants, term, rule = case
        region = self.region(op, rule, doms)
        impl = impl_find_domain(op, doms, finitary)
        desc = dict(stream=stream, op=op.name, params={k: repr(v) for k, v in op.defaults.items()},
                    domains=[repr(dom_key(d)) for d in doms])
        ctx.count(f"stream:{stream}")
        ctx.count(f"impl:{impl[0]}" + (":" + impl[1] if impl[0] == "raise" else ""))
        if region:
            ctx.count(f"region:{region}")
            self.known_seen[region] = self.known_seen.get(region, 0) + 1

        # (1) typing rules: impl vs model
        if model is not None:
            if model[0] == "err":
                ctx.infra_errors.append(f"driver answered {model[1]} for {desc}")
                return
            if model == ("raise", "beyond"):
                ctx.count("model:beyond")
            elif impl[0] == "dom" and model[0] == "dom":
                if impl[1] != model[1]:
                    ctx.fail("correspondence", f"C06.find_domain-vs-model:{rule}", witness=None,
                             expected=f"model {model[1]}", got=f"find_domain {impl[1]}", detail=str(desc))
                else:
                    ctx.count("types:agree")
            elif impl[0] != model[0]:
                ctx.count(f"decline-mismatch:{rule}:impl={impl[1] if impl[0]=='raise' else 'dom'}")
            else:
                ctx.count("types:both-raise" + ("" if impl[1] == model[1] else ":kind-differs"))

        # (2) reality: the op on arrays of those domains
        nontrivial = None
        if impl[0] == "dom" and variants:
            for variant in variants:
                vs = variant if isinstance(variant, tuple) else (variant,) * len(doms)
                arrs = [make_array(d, v, self.nrng) for d, v in zip(doms, vs)]
                if any(a is None for a in arrs):
                    continue
                res = apply_op(op, arrs, finitary)
                if res[0] == "raise":
                    ctx.count("reality:op-raises")
                    if stream.startswith("class-"):
                        ctx.count(f"class:{stream}:array-op-raises:{res[1]}")
                    continue
                ctx.count("reality:value")
                defect = value_defect(impl[1], res[1])
                if stream.startswith("class-"):
                    ctx.count(f"class:{stream}:array-op-returns")
                if defect == "range" and op.name in DIVISOR_OPS and not np.all(arrs[1]) and region != KF_MOD_UNIT:
                    ctx.count("reality:zero-divisor-skipped")     # outside the op's domain
                    continue
                if region == KF_SHAPE or (region and defect == "range"):
                    if defect:
                        self.known_hits.setdefault(region, dict(desc, declared=repr(impl[1]),
                                                                actual_shape=list(res[1].shape),
                                                                actual=res[1].tolist() if res[1].size <= 12 else "…"))
                    continue
                if defect:
                    self.found += 1
                    ctx.fail("input", f"C06.declared-{defect}:{rule}", witness=desc,
                             expected=f"array of declared domain {impl[1]}",
                             got=f"shape {tuple(res[1].shape)} values min {res[1].min() if res[1].size else None} "
                                 f"max {res[1].max() if res[1].size else None}",
                             python=fd_python(f"declared-{defect}", op, doms, finitary, arrs))
                    break
                if model is not None and model[0] == "dom" and model[1] != impl[1]:
                    # impl is right about reality here, the model is not: our model is wrong
                    if value_defect(model[1], res[1]):
                        ctx.count("model-vs-reality:model-wrong")
                nontrivial = (stream, op.name, repr(sorted(op.defaults.items(), key=str)), tuple(dom_key(d) for d in doms))

        # (3) term level
        if term and impl[0] == "dom":
            self.check_term(case, impl, region, desc)

        if len(ctx.samples) < 6 and nontrivial and stream not in self.sampled and len(doms[0].shape) >= 2:
            self.sampled.add(stream)
            ctx.case(sample=dict(desc, declared=repr(impl[1])), nontrivial_key=nontrivial)
        else:
            ctx.case(nontrivial_key=nontrivial)

    # ---- term level: lazy (Variables, reflect) vs eager (Tensors with batch inputs) -----------
    def check_term(self, case, impl, region, desc):
        ctx = self.ctx
        stream, op, doms, finitary, variants, term, rule = case
        batches = term
        tregion = self.term_region(op, rule, doms)
        if tregion:
            ctx.count(f"region:{tregion}")
            self.known_seen[tregion] = self.known_seen.get(tregion, 0) + 1
        vs = [Variable(f"x{i}", d) for i, d in enumerate(doms)]
        try:
            with reflect:
                if finitary:
                    L = Finitary(op, tuple(vs))
                elif len(vs) == 1:
                    L = Unary(op, vs[0])
                else:
                    L = Binary(op, vs[0], vs[1])
        except Exception as e:
            ctx.count("term:lazy-raises:" + type(e).__name__)
            return
        ctx.count("term:lazy")
        exp_inputs = OrderedDict((v.name, v.output) for v in vs)
        if dom_key(L.output) != impl[1] or dict(L.inputs) != dict(exp_inputs):
            ctx.fail("input", f"C06.lazy-declaration:{rule}", witness=desc,
                     expected=f"inputs {dict(exp_inputs)} output {impl[1]}", got=f"inputs {dict(L.inputs)} output {L.output}")
            return
        if list(L.inputs) == list(exp_inputs):
            ctx.count("term:lazy-input-order-as-model")
        for batch in batches:
            variant = variants[-1] if variants else "rand"
            vv = variant if isinstance(variant, tuple) else (variant,) * len(doms)
            ts = []
            for d, b, v in zip(doms, batch, vv):
                bshape = tuple(s for _, s in b)
                full = Array[d.dtype, bshape + tuple(d.shape)]
                arr = make_array(full, v, self.nrng)
                if arr is None:
                    return
                if not b and not d.shape and d.dtype != "real" and ctx.rng.random() < 0.5:
                    ts.append(Number(int(arr), int(d.dtype)))
                else:
                    ts.append(Tensor(arr, OrderedDict((n, Bint[s]) for n, s in b), d.dtype))
            union = OrderedDict()
            for t in ts:
                union.update(t.inputs)
            with np.errstate(all="ignore"), warnings.catch_warnings():
                warnings.simplefilter("ignore")
                try:
                    if finitary:
                        E = Finitary(op, tuple(ts))
                    elif len(ts) == 1:
                        E = Unary(op, ts[0])
                    else:
                        E = Binary(op, ts[0], ts[1])
                except Exception as e:
                    ctx.count("term:eager-declines:" + type(e).__name__)
                    if stream.startswith("class-"):
                        ctx.count(f"class:{stream}:eager-raises:{type(e).__name__}")
                    continue
                try:
                    E2 = L(**{v.name: t for v, t in zip(vs, ts)})
                except Exception as e:
                    E2 = None
                    ctx.count("term:subs-declines:" + type(e).__name__)
            for label, R in (("eager", E), ("subs", E2)):
                if R is None:
                    continue
                if not isinstance(R, (Tensor, Number)):
                    ctx.count(f"term:{label}-stays-lazy")
                    if R.output != L.output and not tregion:
                        self.term_fail(label + "-output", desc, op, doms, finitary, ts, L, R, region)
                    continue
                ctx.count(f"term:{label}-value")
                if stream.startswith("class-"):
                    ctx.count(f"class:{stream}:{label}-returns")
                bad = None
                if dom_key(R.output) != dom_key(L.output):
                    bad = "output"
                elif any(k not in union or union[k] != v for k, v in R.inputs.items()):
                    bad = "inputs"
                elif isinstance(R, Tensor) and tuple(R.data.shape) != tuple(v.size for v in R.inputs.values()) + tuple(R.output.shape):
                    bad = "data-shape"
                else:
                    data = np.asarray(R.data)
                    if value_defect(dom_key(R.output)[:-1] + (tuple(data.shape),), data):
                        bad = "value-range"
                if bad is None:
                    if isinstance(R, Tensor) and list(R.inputs) == list(union):
                        ctx.count("term:inputs-equal-union-in-order")
                    continue
                if bad == "value-range" and op.name in DIVISOR_OPS and not np.all(np.asarray(ts[1].data)) \
                        and region != KF_MOD_UNIT:
                    ctx.count("term:zero-divisor-skipped")
                    continue
                if region == KF_SHAPE or (region and bad == "value-range") or (tregion and bad == "output"):
                    self.known_hits.setdefault((tregion or region) + "/term",
                                               dict(desc, lazy=str(L.output), eager=str(R.output),
                                                    batch=[str(dict(t.inputs)) for t in ts],
                                                    data_shape=list(np.shape(R.data))))
                    continue
                self.term_fail(label + "-" + bad, desc, op, doms, finitary, ts, L, R, region)
                return

    def term_fail(self, what, desc, op, doms, finitary, ts, L, R, region):
        self.found += 1

        def tsrc(t):
            if isinstance(t, Number):
                return f"funsor.terms.Number({t.data!r}, {t.dtype!r})"
            ins = ", ".join(f"({k!r}, Bint[{v.size}])" for k, v in t.inputs.items())
            return (f"Tensor(np.array({np.asarray(t.data).tolist()!r}, dtype=np.{np.asarray(t.data).dtype})"
                    f".reshape({tuple(t.data.shape)!r}), OrderedDict([{ins}]), {t.dtype!r})")
        lazy = "Finitary(op, tuple(vs))" if finitary else ("Unary(op, vs[0])" if len(doms) == 1 else "Binary(op, vs[0], vs[1])")
        eager = "Finitary(op, tuple(ts))" if finitary else ("Unary(op, ts[0])" if len(doms) == 1 else "Binary(op, ts[0], ts[1])")
        if what.startswith("subs"):
            eager = "L(**{v.name: t for v, t in zip(vs, ts)})"
        self.ctx.fail("input", f"C06.term-{what}:{EXPECTED_RULE.get(op.name)}", witness=dict(desc, tensors=[str(t.inputs) for t in ts]),
                      expected=f"lazy output {L.output}; data shape = batch sizes + output shape; Bint values in range",
                      got=f"{type(R).__name__} output {R.output} inputs {dict(R.inputs)} data shape {np.shape(getattr(R, 'data', ()))}",
                      python=PY_TERM.format(what=what, op=op_src(op).replace("Ellipsis", "Ellipsis_"),
                                            doms=", ".join(dom_src(dom_key(d)) for d in doms), lazy=lazy,
                                            tensors="[" + ", ".join(tsrc(t) for t in ts) + "]", eager=eager))


# ----------------------------------------------------------------------------------------------
# streams
# ----------------------------------------------------------------------------------------------

UNARY_BATCHES = [((),), ((("i", 2),),), ((("i", 2), ("j", 3)),)]
BINARY_BATCHES = [((), ()), ((("i", 2),), (("i", 2),)), ((("i", 2),), (("j", 3),)), ((), (("j", 3),)),
                  ((("i", 2), ("j", 3)), (("j", 3), ("i", 2)))]


def np_index_reality(shape, index):
    try:
        return tuple(np.zeros(shape)[index].shape)
    except Exception:
        return None


def np_reduce_reality(shape, axis, keep):
    try:
        return tuple(np.sum(np.zeros(shape), axis=axis, keepdims=keep).shape)
    except Exception:
        return None


def streams(run, tier, full_box=False):
    ctx = run.ctx
    rng = ctx.rng
    quick = tier == "quick"
    sizes = (1, 2, 3) if quick else (1, 2, 3, 4)
    shapes = all_shapes(3, sizes)
    # zero-size dimensions (empty arrays)
    zero_shapes = [(0,), (0, 2), (2, 0), (1, 0), (0, 0)] if quick else \
        [s for s in all_shapes(2, (0, 1, 2)) if 0 in s] + [(2, 0, 3), (0, 1, 2), (2, 3, 0)]
    shapes = shapes + zero_shapes
    small_shapes = (all_shapes(3, (1, 2, 3)) + zero_shapes) if not quick else shapes
    bint_sizes = (1, 2, 3, 4) if quick else (1, 2, 3, 4, 5)
    term_p = 0.08 if quick else 0.5

    def want_term(batches, p=None):
        return batches if rng.random() < (term_p if p is None else p) else None

    # ---- pointwise unary, astype -------------------------------------------------------------
    for name in POINTWISE_UNARY:
        op = mkop(name)
        for sh in shapes:
            run.add("unary", op, [dom_of("real", sh)], term=want_term(UNARY_BATCHES))
            for n in bint_sizes:
                run.add("unary", op, [dom_of(n, sh)], variants=("max", "zero", "rand"), term=want_term(UNARY_BATCHES))
    for sh in shapes:
        run.add("unary", mkop("clamp", min=0.5, max=1.5), [dom_of("real", sh)], term=want_term(UNARY_BATCHES))
        for ax in range(-len(sh), len(sh)):
            run.add("unary", mkop("flip", axis=ax), [dom_of("real", sh)])
            run.add("unary", mkop("flip", axis=ax), [dom_of(3, sh)], variants=("max", "rand"))
        for dt in ("float", "float32", "double", "bool", "int", "int64", "uint8", "complex64", "b", "l", "bo", ""):
            op = mkop("astype", dtype=dt)
            run.add("astype", op, [dom_of("real", sh)], term=want_term(UNARY_BATCHES))
            for n in bint_sizes:
                run.add("astype", op, [dom_of(n, sh)], variants=("max", "zero"), term=want_term(UNARY_BATCHES))
    run.flush()

    # ---- reductions: every axis / keepdims ----------------------------------------------------
    for sh in shapes:
        r = len(sh)
        for ax in axis_variants(r):
            for keep in (False, True):
                real = np_reduce_reality(sh, ax, keep)
                run.add_spec(f"C06 np reduce {sx(list(sh))} {sx(enc_axis(ax))} {sx(keep)}", real, "reduce")
                for b in ((2,), (2, 3)):
                    # eager_reduction_tensor's axis rewriting on batched data: batch + declared shape
                    if r and not (isinstance(ax, int) and not -r <= ax < r) and not (
                            isinstance(ax, tuple) and any(not -r <= a < r for a in ax)):
                        run.add_spec(f"C06 eagerred {sx(list(b))} {sx(list(sh))} {sx(enc_axis(ax))} {sx(keep)}",
                                     None if real is None else tuple(b) + real, "eager-reduce-batched")
                for name in REDUCTIONS:
                    kws = dict(axis=ax, keepdims=keep)
                    ddofs = (0, 1) if name in ("std", "var") and sh in ((2,), (2, 3)) else (None,)
                    for dd in ddofs:
                        if dd is not None:
                            kws["ddof"] = dd
                        op = mkop(name, **kws)
                        run.add("reduction", op, [dom_of("real", sh)], term=want_term(UNARY_BATCHES))
                        if name in ("all", "any", "sum", "amax"):
                            run.add("reduction", op, [dom_of(2, sh)], variants=("max", "zero"),
                                    term=want_term(UNARY_BATCHES))
    # scalar operands x keepdims x every reduction, always at term level (eager_reduction_tensor's scalar branch)
    for name in REDUCTIONS:
        for ax in (None, (), 0, -1):
            for keep in (False, True):
                op = mkop(name, axis=ax, keepdims=keep)
                run.add("reduction-scalar", op, [dom_of("real", ())], term=UNARY_BATCHES)
                if name in ("all", "any"):
                    run.add("reduction-scalar", op, [dom_of(2, ())], variants=("max", "zero"), term=UNARY_BATCHES)
    run.flush()

    # ---- reshape ------------------------------------------------------------------------------
    by_count = {}
    for sh in shapes:
        by_count.setdefault(int(np.prod(sh)), []).append(sh)
    for sh in shapes:
        targets = list(by_count[int(np.prod(sh))])
        targets += [(-1,), sh + (1,), (1,) + sh, (int(np.prod(sh)) + 1,)]
        for tg in targets:
            op = mkop("reshape", shape=tuple(tg))
            run.add("reshape", op, [dom_of("real", sh)], term=want_term(UNARY_BATCHES, 0.4))
            if all(t >= 0 for t in tg):
                run.add("reshape", op, [dom_of(3, sh)], variants=("max",), term=want_term(UNARY_BATCHES, 0.4))
    run.flush()

    # ---- getitem (integer index at every offset) ---------------------------------------------------
    for sh in shapes:
        for off in range(0, len(sh) + 2):
            op = mkop("getitem", offset=off)
            real = tuple(sh[:off] + sh[off + 1:]) if off < len(sh) else None
            run.add_spec(f"C06 np getitem {sx(list(sh))} {off}", real, "getitem")
            size = sh[off] if off < len(sh) else 2
            for ldt in ("real", 3):
                run.add("getitem", op, [dom_of(ldt, sh), dom_of(size, ())], variants=(("rand", "max"), ("max", "zero")),
                        term=want_term(BINARY_BATCHES, 0.5))
    run.flush()

    # ---- getslice: every slice on rank 1, products of parts on rank <= 3 -----------------------------
    for n in sizes + (5,):
        for sl in all_slices():
            try:
                real = len(range(*sl.indices(n)))
            except ValueError:
                real = None
            run.add_spec(f"C06 np slicelen {sx(enc_part(sl)[1:])[1:-1]} {n}", real, "slicelen")
            run.add_spec(f"C06 np index {sx(enc_pval('index', sl))} {sx([n])}", np_index_reality((n,), sl), "index")
            run.add("getslice", mkop("getslice", index=sl), [dom_of("real", (n,))],
                    term=want_term(UNARY_BATCHES) if rng.random() < 0.2 else None)
    parts_pool = [None, Ellipsis, 0, 1, -1, 2, -3]
    nslice = 4 if quick else 12
    count = 0
    for sh in small_shapes:
        pool = parts_pool + some_slices(rng, nslice)
        for k in range(0, len(sh) + 3):
            limit = 60 if quick else 400
            if len(pool) ** k > limit:
                combos = [tuple(rng.randrange(len(pool)) for _ in range(k)) for _ in range(limit)]
            else:
                combos = list(itertools.product(range(len(pool)), repeat=k))
            for combo in combos:
                index = tuple(pool[i] for i in combo)
                if sum(1 for p in index if p is Ellipsis) > 1:
                    continue     # numpy rejects two Ellipses; parse_ellipsis silently drops the middle
                if k == 1 and rng.random() < 0.5:
                    index = index[0]
                try:
                    op = mkop("getslice", index=index)
                except Exception:
                    continue
                count += 1
                run.add_spec(f"C06 np index {sx(enc_pval('index', index))} {sx(list(sh))}",
                             np_index_reality(sh, index), "index")
                run.add("getslice", op, [dom_of("real", sh)], term=want_term(UNARY_BATCHES))
                if rng.random() < 0.15:
                    run.add("getslice", op, [dom_of(3, sh)], variants=("max",), term=want_term(UNARY_BATCHES))
    run.flush()

    # ---- binary: all shape pairs (real), all dtype pairs on selected shape pairs --------------------
    pair_shapes = [((), ()), ((2,), ()), ((), (3,)), ((2,), (2,)), ((2, 1), (3,)), ((2,), (3,)), ((1, 3), (2, 1, 1)),
                   ((3, 2), (3, 2))]
    bin_ops = [mkop(n) for n in GENERIC_BINARY + COMPARISONS + ("floordiv", "mod") + ASSOC_OPS]
    shape_pairs = [(a, b) for a in shapes for b in shapes]
    if quick:
        # every pair of shapes up to rank 2, plus a seeded third of the rank-3 pairs
        shape_pairs = [(a, b) for (a, b) in shape_pairs if (len(a) <= 2 and len(b) <= 2) or rng.random() < 0.12]
    for a, b in shape_pairs:
        try:
            real = tuple(np.broadcast_shapes(a, b))
        except ValueError:
            real = None
        run.add_spec(f"C06 np bc {sx(list(a))} {sx(list(b))}", real, "broadcast")
        for bt in ((2,), (3, 2)):
            run.add_spec(f"C06 eagerbin {sx(list(bt))} {sx(list(a))} {sx(list(b))}",
                         None if real is None else tuple(bt) + real, "eager-binary-batched")
        try:
            realmm = tuple(np.matmul(np.zeros(a), np.zeros(b)).shape)
        except ValueError:
            realmm = None
        run.add_spec(f"C06 np matmul {sx(list(a))} {sx(list(b))}", realmm, "matmul")
        run.add("matmul", ops.matmul, [dom_of("real", a), dom_of("real", b)], term=want_term(BINARY_BATCHES, 0.3))
        if rng.random() < 0.1:
            run.add("matmul", ops.matmul, [dom_of(3, a), dom_of(2, b)], variants=("max",), term=want_term(BINARY_BATCHES, 0.3))
        for op in bin_ops:
            if quick and (len(a) == 3 or len(b) == 3) and rng.random() < 0.5:
                continue
            run.add("binary-shapes", op, [dom_of("real", a), dom_of("real", b)],
                    term=want_term(BINARY_BATCHES) if rng.random() < 0.3 else None)
            if rng.random() < 0.2:
                run.add("binary-shapes", op, [dom_of(2, a), dom_of(3, b)], variants=(("max", "max"), ("zero", "lo1")),
                        term=want_term(BINARY_BATCHES))
    run.flush()
    dts = ("real",) + tuple(range(1, 6 if quick else 7))
    for op in bin_ops + [ops.matmul]:
        for n in dts:
            for m in dts:
                for a, b in pair_shapes:
                    if op is ops.matmul and (not a or not b):
                        continue
                    divisor = op.name in ("floordiv", "mod")
                    variants = (("max", "max"), ("max", "lo1"), ("zero", "max"), ("rand", "rand" if not divisor else "lo1"))
                    if divisor:
                        variants = (("max", "max"), ("max", "lo1"), ("zero", "max"), ("rand", "max"))
                    run.add("binary-dtypes", op, [dom_of(n, a), dom_of(m, b)], variants=variants,
                            term=want_term(BINARY_BATCHES))
    for op in [mkop(n) for n in ASSOC_OPS]:
        for n in dts:
            for sh in ((), (2,), (2, 3)):
                run.add("assoc-1-operand", op, [dom_of(n, sh)], variants=())
    run.flush()

    # ---- stack / cat ----------------------------------------------------------------------------
    fin_shapes = all_shapes(2, (1, 2, 3)) if quick else all_shapes(3, (1, 2, 3))
    for sh in fin_shapes:
        r = len(sh)
        for nparts in (1, 2, 3):
            for dim in range(-r - 2, r + 2):
                parts = [sh] * nparts
                try:
                    real = tuple(np.stack([np.zeros(p) for p in parts], dim).shape)
                except Exception:
                    real = None
                run.add_spec(f"C06 np stack {sx([list(p) for p in parts])} {dim}", real, "stack")
                op = mkop("stack", dim=dim)
                run.add("stack", op, [dom_of("real", p) for p in parts], finitary=True, term=want_term(
                    [tuple(() for _ in parts), tuple(((("i", 2),) if k % 2 == 0 else (("j", 3),)) for k in range(nparts))], 0.4))
                run.add("stack", op, [dom_of(3, p) for p in parts], finitary=True, variants=("max",))
            if r:
                # broadcastable-but-unequal parts: find_domain broadcasts, numpy raises (no claim)
                other = tuple(1 for _ in sh)
                run.add("stack", mkop("stack", dim=0), [dom_of("real", sh), dom_of("real", other)], finitary=True)
        for axis in range(-r - 1, r + 1):
            for nparts in (1, 2, 3):
                for k in range(max(r, 1)):
                    parts = []
                    for j in range(nparts):
                        p = list(sh)
                        if r:
                            p[k] = (j % 3) + 1
                        parts.append(tuple(p))
                    try:
                        real = tuple(np.concatenate([np.zeros(p) for p in parts], axis).shape)
                    except Exception:
                        real = None
                    run.add_spec(f"C06 np cat {sx([list(p) for p in parts])} {axis}", real, "cat")
                    op = mkop("cat", axis=axis)
                    run.add("cat", op, [dom_of("real", p) for p in parts], finitary=True, term=want_term(
                        [tuple(() for _ in parts), tuple((("i", 2),) for _ in parts)], 0.4))
                    run.add("cat", op, [dom_of(2, p) for p in parts], finitary=True, variants=("max",))
    run.flush()

    # ---- einsum -------------------------------------------------------------------------------------
    for ins, out in einsum_equations(quick, rng):
        eq = ins + "->" + out
        op = mkop("einsum", equation=eq)
        for trial in range(2 if quick else 4):
            size = {c: rng.choice((1, 2, 3)) for c in "abcd"}
            operands = []
            for term_ in ins.split(","):
                sh = tuple(size[c] if rng.random() < 0.93 else rng.choice((1, 2, 3)) for c in term_)
                operands.append(dom_of("real", sh))
            run.add("einsum", op, operands, finitary=True,
                    term=want_term([tuple(() for _ in operands), tuple((("i", 2),) for _ in operands)], 0.4))
    run.flush()

    # ---- classification streams: declared types that can only be reached through an exception (declines) -----------
    for a, b in (((2, 3), (3,)), ((2, 3), (1, 3)), ((3,), ()), ((1,), (2,)), ((2, 1), (2, 3))):
        for dim in (0, -1):
            run.add("class-stack-unequal-parts", mkop("stack", dim=dim), [dom_of("real", a), dom_of("real", b)],
                    finitary=True, term=[((), ()), ((("i", 2),), ())])
    for a, b, axis in (((1, 3), (2, 3), -1), ((1, 3), (2, 3), 1), ((1, 2, 3), (4, 1, 3), -1), ((1, 2), (3, 5), -1)):
        run.add("class-cat-unequal-leading", mkop("cat", axis=axis), [dom_of("real", a), dom_of("real", b)],
                finitary=True, term=[((), ()), ((("i", 2),), (("i", 2),))])
    for sh in ((3,), (3, 4), (2, 3)):
        for off in range(len(sh)):
            op = mkop("getitem", offset=off)
            for rhs in (dom_of(sh[off], (2,)), dom_of(sh[off], (2, 2)), dom_of("real", ()), dom_of("real", (2,))):
                run.add("class-getitem-rhs-not-scalar-bint", op, [dom_of("real", sh), rhs], variants=(),
                        term=BINARY_BATCHES[:3])
            # a scalar Bint of ANOTHER size is accepted and gives the declared shape
            run.add("class-getitem-rhs-other-size", op, [dom_of("real", sh), dom_of(sh[off] + 2, ())],
                    variants=(("rand", "zero"),), term=BINARY_BATCHES[:3])
    run.flush()

    # ---- dedicated stream: shape-changing unary ops without a rule (KF-generic-unary-shape) ------------
    for sh in [s for s in shapes if len(s) == 2][:9]:
        d = dom_of("real", sh)
        for op in (mkop("unsqueeze", dim=0), mkop("transpose", axis1=0, axis2=1), mkop("permute", dims=(1, 0)),
                   mkop("argmax", axis=0), mkop("argmin", axis=None), mkop("expand", shape=(2,) + sh),
                   mkop("diagonal", dim1=0, dim2=1), mkop("new_zeros", shape=(5,))):
            run.add("known-unary-shape", op, [d], term=[((),)])
    run.flush()


def product_stream(ctx, tier, use_driver=True):
    """find_domain(getslice / getitem, Product[...]) vs the Lean ProductDomain model vs Python tuple indexing, and
    Tuple-valued terms lazily vs eagerly."""
    from funsor.domains import Product
    from funsor.terms import Tuple
    rng = ctx.rng
    comps = [Array["real", ()], Array["real", (2,)], Array[3, ()], Array["real", (2, 3)], Array[2, (2,)]]
    arglists = [tuple(comps[:k]) for k in range(0, 5)] + [(comps[3], comps[0]), (comps[2],) * 3]
    slices = all_slices() if tier != "quick" else [sl for sl in all_slices() if rng.random() < 0.12] + \
        [slice(None), slice(None, None, -1), slice(1, None), slice(None, None, 0), slice(-1, 0, -2)]
    indices = list(range(-5, 5)) + slices + [None, Ellipsis] + [(0,), (slice(None),), (0, 1), ()]
    cases = [(args, ix) for args in arglists for ix in indices]
    lines = []
    ops_ = []
    for args, ix in cases:
        try:
            op = mkop("getslice", index=ix)
        except Exception:
            op = None
        ops_.append(op)
        if op is not None:
            lines.append(f"C06 fdprod {sx(enc_params(op))} {sx([enc_dom(d) for d in args])}")
    answers = iter(ctx.driver.ask(lines)) if use_driver else None
    for (args, ix), op in zip(cases, ops_):
        if op is None:
            continue
        ctx.count("stream:product-getslice")
        dom = Product[args]
        try:
            d = find_domain(op, dom)
            impl = ("arr", dom_key(d)) if hasattr(d, "dtype") else ("prod", tuple(dom_key(x) for x in d.__args__))
        except Exception as e:
            impl = ("raise", type(e).__name__)
        # Python's own tuple indexing is the reality for a product
        try:
            part = ix[0] if isinstance(ix, tuple) and len(ix) == 1 else ix
            if isinstance(part, tuple) or part is None or part is Ellipsis:
                raise TypeError
            r = args[part]
            real = ("prod", tuple(dom_key(x) for x in r)) if isinstance(r, tuple) else ("arr", dom_key(r))
        except Exception as e:
            real = ("raise", type(e).__name__)
        desc = dict(stream="product-getslice", index=repr(ix), product=[repr(dom_key(a)) for a in args])
        if impl[0] != "raise" and real[0] != "raise" and impl != real:
            ctx.fail("input", "C06.product-getslice", witness=desc, expected=f"tuple indexing gives {real}", got=str(impl),
                     python=f"from funsor import ops\nfrom funsor.domains import find_domain, Product, Array\n"
                            f"args = ({', '.join(dom_src(dom_key(a)) for a in args)},)\n"
                            f"d = find_domain(ops.GetsliceOp(index={ix!r}), Product[args])\nwant = args[{part!r}]\n"
                            f"print(d, want)\nFAILS = (tuple(d.__args__) if isinstance(want, tuple) else d) != want\n")
            ctx.case()
            continue
        if answers is not None:
            ans = next(answers)
            t = parse_sx(ans[3:]) if ans.startswith("ok ") else None
            if t is None:
                ctx.infra_errors.append(f"driver: {ans} for {desc}")
                continue
            def dk(x):
                return ("real", tuple(int(v) for v in x[1])) if x[0] == "real" else ("bint", int(x[1]), tuple(int(v) for v in x[2]))
            if t[0] == "raise":
                model = ("raise", t[1])
            elif t[0] == "arr":
                model = ("arr", dk(t[1]))
            else:
                model = ("prod", tuple(dk(x) for x in t[1:]))
            if impl[0] != "raise" and model[0] != "raise":
                if impl != model:
                    ctx.fail("correspondence", "C06.find_domain-vs-model:product-getslice", witness=None,
                             expected=f"model {model}", got=f"find_domain {impl}", detail=str(desc))
                else:
                    ctx.count("product:types-agree")
            elif (impl[0] == "raise") != (model[0] == "raise"):
                ctx.count(f"product:decline-mismatch:impl={impl[0]}:model={model[0]}")
            else:
                ctx.count("product:both-raise")
        ctx.case(nontrivial_key=("product", repr(ix), tuple(dom_key(a) for a in args)) if impl[0] != "raise" else None)
    # getitem on a product declines
    for args in arglists[1:4]:
        try:
            find_domain(ops.getitem, Product[args], Array[len(args), ()])
            ctx.count("product:getitem-returns")
        except NotImplementedError:
            ctx.count("product:getitem-declines")
        ctx.case()
    # Tuple-valued terms: lazy vs eager declaration
    for nb in (0, 1, 2):
        for k in (1, 2, 3):
            parts = []
            for j in range(k):
                ins = OrderedDict((n, Bint[s]) for n, s in [("a", 2), ("b", 3)][:nb] if (j + nb) % 2 == 0 or n == "a")
                ev = [(), (2,), (2, 3)][j % 3]
                parts.append(Tensor(np.ones(tuple(v.size for v in ins.values()) + ev), ins))
            for ix in [0, -1, k - 1, slice(None), slice(0, 1), slice(None, None, -1), slice(1, None)]:
                ctx.count("stream:tuple-terms")
                try:
                    with reflect:
                        L = Tuple(tuple(parts))[ix]
                    E = Tuple(tuple(parts))[ix]
                except Exception as e:
                    ctx.count("tuple-terms:declines:" + type(e).__name__)
                    ctx.case()
                    continue
                want = Tuple(tuple(parts)).output.__args__[ix]
                want = Product[want] if isinstance(want, tuple) else want
                exp_in = OrderedDict()
                for p_ in parts:
                    exp_in.update(p_.inputs)
                ok = (L.output == want and E.output == want and dict(L.inputs) == dict(exp_in)
                      and all(k_ in L.inputs and L.inputs[k_] == v for k_, v in E.inputs.items()))
                if not ok:
                    ctx.fail("input", "C06.tuple-term-declaration",
                             witness=dict(stream="tuple-terms", index=repr(ix), parts=[str(p_.inputs) + str(p_.output) for p_ in parts]),
                             expected=f"output {want} inputs {dict(exp_in)}",
                             got=f"lazy {L.output} {dict(L.inputs)}; eager {E.output} {dict(E.inputs)}")
                ctx.case(nontrivial_key=("tuple-term", nb, k, repr(ix)))


def report_known(ctx, run):
    for fid in (KF_INT, KF_FLOORDIV, KF_BITWISE, KF_SHAPE, KF_MOD_UNIT):
        hit = run.known_hits.get(fid) or run.known_hits.get(fid + "/term")
        ctx.extra.setdefault("known_regions", {})[fid] = dict(cases=run.known_seen.get(fid, 0), witness=hit,
                                                             listed=ctx.is_open(fid))
        if not run.known_seen.get(fid):
            continue
        if fid in PENDING and not ctx.is_open(fid):
            # reported to the integrator, not (yet) listed: recorded in the evidence, not gated
            ctx.extra.setdefault("unlisted_findings", {})[fid] = dict(what=KF_WHAT[fid], witness=hit)
            continue
        ok = ctx.known(fid, reproduced=hit is not None,
                       what=f"{KF_WHAT[fid]}; e.g. {hit}" if hit else KF_WHAT[fid])
        if not ok and hit is not None:
            # not (or no longer) listed as open: a plain violation
            ctx.fail("input", f"C06.{fid}", witness=hit, expected="values inside the declared domain",
                     got=str(hit))


def table_checks(ctx):
    """Python-side echo of the Gen-table obligations (so that `search` can name the counter-entry)."""
    rows = getattr(ctx, "_c06_rows", None) or op_table()
    rules = getattr(ctx, "_c06_rules", None) or _ast_find_domain_rules()
    by_rule = {r[0]: r for r in rules}
    bad = []
    for row in rows:
        r = by_rule.get(row["rule"])
        if r is None:
            continue
        declared = [p for p, _ in row["params"]]
        for k in r[2] + r[3]:
            if k not in declared:
                bad.append((row["name"], row["rule"], k, declared))
        exp = EXPECTED_RULE.get(row["name"])
        if exp is not None and exp != row["rule"]:
            bad.append((row["name"], "dispatched-to", row["rule"], exp))
    return bad


def correspond(ctx):
    ctx.rule = (
        "box: every op of the catalogue (pointwise unary, astype, 10 reductions, reshape, getitem, getslice, generic/"
        "comparison/floordiv/mod/associative binaries, matmul, stack, cat, einsum) x operand domains of rank <= 3, sizes "
        "<= 3 (thorough: 4), dtype real or Bint[1..5]; reductions: every axis (None, ints, all signed subsets, (), "
        "out-of-range, duplicate) x keepdims; getitem: every offset; getslice: every slice with bounds/steps in "
        "{None,0,±1,±2,±3,±5} on rank 1 and (sampled) products of None/Ellipsis/int/slice parts on rank <= 3; binaries: "
        "all shape pairs up to rank 2 and a seeded part of rank 3 (thorough: all) for real operands, all dtype pairs on 8 "
        "shape pairs; Bint arrays at all-max / all-zero / smallest-divisor / random values.  For each case: find_domain vs "
        "Lean model, op on arrays vs declared shape and range, numpy shape vs Lean np-spec; for a seeded fraction, "
        "the lazy term over Variables (reflect) vs the eager result on Tensors/Numbers with 0-2 batch inputs and vs "
        "substitution into the lazy term.  Term constructors (c06_terms.py): Lambda (bound variable present/absent, "
        "size 1..3), Stack, Cat (part_name =/!= name), Reduce (named, incl. absent variables), Subs (numbers, renames, "
        "index tensors, slices, swaps), Slice, Align, getitem chains with funsor indices, Independent, Binary over "
        "Variables (Contraction via normalize), exhaustively over 0-2 batch inputs x event rank 0-2 x {real, Bint[3]}: "
        "reflect-built declaration vs an own typing function, eager and reinterpreted result vs the declaration "
        "(output, inputs subset, data shape, Bint range); plus random fv/gen_terms recipes.  Non-trivial = the rule returned a domain and the op returned an array; "
        "distinct by (op, parameters, operand domains).")
    run = Run(ctx)
    streams(run, ctx.tier)
    report_known(ctx, run)
    product_stream(ctx, ctx.tier)
    from . import c06_terms
    c06_terms.run_constructors(ctx, ctx.tier)
    bad = table_checks(ctx)
    ctx.extra["table_counter_entries"] = bad[:10]
    obs = {k: v for k, v in ctx.distribution.items() if k.startswith("class:")}
    ctx.extra["classification"] = {
        "stack/cat: find_domain broadcasts part shapes, numpy requires equal shapes": dict(
            verdict="decline", why="np.stack / np.concatenate raise ValueError for unequal parts (arrays, Tensors with or "
            "without batch inputs, Number parts); no value is ever returned against the declared shape",
            observed={k: v for k, v in obs.items() if "stack" in k or "cat" in k}),
        "_find_domain_getitem ignores the rhs domain": dict(
            verdict="decline", why="eager rules assert rhs.output == Bint[size] (AssertionError), x[idx] raises ValueError "
            "'Output mismatch', a real index raises IndexError; a scalar Bint of another size indexes fine and yields the "
            "declared shape.  (Only the raw array op with an index ARRAY returns a differently shaped result; that is not a "
            "typed funsor call.)", observed={k: v for k, v in obs.items() if "getitem" in k}),
        "one-operand associative clause keeps Bint[n]": dict(
            verdict="covered by KF-reduce-int-range", why="Unary(AssociativeOp, Tensor) raises AssertionError, .sum() on Bint "
            "raises NotImplementedError; the clause is only reached through Tensor.eager_reduce (named Reduce), which is the "
            "dedicated stream reduce-bint-addmul"),
        "Bint[n] % Bint[1] declares Bint[0]": dict(
            verdict="finding " + KF_MOD_UNIT, why="Tensor % Tensor returns 0 (numpy RuntimeWarning, no exception) in an empty "
            "type; Number % Number raises ZeroDivisionError", listed=ctx.is_open(KF_MOD_UNIT)),
        "astype: `dtype in (\"bool\")` substring test": dict(
            verdict="finding, FIXED in /repo (== \"bool\")", why="'b' and 'l' are valid numpy dtype codes (int8/int64) and were "
            "typed Bint[2] (ops.astype(Tensor(3.0), 'b') : Bint[2], data 3); now NotImplementedError.  The dtype strings "
            "'b', 'l', 'bo', '' are enumerated in the clean astype stream, so a revert is caught by the range gate"),
        "KF-reduce-andor-logical-on-ints": dict(
            verdict="not a C06 violation", why="Reduce(and_/or_) over Bint[n] data returns bool data (np.all/np.any): values "
            "0/1 lie inside [0,n) and the shape is the declared one — a wrong VALUE (C01), the declaration is honoured; "
            "enumerated in the clean constructor stream (reduce-andor-bint)"),
    }
    ctx.exhaustive = False
    ctx.assumptions.append("numpy's result shapes are taken as the ground truth of the array ops (np-spec in Lean is "
                           "compared against numpy on every enumerated shape/parameter)")
    ctx.assumptions.append("Bint value ranges are observed on arrays holding the extreme values (all-max, all-zero, "
                           "smallest non-zero divisor) and random values; the unbounded claim is the arithmetic theorems'")
    ctx.assumptions.append("wrapped_transform / log_abs_det_jacobian (need torch/numpyro transform objects) and "
                           "ProductDomain operands are outside the model")


def search(ctx, broken):
    """A proof, table obligation or the model tie broke: hunt for a concrete (op, domains) whose declared type the
    real array op / eager Tensor result contradicts (numpy and funsor's own eager results are the oracle; Lean is
    not used)."""
    before = sum(1 for f in ctx.failures if f.witness is not None)
    # 1. counter-entries of the table obligations, replayed on the real code
    for name, rule, key, declared in table_checks(ctx):
        if rule == "dispatched-to":
            continue
        ctx.extra.setdefault("table_counter_entries", []).append((name, rule, key, declared))
    run = Run(ctx, use_driver=False)
    streams(run, "quick")
    from . import c06_terms
    product_stream(ctx, "thorough", use_driver=False)
    c06_terms.run_constructors(ctx, "thorough", report=False)
    if sum(1 for f in ctx.failures if f.witness is not None) > before:
        return
    run = Run(ctx, use_driver=False)
    streams(run, "thorough")
