"""
C06, term-constructor stream: declared type of the lazy term vs declared type and DATA of the eager result,
for the term constructors other than single ops:

    Lambda (bound variable present / absent in the body, size 1 and > 1), Stack, Cat (part_name = / != name),
    Independent, Reduce (named variables, incl. absent ones), Subs (numbers, renames, index tensors), Slice,
    getitem chains with funsor indices, Align, Binary over Variables (Contraction via normalize).

A case is a small recipe.  `type_of(recipe)` is this module's own typing function, written after each class's
`__init__` (funsor/terms.py, funsor/cnf.py); `build(recipe)` constructs the term through the class
constructors under whatever interpretation is active.  Gates:

    reflect  : the lazy term declares exactly type_of's inputs and output
    eager    : (built eagerly, and the reflect-built term reinterpreted eagerly) same output domain,
               inputs ⊆ declared with equal domains, `.data.shape == batch sizes + output.shape`,
               bounded-integer data inside [0, size)

plus, for volume, random recipes of fv/gen_terms.py built under reflect vs eager with the same gates
(no typing function there: the reflect-built term's own declaration is the reference).
"""
import itertools
from collections import OrderedDict

import numpy as np

from ..futil import funsor, Tensor, Bint, Real, Reals, ops, Variable

from funsor.domains import Array
from funsor.terms import (Align, Binary, Cat, Funsor, Independent, Lambda, Number, Reduce, Slice, Stack, Subs,
                          Unary)
from funsor.interpretations import reflect
from funsor.interpreter import reinterpret

KF_REDUCE = "KF-reduce-int-range"


class PadTransform:
    """Duck-typed stand-in for a backend Transform with shape metadata (event_dim 1): appends `k` zeros to the
    last axis, so forward_shape changes the event shape.  Used to exercise `_transform_find_domain`."""

    def __init__(self, k):
        from types import SimpleNamespace
        self.k = k
        self.__name__ = f"pad{k}"
        self.domain = SimpleNamespace(event_dim=1)
        self.codomain = SimpleNamespace(event_dim=1)

    def forward_shape(self, shape):
        return tuple(shape[:-1]) + (shape[-1] + self.k,)

    def __call__(self, x):
        return np.concatenate([x, np.zeros(x.shape[:-1] + (self.k,), dtype=x.dtype)], -1)


_TRANSFORMS = {}


def pad_transform(k):
    if k not in _TRANSFORMS:
        _TRANSFORMS[k] = PadTransform(k)
    return _TRANSFORMS[k]
OPS = {"add": ops.add, "mul": ops.mul, "max": ops.max, "min": ops.min, "logaddexp": ops.logaddexp,
       "sub": ops.sub, "and_": ops.and_, "or_": ops.or_}


# ----------------------------------------------------------------------------------------------
# recipes: build + typing function
# ----------------------------------------------------------------------------------------------

def tensor(rng, ins, dtype="real", event=()):
    """("tensor", ((name,size)…), dtype, event, data) with data inside the declared domain."""
    shape = tuple(s for _, s in ins) + tuple(event)
    n = int(np.prod(shape)) if shape else 1
    if dtype == "real":
        data = np.array([rng.choice([-1.0, 0.0, 0.5, 1.0, 2.0, 3.0]) for _ in range(n)], dtype=np.float64).reshape(shape)
    else:
        vals = [rng.choice([0, dtype - 1, rng.randrange(dtype)]) for _ in range(n)]
        data = np.array(vals, dtype=np.int64).reshape(shape)
    return ("tensor", tuple(ins), dtype, tuple(event), data)


def build(r):
    tag = r[0]
    if tag == "tensor":
        _, ins, dtype, ev, data = r
        return Tensor(data, OrderedDict((n, Bint[s]) for n, s in ins), dtype)
    if tag == "num":
        return Number(r[1], r[2])
    if tag == "var":
        return Variable(r[1], Array[r[2], tuple(r[3])])
    if tag == "lambda":
        return Lambda(Variable(r[1], Bint[r[2]]), build(r[3]))
    if tag == "stack":
        return Stack(r[1], tuple(build(p) for p in r[2]))
    if tag == "cat":
        return Cat(r[1], tuple(build(p) for p in r[2]), r[3])
    if tag == "independent":
        return Independent(build(r[1]), r[2], r[3], r[4])
    if tag == "reduce":
        a = build(r[2])
        return Reduce(OPS[r[1]], a, frozenset(Variable(n, Bint[s]) for n, s in r[3]))
    if tag == "subs":
        return Subs(build(r[1]), tuple((k, build(v)) for k, v in r[2]))
    if tag == "slice":
        return Slice(r[1], r[2], r[3], r[4], r[5])
    if tag == "getitem":
        x = build(r[1])
        idx = tuple(slice(None) if p == ":" else build(p) for p in r[2])
        return x[idx if len(idx) != 1 else idx[0]]
    if tag == "align":
        return Align(build(r[1]), tuple(r[2]))
    if tag == "binary":
        return Binary(OPS[r[1]], build(r[2]), build(r[3]))
    if tag == "tupleget":
        from funsor.terms import Tuple
        return Tuple(tuple(build(p) for p in r[1]))[r[2]]
    if tag == "transform":
        return Unary(ops.WrappedTransformOp(fn=pad_transform(r[1])), build(r[2]))
    raise ValueError(tag)


def bint_assoc(op, n, m):
    if op == "add":
        return n + m - 1
    if op == "mul":
        return (n - 1) * (m - 1) + 1
    if op == "max":
        return max(n, m)
    if op == "min":
        return min(n, m)
    if op in ("and_", "or_"):
        return 2
    raise NotImplementedError


def bc(a, b):
    return tuple(np.broadcast_shapes(tuple(a), tuple(b)))


def type_of(r):
    """(inputs : OrderedDict name -> (dtype, shape), output : (dtype, shape)) following each class's __init__."""
    tag = r[0]
    if tag == "tensor":
        _, ins, dtype, ev, data = r
        return OrderedDict((n, (s, ())) for n, s in ins), (dtype, tuple(ev))
    if tag == "num":
        return OrderedDict(), (r[2], ())
    if tag == "var":
        return OrderedDict([(r[1], (r[2], tuple(r[3])))]), (r[2], tuple(r[3]))
    if tag == "lambda":                      # terms.py Lambda.__init__
        ins, (dt, sh) = type_of(r[3])
        ins = ins.copy()
        ins.pop(r[1], None)
        return ins, (dt, (r[2],) + sh)
    if tag == "stack":                       # Stack.__init__: new input first, then the parts' inputs
        parts = [type_of(p) for p in r[2]]
        ins = OrderedDict([(r[1], (len(parts), ()))])
        for pi, _ in parts:
            ins.update(pi)
        return ins, parts[0][1]
    if tag == "cat":                         # Cat.__init__: parts' inputs, part_name deleted, name appended
        _, name, parts_r, part_name = r
        parts = [type_of(p) for p in parts_r]
        ins = OrderedDict()
        for pi, _ in parts:
            ins.update(pi)
        del ins[part_name]
        ins[name] = (sum(pi[part_name][0] for pi, _ in parts), ())
        return ins, parts[0][1]
    if tag == "independent":                 # Independent.__init__
        _, fn, reals_var, bint_var, diag_var = r
        ins, out = type_of(fn)
        ins = ins.copy()
        ddt, dsh = ins.pop(diag_var)
        n = ins.pop(bint_var)[0]
        ins[reals_var] = (ddt, (n,) + dsh)
        return ins, out
    if tag == "reduce":                      # Reduce.__init__
        ins, out = type_of(r[2])
        names = {n for n, _ in r[3]}
        return OrderedDict((k, v) for k, v in ins.items() if k not in names), out
    if tag == "subs":                        # Subs.__init__
        ins, out = type_of(r[1])
        ins = ins.copy()
        for k, _ in r[2]:
            del ins[k]
        for _, v in r[2]:
            ins.update(type_of(v)[0])
        return ins, out
    if tag == "slice":                       # Slice.__init__
        _, name, start, stop, step, dtype = r
        return OrderedDict([(name, (max(0, (stop + step - 1 - start) // step), ()))]), (dtype, ())
    if tag == "getitem":                     # Funsor.__getitem__ -> Binary(GetitemOp(offset), …) per funsor part
        ins, (dt, sh) = type_of(r[1])
        ins = ins.copy()
        sh = list(sh)
        offset = 0
        for p in r[2]:
            if p == ":":
                offset += 1
            else:
                pi, _ = type_of(p)
                ins.update(pi)
                del sh[offset]
        return ins, (dt, tuple(sh))
    if tag == "align":                       # Align.__init__
        ins, out = type_of(r[1])
        new = OrderedDict((n, ins[n]) for n in r[2])
        new.update(ins)
        return new, out
    if tag == "binary":                      # Binary.__init__ / Contraction.__init__ (cnf.py:48-83)
        li, (ld, ls) = type_of(r[2])
        ri, (rd, rs) = type_of(r[3])
        ins = li.copy()
        ins.update(ri)
        if ld == "real" or rd == "real":
            if r[1] == "sub" and ld != rd:
                raise NotImplementedError
            dt = "real"
        elif r[1] == "sub":
            dt = ld
        else:
            dt = bint_assoc(r[1], ld, rd)
        return ins, (dt, bc(ls, rs))
    if tag == "tupleget":                    # Tuple.__init__ + find_domain(getslice, Product[...]) with an int index
        parts = [type_of(p) for p in r[1]]
        ins = OrderedDict()
        for pi, _ in parts:
            ins.update(pi)
        return ins, parts[r[2]][1]
    if tag == "transform":                   # _transform_find_domain: fn.forward_shape(domain.shape), same dtype
        ins, (dt, sh) = type_of(r[2])
        if not sh:
            raise NotImplementedError
        return ins, (dt, tuple(sh[:-1]) + (sh[-1] + r[1],))
    raise ValueError(tag)


def key_of_domain(d):
    return ("real" if d.dtype == "real" else int(d.dtype), tuple(int(s) for s in d.shape))


def describe(r):
    if isinstance(r, np.ndarray):
        return r.tolist()
    if isinstance(r, tuple):
        return [describe(x) for x in r]
    return r


def python_of(r):
    tag = r[0]
    if tag == "tensor":
        _, ins, dtype, ev, data = r
        d = f"np.array({data.tolist()!r}, dtype=np.{data.dtype}).reshape({tuple(data.shape)!r})"
        return f"Tensor({d}, OrderedDict([{', '.join(f'({n!r}, Bint[{s}])' for n, s in ins)}]), {dtype!r})"
    if tag == "num":
        return f"Number({r[1]!r}, {r[2]!r})"
    if tag == "var":
        return f"Variable({r[1]!r}, Array[{r[2]!r}, {tuple(r[3])!r}])"
    if tag == "lambda":
        return f"Lambda(Variable({r[1]!r}, Bint[{r[2]}]), {python_of(r[3])})"
    if tag == "stack":
        return f"Stack({r[1]!r}, ({', '.join(python_of(p) for p in r[2])},))"
    if tag == "cat":
        return f"Cat({r[1]!r}, ({', '.join(python_of(p) for p in r[2])},), {r[3]!r})"
    if tag == "independent":
        return f"Independent({python_of(r[1])}, {r[2]!r}, {r[3]!r}, {r[4]!r})"
    if tag == "reduce":
        vs = ", ".join(f"Variable({n!r}, Bint[{s}])" for n, s in r[3])
        return f"Reduce(ops.{OPS[r[1]].name}, {python_of(r[2])}, frozenset([{vs}]))"
    if tag == "subs":
        return f"Subs({python_of(r[1])}, ({', '.join(f'({k!r}, {python_of(v)})' for k, v in r[2])},))"
    if tag == "slice":
        return f"Slice({r[1]!r}, {r[2]}, {r[3]}, {r[4]}, {r[5]})"
    if tag == "getitem":
        idx = ", ".join("slice(None)" if p == ":" else python_of(p) for p in r[2])
        return f"({python_of(r[1])})[{idx}]" if len(r[2]) == 1 else f"({python_of(r[1])})[({idx},)]"
    if tag == "align":
        return f"Align({python_of(r[1])}, {tuple(r[2])!r})"
    if tag == "binary":
        return f"Binary(ops.{OPS[r[1]].name}, {python_of(r[2])}, {python_of(r[3])})"
    if tag == "tupleget":
        return f"Tuple(({', '.join(python_of(p) for p in r[1])},))[{r[2]}]"
    if tag == "transform":
        return f"Unary(ops.WrappedTransformOp(fn=PAD[{r[1]}]), {python_of(r[2])})"
    raise ValueError(tag)


PY = """
# replay for C06 ({what}): lazy declaration vs eager result of a term constructor
import numpy as np
from collections import OrderedDict
import funsor; funsor.set_backend("numpy")
from funsor import ops, Variable, Tensor, Bint
from funsor.domains import Array, Real, Reals
from funsor.terms import *
from funsor.interpretations import reflect
from funsor.interpreter import reinterpret
from types import SimpleNamespace
class PadTransform:
    def __init__(self, k):
        self.k = k; self.__name__ = "pad%d" % k
        self.domain = SimpleNamespace(event_dim=1); self.codomain = SimpleNamespace(event_dim=1)
    def forward_shape(self, shape): return tuple(shape[:-1]) + (shape[-1] + self.k,)
    def __call__(self, x): return np.concatenate([x, np.zeros(x.shape[:-1] + (self.k,), dtype=x.dtype)], -1)
PAD = {{k: PadTransform(k) for k in (0, 1, 2)}}
def mk():
    return {expr}
with reflect:
    L = mk()
E = {eager}
print("lazy ", type(L).__name__, dict(L.inputs), L.output)
print("eager", type(E).__name__, dict(E.inputs), E.output, getattr(getattr(E, "data", None), "shape", None))
FAILS = L.output != E.output or any(k not in L.inputs or L.inputs[k] != v for k, v in E.inputs.items())
if isinstance(E, Tensor):
    FAILS = FAILS or tuple(E.data.shape) != tuple(v.size for v in E.inputs.values()) + tuple(E.output.shape)
    if E.output.dtype != "real" and E.data.size:
        a = np.asarray(E.data).astype(float)
        FAILS = FAILS or not ((a == np.floor(a)).all() and a.min() >= 0 and a.max() < E.output.dtype)
FAILS = bool(FAILS)
"""


# ----------------------------------------------------------------------------------------------
# checking one recipe
# ----------------------------------------------------------------------------------------------

def result_defect(L, R):
    """None, or what is wrong with the eager result R relative to the lazy declaration L."""
    if key_of_domain(R.output) != key_of_domain(L.output):
        return "output"
    for k, v in R.inputs.items():
        if k not in L.inputs or L.inputs[k] != v:
            return "inputs"
    if isinstance(R, Tensor):
        if tuple(R.data.shape) != tuple(v.size for v in R.inputs.values()) + tuple(R.output.shape):
            return "data-shape"
        if R.output.dtype != "real" and R.data.size:
            a = np.asarray(R.data).astype(np.float64)
            if not (np.all(np.isfinite(a)) and np.all(a == np.floor(a)) and a.min() >= 0 and a.max() < R.output.dtype):
                return "value-range"
    elif isinstance(R, Number):
        if R.output.dtype != "real":
            v = float(R.data)
            if not (v == np.floor(v) and 0 <= v < R.output.dtype):
                return "value-range"
    return None


class Decl:
    """A declaration predicted by `type_of`, standing in for the lazy term where reflect cannot build it."""

    def __init__(self, pin, pout):
        self.inputs = OrderedDict((k, Array[dt, tuple(sh)]) for k, (dt, sh) in pin.items())
        self.output = Array[pout[0], tuple(pout[1])]


class TermRun:
    def __init__(self, ctx):
        self.ctx = ctx
        self.known_hit = {}
        self.known_seen = {}

    def check(self, kind, r, predicted=True, builder=build, pyfn=python_of, region=None):
        ctx = self.ctx
        ctx.count(f"ctor:{kind}")
        if region:
            self.known_seen[region] = self.known_seen.get(region, 0) + 1
        desc = dict(stream="constructor", kind=kind, recipe=describe(r))
        try:
            with reflect:
                L = builder(r)
        except Exception as e:
            # reflect cannot build it (e.g. Reduce over a variable absent from the argument: KeyError in
            # _alpha_convert) — a decline; the eager result is then held against the predicted declaration
            ctx.count(f"ctor:{kind}:lazy-raises:{type(e).__name__}")
            L = None
            if predicted:
                try:
                    L = Decl(*type_of(r))
                except NotImplementedError:
                    L = None
            if L is None:
                ctx.case()
                return
        if predicted and not isinstance(L, Decl):
            try:
                pin, pout = type_of(r)
            except NotImplementedError:
                pin = None
            if pin is not None:
                got_in = OrderedDict((k, key_of_domain(v)) for k, v in L.inputs.items())
                if dict(got_in) != dict(pin) or key_of_domain(L.output) != pout:
                    ctx.fail("input", f"C06.ctor-lazy-declaration:{kind}", witness=desc,
                             expected=f"inputs {dict(pin)} output {pout}",
                             got=f"inputs {dict(got_in)} output {key_of_domain(L.output)}",
                             python=PY.format(what="lazy declaration", expr=pyfn(r), eager="mk()"))
                    ctx.case()
                    return
                ctx.count("ctor:lazy-as-predicted")
                if list(got_in) == list(pin):
                    ctx.count("ctor:lazy-input-order-as-predicted")
        nontrivial = None
        for label, thunk, src in (("eager", lambda: builder(r), "mk()"),
                                  ("reinterpret", lambda: reinterpret(L), "reinterpret(L)")):
            if label == "reinterpret" and isinstance(L, Decl):
                continue
            with np.errstate(all="ignore"):
                try:
                    R = thunk()
                except Exception as e:
                    ctx.count(f"ctor:{kind}:{label}-declines:{type(e).__name__}")
                    continue
            if not isinstance(R, Funsor):
                continue
            ctx.count(f"ctor:{label}-" + ("value" if isinstance(R, (Tensor, Number)) else "lazy"))
            bad = result_defect(L, R)
            if isinstance(R, Tensor) and R.output.dtype != "real" and np.asarray(R.data).dtype == bool:
                ctx.count(f"ctor:{kind}:bint-declared-bool-data")
            if bad == "value-range" and region:
                self.known_hit.setdefault(region, dict(desc, lazy=str(L.output), eager=str(R.output),
                                                       data=np.asarray(R.data).tolist()))
                continue
            if bad:
                ctx.fail("input", f"C06.ctor-{label}-{bad}:{kind}", witness=desc,
                         expected=f"declared ({type(L).__name__}) inputs {dict(L.inputs)} output {L.output}; data shape = batch "
                                  f"sizes + output shape; Bint values in range",
                         got=f"{type(R).__name__} inputs {dict(R.inputs)} output {R.output} data shape "
                             f"{np.shape(getattr(R, 'data', ()))}",
                         python=PY.format(what=f"{kind} {label} {bad}", expr=pyfn(r), eager=src))
                break
            if isinstance(R, (Tensor, Number)):
                nontrivial = ("ctor", kind, repr(describe(r)))
        ctx.case(nontrivial_key=nontrivial)


# ----------------------------------------------------------------------------------------------
# enumeration per constructor
# ----------------------------------------------------------------------------------------------

BATCHES = [(), (("a", 2),), (("a", 2), ("b", 3)), (("b", 3), ("a", 2))]
EVENTS = [(), (2,), (3,), (2, 3), (1, 2)]
DTYPES = ["real", 3]


def constructor_cases(run, tier):
    ctx = run.ctx
    rng = ctx.rng
    quick = tier == "quick"
    events = EVENTS if not quick else EVENTS[:4]

    def T(ins, dt="real", ev=()):
        return tensor(rng, ins, dt, ev)

    # ---- Lambda: bound variable present (each position) / absent, size 1 and > 1 ----------------------
    for batch, ev, dt in itertools.product(BATCHES, events, DTYPES):
        for size in (1, 2, 3):
            run.check("lambda-absent", ("lambda", "i", size, T(batch, dt, ev)))
            for pos in range(len(batch) + 1):
                ins = batch[:pos] + (("i", size),) + batch[pos:]
                run.check("lambda-present", ("lambda", "i", size, T(ins, dt, ev)))
            # nested: Lambda(j, Lambda(i, c)) with both, one or none present
            run.check("lambda-nested", ("lambda", "j", 2, ("lambda", "i", size, T(batch + (("j", 2),), dt, ev))))
            run.check("lambda-nested", ("lambda", "j", 2, ("lambda", "i", size, T(batch, dt, ev))))
            # Lambda then getitem with a Variable / Number / index tensor  (Lambda(i, c)[k] == c)
            lam = ("lambda", "i", size, T(batch, dt, ev))
            run.check("lambda-getitem", ("getitem", lam, (("num", size - 1, size),)))
            run.check("lambda-getitem", ("getitem", lam, (("var", "k", size, ()),)))
            run.check("lambda-getitem", ("getitem", lam, (T((("c", 2),), size),)))

    # ---- Stack ----------------------------------------------------------------------------------------
    for ev, dt in itertools.product(events, DTYPES):
        for nparts in (1, 2, 3):
            for bsel in itertools.product(BATCHES[:3], repeat=nparts):
                if nparts == 3 and rng.random() < (0.7 if quick else 0.3):
                    continue
                run.check("stack", ("stack", "s", tuple(T(b, dt, ev) for b in bsel)))
        run.check("stack", ("stack", "s", (T((), dt, ev), ("lambda", "i", 1, T((), dt, ev[1:])) if ev and ev[0] == 1
                                     else T((("a", 2),), dt, ev))))

    # ---- Cat: part_name = name and != name -------------------------------------------------------------
    for ev, dt in itertools.product(events, DTYPES):
        for sizes in ((2,), (1, 2), (2, 1, 3), (1, 1)):
            for extra in ((), (("a", 2),), (("b", 3), ("a", 2))):
                for pos in range(len(extra) + 1):
                    for name, part_name in (("x", "x"), ("y", "x")):
                        parts = tuple(T(extra[:pos] + ((part_name, s),) + extra[pos:], dt, ev) for s in sizes)
                        run.check("cat", ("cat", name, parts, part_name))
                # parts with different extra inputs
                parts = tuple(T((("x", s),) + (extra if k % 2 == 0 else ()), dt, ev) for k, s in enumerate(sizes))
                run.check("cat", ("cat", "x", parts, "x"))
                run.check("cat", ("cat", "z", parts, "x"))

    # ---- Reduce: named variables, incl. absent ones -----------------------------------------------------
    allin = (("a", 2), ("b", 3), ("c", 1))
    for ev in events:
        for k in range(0, 4):
            for ins in itertools.combinations(allin, k):
                for rk in range(1, len(ins) + 1):
                    for red in itertools.combinations(ins, rk):
                        for absent in ((), (("z", 2),), (("z", 1), ("w", 3))):
                            if quick and absent and rng.random() < 0.5:
                                continue
                            for op in ("add", "mul", "max", "min", "logaddexp"):
                                run.check("reduce", ("reduce", op, T(ins, "real", ev), tuple(red) + absent))
                            for op in ("max", "min"):
                                run.check("reduce", ("reduce", op, T(ins, 3, ev), tuple(red) + absent))
                            if not absent:
                                # and_/or_ over Bint data: eager is np.all/np.any (logical, bool data: a wrong VALUE
                                # for n > 2, KF-reduce-andor-logical-on-ints / C01) — the declared Bint[n] is honoured
                                for op in ("and_", "or_"):
                                    run.check("reduce-andor-bint", ("reduce", op, T(ins, 3, ev), tuple(red)))
                            for op in (("add", "mul") if not absent else ()):
                                run.check("reduce-bint-addmul", ("reduce", op, T(ins, 3, ev), tuple(red) + absent),
                                          region=KF_REDUCE)
        run.check("reduce", ("reduce", "add", T((("a", 2),), "real", ev), (("z", 3),)))

    # ---- Subs: numbers, renames, index tensors, slices --------------------------------------------------
    for ev, dt in itertools.product(events, DTYPES):
        for ins in ((("a", 2),), (("a", 2), ("b", 3)), (("b", 3), ("a", 2)), (("a", 2), ("b", 3), ("c", 2))):
            base = T(ins, dt, ev)
            for name, size in ins:
                others = [n for n, _ in ins if n != name]
                run.check("subs-number", ("subs", base, ((name, ("num", size - 1, size)),)))
                run.check("subs-rename", ("subs", base, ((name, ("var", "r", size, ())),)))
                run.check("subs-index", ("subs", base, ((name, T((("k", 2),), size)),)))
                run.check("subs-index", ("subs", base, ((name, T((("k", 2), ("l", 3)), size)),)))
                if others:
                    # index tensor that depends on another input of the argument (diagonal-like)
                    o = others[0]
                    run.check("subs-index-shared", ("subs", base, ((name, T(((o, dict(ins)[o]),), size)),)))
                    # two substitutions at once: a number and a rename / swap
                    run.check("subs-two", ("subs", base, ((name, ("num", 0, size)), (o, ("var", "q", dict(ins)[o], ())))))
                for start, stop, step in ((0, size, 1), (0, size, 2), (1, size, 1), (size, size, 1)):
                    run.check("subs-slice", ("subs", base, ((name, ("slice", "t", start, stop, step, size)),)))
            if len(ins) >= 3:
                (n1, s1), (n2, s2) = ins[0], ins[2]
                if s1 == s2:
                    run.check("subs-swap", ("subs", base, ((n1, ("var", n2, s2, ())), (n2, ("var", n1, s1, ())))))

    # ---- Slice on its own, Align ------------------------------------------------------------------------
    for start, stop, step, dtype in itertools.product((0, 1, 2), (0, 1, 2, 3, 5), (1, 2, 3), (5, 6)):
        if stop >= start and stop <= dtype:
            run.check("slice", ("slice", "t", start, stop, step, dtype))
    for ev, dt in itertools.product(events, DTYPES):
        ins = (("a", 2), ("b", 3), ("c", 2))
        for k in range(0, 4):
            for names in itertools.permutations([n for n, _ in ins], k):
                run.check("align", ("align", T(ins, dt, ev), names))

    # ---- getitem chains with funsor indices ----------------------------------------------------------------
    for batch, dt in itertools.product(BATCHES[:3], DTYPES):
        for ev in ((2,), (3,), (2, 3), (3, 2), (2, 3, 2)):
            base = T(batch, dt, ev)
            idxs = lambda size: (("num", size - 1, size), ("var", "k", size, ()), T((("m", 2),), size),
                                 T(batch[:1], size) if batch else ("num", 0, size))
            for i0 in idxs(ev[0]):
                run.check("getitem", ("getitem", base, (i0,)))
                if len(ev) >= 2:
                    for i1 in idxs(ev[1]):
                        if i1[0] == "var":
                            i1 = ("var", "k2", ev[1], ())
                        run.check("getitem-chain", ("getitem", base, (i0, i1)))
                        run.check("getitem-chain", ("getitem", ("getitem", base, (i0,)), (i1,)))
                    for i1 in idxs(ev[1])[:3]:
                        run.check("getitem-offset", ("getitem", base, (":", i1)))
                if len(ev) >= 3:
                    run.check("getitem-offset", ("getitem", base, (":", ":", idxs(ev[2])[0])))
                    run.check("getitem-offset", ("getitem", base, (i0, ":", idxs(ev[2])[2])))

    # ---- Independent ------------------------------------------------------------------------------------
    for batch in BATCHES[:3]:
        for n in (1, 2, 3):
            for dsh in ((), (2,), (2, 3)):
                # fn = t(i, batch…) + x_i   with x_i : Reals[dsh]   (lazy: has a real input)
                t = T(batch + (("i", n),), "real", dsh)
                fn = ("binary", "add", t, ("var", "x_i", "real", dsh))
                ind = ("independent", fn, "x", "i", "x_i")
                run.check("independent", ind)
                # … then ground the new real input: the result must be a Tensor of the declared output
                val = T(batch[:1], "real", (n,) + dsh)
                run.check("independent-subs", ("subs", ind, (("x", val),)))

    # ---- Tuple[...] indexed by an int (find_domain on a ProductDomain), wrapped_transform ---------------------------
    for b1, b2 in itertools.product(BATCHES[:3], repeat=2):
        for ev1, ev2, dt in itertools.product(events, events[:3], DTYPES):
            parts = (T(b1, dt, ev1), T(b2, "real", ev2))
            for idx in (0, 1, -1):
                run.check("tuple-getitem", ("tupleget", parts, idx))
    for batch, dt in itertools.product(BATCHES, DTYPES):
        for ev in ((), (2,), (3,), (2, 3), (1, 2)):
            for k in (0, 1, 2):
                run.check("transform", ("transform", k, T(batch, dt, ev)))
                run.check("transform", ("transform", k, ("var", "x", dt, ev)))
                run.check("transform-subs", ("subs", ("transform", k, ("var", "x", dt, ev)), (("x", T(batch, dt, ev)),)))

    # ---- Binary over Variables / mixed: Contraction via normalize ------------------------------------------
    for op in ("add", "mul", "max", "min", "sub", "logaddexp"):
        for ev1, ev2 in itertools.product(events, events):
            try:
                bc(ev1, ev2)
            except ValueError:
                continue
            for dt in DTYPES:
                if dt != "real" and op in ("sub", "logaddexp"):
                    continue        # KF-generic-int-range region (single-op stream owns it)
                x = ("var", "x", dt, ev1)
                y = ("var", "y", dt, ev2)
                run.check("binary-vars", ("binary", op, x, y))
                t1 = T((("a", 2),), dt, ev1)
                t2 = T((("b", 3), ("a", 2)), dt, ev2)
                run.check("binary-mixed", ("binary", op, x, t2))
                run.check("binary-subs", ("subs", ("binary", op, x, y), (("x", t1), ("y", t2))))
                run.check("binary-reduce", ("reduce", "add" if dt == "real" else "max",
                                            ("binary", op, t1, t2), (("a", 2),)))


def random_recipes(run, n):
    """fv/gen_terms.py recipes, built under reflect vs eager (no typing function: the reflect-built term's own
    declaration is the reference)."""
    from .. import gen_terms as G
    ctx = run.ctx
    rng = ctx.rng
    for _ in range(n):
        names = rng.sample(["i", "j", "k", "l"], rng.randint(1, 3))
        c = {nm: rng.choice([1, 2, 2, 3]) for nm in names}
        r = rng.random()
        kind = "real" if r < 0.45 else (rng.choice([2, 3]) if r < 0.6 else
                                        ("array", tuple(rng.choice([1, 2, 3]) for _ in range(rng.randint(1, 2)))))
        try:
            recipe, _ = G.gen_expr(rng, c, rng.randint(1, 3), kind, ext=not isinstance(kind, (str, int)) or rng.random() < 0.5)
        except Exception as e:
            ctx.count(f"ctor:random:gen-raises:{type(e).__name__}")
            continue
        run.check("random", recipe, predicted=False, builder=G.build, pyfn=G.python_of)


def run_constructors(ctx, tier, report=True):
    run = TermRun(ctx)
    constructor_cases(run, tier)
    random_recipes(run, 600 if tier == "quick" else 6000)
    hit = run.known_hit.get(KF_REDUCE)
    ctx.extra.setdefault("known_regions", {})[KF_REDUCE] = dict(cases=run.known_seen.get(KF_REDUCE, 0), witness=hit,
                                                                 listed=ctx.is_open(KF_REDUCE))
    if report and run.known_seen.get(KF_REDUCE):
        ok = ctx.known(KF_REDUCE, reproduced=hit is not None,
                       what=f"Reduce(add/mul) over a Bint-valued tensor keeps Bint[n]; e.g. {hit}")
        if not ok and hit is not None:
            ctx.fail("input", f"C06.{KF_REDUCE}", witness=hit, expected="values inside the declared domain", got=str(hit))
    return run
