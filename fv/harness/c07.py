"""
C07 — Hash-consing: structural equality is object identity, held weakly.

extract     regenerates lean/FunsorVerif/Gen/C07Table.lean from /repo: every Funsor subclass (fields from
            the live `_ast_fields` and from the AST of `__init__`, metaclass, which dict object is its cons
            cache, whether the class owns it and whether it is weak), the domain / op intern tables, and the
            source text (ast.unparse) of the four pieces of code the model transcribes: `make_hash_key`,
            the lookup/insert statements of `reflect`, `Funsor.__hash__`, `Funsor.__reduce__`.
correspond  drives the real funsor through histories (construct under reflect/lazy/eager, drop, gc.collect,
            pickle round trip, reinterpret, re-allocation of backing arrays) holding handles, and after every
            step compares with the Lean state machine FV.C07 run on the same history: which object every held
            handle is, the full contents (keys and values) of every observed intern table, and which of the
            objects/arrays ever held are still alive.
search      Python-side oracle (no Lean): identity <=> structural equality over everything reachable from the
            held handles, arrays by identity, plus "nothing survives drop-all + gc".
"""
import ast
import copy
import gc
import itertools
import json
import math
import os
import pickle
import weakref
from collections import OrderedDict
from fractions import Fraction

import numpy as np

from ..common import LEAN, REPO, Q, sx, parse_sx
from .. import futil  # noqa: F401  (imports funsor from /repo)

import funsor
import funsor.ops as ops
from funsor.domains import Array, ArrayType, Bint, Product, ProductDomain, Real, Reals
from funsor.interpretations import eager, lazy, normalize, reflect
from funsor.interpreter import reinterpret
from funsor.ops.op import OpMeta
from funsor.tensor import Tensor
from funsor.terms import (Align, Binary, Funsor, Lambda, Number, Reduce, Slice, Stack, Subs, Tuple, Unary,
                          Variable)

GEN_FILE = LEAN / "FunsorVerif" / "Gen" / "C07Table.lean"

# ----------------------------------------------------------------------------------------------
# extract: class table + transcribed source forms
# ----------------------------------------------------------------------------------------------


def _all_funsor_classes():
    seen, out = set(), []

    def walk(c):
        if c in seen:
            return
        seen.add(c)
        if not getattr(c, "__args__", ()):
            out.append(c)
            for s in c.__subclasses__():
                walk(s)
    walk(Funsor)
    return sorted(out, key=lambda c: (c.__module__, c.__qualname__))


def _all_op_classes():
    seen, out = set(), []

    def walk(c):
        if c in seen:
            return
        seen.add(c)
        out.append(c)
        for s in c.__subclasses__():
            walk(s)
    walk(ops.Op)
    return sorted(out, key=lambda c: (c.__module__, c.__qualname__))


def _ast_init_fields():
    """{module.Class: [init arg names]} from the AST of every funsor/*.py (numpy tree)."""
    out = {}
    root = REPO / "funsor"
    for f in sorted(root.rglob("*.py")):
        rel = f.relative_to(REPO)
        if rel.parts[1] in ("torch", "jax", "pyro"):
            continue
        try:
            tree = ast.parse(f.read_text())
        except SyntaxError:
            continue
        mod = ".".join(rel.with_suffix("").parts)
        if mod.endswith(".__init__"):
            mod = mod[: -len(".__init__")]
        for node in ast.walk(tree):
            if isinstance(node, ast.ClassDef):
                for b in node.body:
                    if isinstance(b, ast.FunctionDef) and b.name == "__init__":
                        a = b.args
                        names = [x.arg for x in a.posonlyargs + a.args][1:]
                        out[f"{mod}.{node.name}"] = names
    return out


def _find_def(tree, path):
    """path = ["Class", "method"] or ["function"]"""
    body = tree.body
    node = None
    for name in path:
        node = next((n for n in body if isinstance(n, (ast.ClassDef, ast.FunctionDef)) and n.name == name), None)
        if node is None:
            return None
        body = node.body
    return node


def _source_forms():
    t_terms = ast.parse((REPO / "funsor" / "terms.py").read_text())
    t_interp = ast.parse((REPO / "funsor" / "interpretations.py").read_text())
    forms = {}
    mh = _find_def(t_interp, ["Interpretation", "make_hash_key"])
    rets = [n for n in ast.walk(mh) if isinstance(n, ast.Return)] if mh else []
    # the numpy-backend branch is the last return of the function body
    forms["hashKeyForm"] = ast.unparse(mh.body[-1]) if mh else "MISSING"
    forms["hashKeyReturns"] = str(len(rets))
    rf = _find_def(t_terms, ["reflect"])
    stm = []
    if rf:
        for n in rf.body:
            src = ast.unparse(n)
            if "_cons_cache" in src or "make_hash_key" in src:
                stm.append(" ".join(src.split()))
    forms["reflectCacheForm"] = " ;; ".join(stm) if stm else "MISSING"
    for key, path in (("funsorHashForm", ["Funsor", "__hash__"]), ("funsorReduceForm", ["Funsor", "__reduce__"]),
                      ("funsorCopyForm", ["Funsor", "__copy__"])):
        d = _find_def(t_terms, path)
        forms[key] = " ".join(ast.unparse(d.body[-1]).split()) if d else "MISSING"
    try:
        t_tensor = ast.parse((REPO / "funsor" / "tensor.py").read_text())
        tm = _find_def(t_tensor, ["TensorMeta", "__call__"])
        forms["tensorMetaCallForm"] = " ;; ".join(" ".join(ast.unparse(n).split()) for n in tm.body) if tm else "MISSING"
    except (OSError, SyntaxError):
        forms["tensorMetaCallForm"] = "MISSING"
    mc = _find_def(t_terms, ["FunsorMeta", "__call__"])
    forms["metaCallForm"] = " ;; ".join(" ".join(ast.unparse(n).split()) for n in mc.body) if mc else "MISSING"
    fm = _find_def(t_terms, ["FunsorMeta", "__init__"])
    forms["metaInitForm"] = " ;; ".join(" ".join(ast.unparse(n).split()) for n in fm.body) if fm else "MISSING"
    # the op instance cache: key construction and lookup/insert
    def flat(node):
        return " ;; ".join(" ".join(ast.unparse(n).split()) for n in node.body) if node else "MISSING"
    try:
        t_op = ast.parse((REPO / "funsor" / "ops" / "op.py").read_text())
        t_arr = ast.parse((REPO / "funsor" / "ops" / "array.py").read_text())
        t_bi = ast.parse((REPO / "funsor" / "ops" / "builtin.py").read_text())
        forms["opHashForm"] = flat(_find_def(t_op, ["OpMeta", "hash_args_kwargs"]))
        call = _find_def(t_op, ["OpMeta", "__call__"])
        forms["opCallForm"] = flat(call)
        forms["reshapeHashForm"] = flat(_find_def(t_arr, ["ReshapeMeta", "hash_args_kwargs"]))
        forms["getsliceHashForm"] = flat(_find_def(t_bi, ["GetsliceMeta", "hash_args_kwargs"]))
        forms["opReduceForm"] = flat(_find_def(t_op, ["Op", "__reduce__"]))
        forms["opDeepcopyForm"] = flat(_find_def(t_op, ["Op", "__deepcopy__"]))
        t_dom = ast.parse((REPO / "funsor" / "domains.py").read_text())
        forms["domainReduceForm"] = flat(_find_def(t_dom, ["_pickle_array"]))
        gi = _find_def(t_dom, ["ArrayType", "__getitem__"])
        parts = []
        if gi:
            for n in gi.body:
                src = " ".join(ast.unparse(n).split())
                if isinstance(n, ast.If) and "result" in ast.unparse(n.test):
                    parts.append("if " + " ".join(ast.unparse(n.test).split()))
                    parts += [" ".join(ast.unparse(m).split()) for m in n.body if "_type_cache" in ast.unparse(m)]
                elif not isinstance(n, ast.If) and "_type_cache" in src:
                    parts.append(src)
        forms["domainLookupForm"] = " ;; ".join(parts) if parts else "MISSING"
        forms["productLookupForm"] = flat(_find_def(t_dom, ["ProductDomain", "__getitem__"]))
        forms["domainCopyregForm"] = " ;; ".join(sorted(
            " ".join(ast.unparse(n).split()) for n in t_dom.body
            if isinstance(n, ast.Expr) and "copyreg.pickle" in ast.unparse(n)))
    except (OSError, SyntaxError):
        for k in ("opHashForm", "opCallForm", "reshapeHashForm", "getsliceHashForm", "opReduceForm",
                  "opDeepcopyForm", "domainReduceForm", "domainCopyregForm", "domainLookupForm", "productLookupForm"):
            forms.setdefault(k, "MISSING")
    return forms


MEMO_PAT = __import__("re").compile(r"cache|memo", __import__("re").I)
CONTAINER_CALLS = ("dict", "OrderedDict", "defaultdict", "WeakValueDictionary", "WeakKeyDictionary", "WeakSet",
                   "lru_cache", "cache", "Counter")


def memo_scan():
    """Every memoising decorator and every cache-like table in funsor/*.py (numpy tree):
    [(kind, module, qualified name, source)] — a function decorated with something matching /cache|memo/
    (functools.lru_cache, functools.cache, cached_property, home-made memoizers), or an assignment of a fresh
    container (dict literal / dict()-like call) to a name matching /cache|memo/."""
    out = []
    root = REPO / "funsor"
    for f in sorted(root.rglob("*.py")):
        rel = f.relative_to(REPO)
        if rel.parts[1] in ("torch", "jax", "pyro"):
            continue
        mod = ".".join(rel.with_suffix("").parts)
        try:
            tree = ast.parse(f.read_text())
        except SyntaxError:
            out.append(("unparsable", mod, "", ""))
            continue

        def visit(node, prefix):
            for n in ast.iter_child_nodes(node):
                if isinstance(n, (ast.FunctionDef, ast.AsyncFunctionDef, ast.ClassDef)):
                    q = prefix + n.name
                    for d in n.decorator_list:
                        src = " ".join(ast.unparse(d).split())
                        if MEMO_PAT.search(src):
                            out.append(("decorator", mod, q, src))
                    visit(n, q + ".")
                    continue
                if isinstance(n, (ast.Assign, ast.AnnAssign)) and n.value is not None:
                    v = n.value
                    fresh = isinstance(v, ast.Dict) or (
                        isinstance(v, ast.Call) and ast.unparse(v.func).rpartition(".")[2] in CONTAINER_CALLS)
                    if fresh:
                        for t in (n.targets if isinstance(n, ast.Assign) else [n.target]):
                            name = ast.unparse(t)
                            if MEMO_PAT.search(name) and not isinstance(t, ast.Subscript):
                                out.append(("table", mod, prefix + name, " ".join(ast.unparse(v).split())))
                visit(n, prefix)
        visit(tree, "")
    return sorted(set(out))


def _lean_str(s):
    return '"' + s.replace("\\", "\\\\").replace('"', '\\"').replace("\n", "\\n") + '"'


def class_table():
    """[(name, kind, mcls, fields, astFields, astFound, cacheId, ownCache, weak)] — funsor classes first
    (sorted), then the domain tables, then every Op class."""
    from weakref import WeakValueDictionary
    astf = _ast_init_fields()
    cache_ids = {}

    def cid(d):
        return cache_ids.setdefault(id(d), len(cache_ids))
    rows = []
    for c in _all_funsor_classes():
        name = f"{c.__module__}.{c.__qualname__}"
        cache = getattr(c, "_cons_cache", None)
        af = astf.get(name)
        rows.append((name, "funsor", type(c).__name__, list(getattr(c, "_ast_fields", ())),
                     list(af) if af is not None else [], af is not None,
                     cid(cache), "_cons_cache" in c.__dict__, type(cache) is WeakValueDictionary))
    for nm, owner in (("funsor.domains.ArrayType", ArrayType), ("funsor.domains.ProductDomain", ProductDomain)):
        cache = owner.__dict__.get("_type_cache")
        rows.append((nm, "domain", type(owner).__name__, [], [], False, cid(cache),
                     "_type_cache" in owner.__dict__, type(cache) is WeakValueDictionary))
    for c in _all_op_classes():
        name = f"{c.__module__}.{c.__qualname__}"
        cache = getattr(c, "_instance_cache", None)
        rows.append((name, "op", type(c).__name__, [], [], False, cid(cache),
                     "_instance_cache" in c.__dict__, type(cache) is WeakValueDictionary))
    return rows


def render_table(rows, forms):
    out = ["/- GENERATED by fv/harness/c07.py:extract from /repo on every run — do not edit. -/",
           "namespace FV.Gen.C07", "",
           "structure ClassEntry where",
           "  name : String", "  kind : String", "  mcls : String", "  fields : List String",
           "  astFields : List String", "  astFound : Bool", "  cacheId : Nat", "  ownCache : Bool",
           "  weak : Bool", "  deriving Repr, DecidableEq", "",
           "def classes : List ClassEntry := ["]
    lines = []
    for (name, kind, mcls, fields, af, found, cacheid, own, weak) in rows:
        fl = "[" + ", ".join(_lean_str(x) for x in fields) + "]"
        al = "[" + ", ".join(_lean_str(x) for x in af) + "]"
        lines.append(f"  ⟨{_lean_str(name)}, {_lean_str(kind)}, {_lean_str(mcls)}, {fl}, {al}, "
                     f"{'true' if found else 'false'}, {cacheid}, {'true' if own else 'false'}, "
                     f"{'true' if weak else 'false'}⟩")
    out.append(",\n".join(lines))
    out.append("]")
    out.append("")
    for k in sorted(forms):
        out.append(f"def {k} : String := {_lean_str(forms[k])}")
    out.append("")
    out.append("/-- memoising decorators and cache-like tables found in the source (kind, module, name, source) -/")
    out.append("def memos : List (String × String × String × String) := [")
    out.append(",\n".join(f"  ({_lean_str(a)}, {_lean_str(b)}, {_lean_str(c)}, {_lean_str(d)})"
                          for a, b, c, d in memo_scan()))
    out.append("]")
    out.append("")
    out.append("end FV.Gen.C07")
    return "\n".join(out) + "\n"


def extract(ctx):
    rows = class_table()
    forms = _source_forms()
    txt = render_table(rows, forms)
    GEN_FILE.parent.mkdir(parents=True, exist_ok=True)
    if not GEN_FILE.exists() or GEN_FILE.read_text() != txt:
        GEN_FILE.write_text(txt)
    ctx.extra["class_table_rows"] = len(rows)
    ctx._c07_rows = rows
    ctx._c07_forms = forms


# ----------------------------------------------------------------------------------------------
# canonical addresses, token encoding
# ----------------------------------------------------------------------------------------------

class Ids:
    """raw CPython address -> small number, never forgotten: a recycled address shows up as the same number."""

    def __init__(self):
        self.m = {}

    def __call__(self, obj):
        return self.of_raw(id(obj))

    def of_raw(self, raw):
        v = self.m.get(raw)
        if v is None:
            v = self.m[raw] = 100000 + len(self.m)
        return v


def is_interned(v):
    return isinstance(v, (Funsor, ops.Op)) or isinstance(v, type)


def enc(v, ids, out, top=True):
    """Python constructor argument -> ArgTok s-expressions (appended to out)."""
    if isinstance(v, np.generic):
        v = v.item()        # a NumPy scalar hashes and compares like the Python number it holds
    if isinstance(v, bool):
        out.append(["b", v])
    elif isinstance(v, int):
        out.append(["i", v])
    elif isinstance(v, float):
        if v != v:
            out.append(["nan", ids(v)])
        elif v == 0.0 and math.copysign(1.0, v) < 0:
            out.append("nz")
        elif math.isinf(v):
            out.append(["f", 1 if v > 0 else -1, 0])
        else:
            f = Fraction(v)
            out.append(["f", f.numerator, f.denominator])
    elif isinstance(v, str):
        out.append(["s", Q(v)])
    elif v is None:
        out.append("none")
    elif v is Ellipsis:
        out.append("el")
    elif isinstance(v, slice):
        out.append("sl")
        enc((v.start, v.stop, v.step), ids, out, False)
    elif isinstance(v, (dict, OrderedDict)):
        out.append("dict")
        enc(tuple(v.items()), ids, out, False)
    elif isinstance(v, tuple):
        out.append("lp")
        for x in v:
            enc(x, ids, out, False)
        out.append("rp")
    elif isinstance(v, frozenset):
        out.append("fl")
        for c in sorted(ids(x) for x in v):
            out.append(["o", c])
        out.append("fr")
    elif isinstance(v, np.ndarray):
        out.append(["a", ids(v)])
    elif is_interned(v):
        out.append(["o", ids(v)])
    else:
        raise TypeError(f"cannot encode {type(v)}")
    return out


def enc_key_elem(v, ids, out):
    """One element of a *real* intern-table key -> model Tok s-expressions (the harness's reading of the
    real key; compared with the model's key).  An int that is a known address is shown canonically."""
    if isinstance(v, np.generic):
        v = v.item()
    if isinstance(v, bool):
        out.append(["n", int(v), 1])
    elif isinstance(v, int):
        out.append(["n", ids.m.get(v, v), 1])
    elif isinstance(v, float):
        if v != v:
            out.append(["nan", ids(v)])
        elif math.isinf(v):
            out.append(["n", 1 if v > 0 else -1, 0])
        else:
            f = Fraction(v)
            out.append(["n", f.numerator, f.denominator])
    elif isinstance(v, str):
        out.append(["s", Q(v)])
    elif v is None:
        out.append("none")
    elif v is Ellipsis:
        out.append("el")
    elif isinstance(v, tuple):
        out.append("lp")
        for x in v:
            enc_key_elem(x, ids, out)
        out.append("rp")
    elif isinstance(v, frozenset):
        out.append("fl")
        for c in sorted(ids(x) for x in v):
            out.append(["r", c])
        out.append("fr")
    elif is_interned(v):
        out.append(["r", ids(v)])
    else:
        out.append(["unknown", Q(type(v).__name__)])
    return out


# ----------------------------------------------------------------------------------------------
# recipes
# ----------------------------------------------------------------------------------------------

INTERPS = {"reflect": reflect, "lazy": lazy, "eager": eager, "normalize": normalize}


class Recipe:
    def __init__(self, name, cls, args, needs=(), interps=("reflect", "lazy", "eager"), expr=None, mcls=None,
                 cyc=False, pk=(), ri=(), core=False, dyn=False, blob=False, kw=None, base=None):
        self.name = name
        self.cls = cls            # table name
        self.args = args          # python source of the tuple of user-level args (for the model + the call)
        self.needs = tuple(needs)
        self.interps = tuple(interps)
        self.expr = expr          # python source of the real construction (default: Cls(*args))
        self.mcls = mcls          # normaliser name (default: the class's metaclass from the table)
        self.cyc = cyc
        self.pk = tuple(pk)       # interpretations under which a pickle round trip is exercised
        self.ri = tuple(ri)       # interpretations under which reinterpret is exercised
        self.core = core          # member of the exhaustively enumerated alphabet
        self.dyn = dyn            # dynamic domain (not pinned)
        self.kw = kw              # call form: (number of positional args, keyword field names in CALL order)
        self.base = base          # the positional recipe this is another call form of
        self.blob = blob          # leaf recipe whose pickle blob may be loaded after the original is gone


T = "funsor.terms."
D = "funsor.domains.ArrayType"
TT = "funsor.tensor.Tensor"


GS_POOL = [("rev", "slice(None, None, -1)"), ("rev0", "slice(0, None, -1)"), ("s3", "slice(None, 3)"),
           ("s3n", "slice(None, 3, None)"), ("s03", "slice(0, 3)"), ("s031", "slice(0, 3, 1)"), ("s14", "slice(1, 4)"),
           ("st2", "slice(None, None, 2)"), ("s0st2", "slice(0, None, 2)"), ("s1st2", "slice(1, None, 2)"),
           ("full", "slice(None)"), ("full4", "slice(None, 4)"), ("full1", "slice(None, None, 1)"),
           ("i2", "2"), ("i2t", "(2,)"), ("s23", "slice(2, 3)"), ("c1", "(slice(None), 1)"),
           ("c01", "(slice(0, None), 1)"), ("el_rev0", "(Ellipsis, slice(0, None, -1))"),
           ("el_rev", "(Ellipsis, slice(None, None, -1))"), ("el", "Ellipsis"), ("nn", "(None, 2)"),
           ("n0", "(None, slice(0, None))")]
GS_TERMS = ["rev", "rev0", "s3", "s03", "st2", "s0st2", "i2", "s23", "c1", "el_rev0", "el_rev", "full", "full4"]
GS_IDX = {nm: eval(idx) for nm, idx in GS_POOL}


def _op_recipes():
    """Parametrised ops whose parameters are distinct but hash-equal (hash(-1) == hash(-2)) or ==-equal
    (1 == 1.0 == True, 0 == -0.0 == False), in positional and keyword forms, alive at the same time, plus
    the lazy terms built on them.  `args` is the tuple OpMeta.__call__ binds (defaults applied)."""
    out = []
    red = [("sum", "SumOp", True), ("amax", "AmaxOp", False), ("prod", "ProdOp", False),
           ("argmax", "ArgmaxOp", False)]
    for nm, cls, full in red:
        c = "funsor.ops." + cls
        forms = [("m1", "(-1, False)", f"ops.{cls}(-1)"), ("m2", "(-2, False)", f"ops.{cls}(-2)"),
                 ("m2k", "(-2, False)", f"ops.{cls}(axis=-2)"), ("m1kd", "(-1, True)", f"ops.{cls}(-1, keepdims=True)")]
        if full:
            forms += [("m1k", "(-1, False)", f"ops.{cls}(axis=-1, keepdims=False)"),
                      ("m3", "(-3, False)", f"ops.{cls}(-3)"),
                      ("1", "(1, False)", f"ops.{cls}(1)"), ("1f", "(1.0, False)", f"ops.{cls}(1.0)"),
                      ("1t", "(True, False)", f"ops.{cls}(True)"), ("1z", "(1, 0)", f"ops.{cls}(1, 0)"),
                      ("0", "(0, False)", f"ops.{cls}(0)"), ("0f", "(False, False)", f"ops.{cls}(False)"),
                      ("0n", "(-0.0, False)", f"ops.{cls}(-0.0)"),
                      ("m1kd1", "(-1, 1)", f"ops.{cls}(-1, 1)"),
                      ("dflt", "(None, False)", f"ops.{cls}()")]
        for suf, args, expr in forms:
            out.append(Recipe(f"{nm}_{suf}", c, args, expr=expr, mcls="OpMeta", dyn=True,
                              blob=suf in ("m1", "m2", "1f"),
                              core=(nm == "sum" and suf in ("m1", "m2")),
                              pk=("reflect",) if suf in ("m1", "m2") else ()))
        for suf in ("m1", "m2"):
            out.append(Recipe(f"u{nm}_{suf}", T + "Unary", f"(H['{nm}_{suf}'], H['x3'])", needs=(f"{nm}_{suf}", "x3"),
                              interps=("reflect", "lazy"), pk=("reflect", "lazy"), ri=("reflect",),
                              core=(nm == "sum")))
    # GetsliceOp (its own key: the index tuple with slices unpacked to (start, stop, step) as given): indices
    # that are ==-distinct but "canonically similar" alive together, and the lazy terms v[idx] on them
    for nm, idx in GS_POOL:
        out.append(Recipe(f"gs_{nm}", "funsor.ops.GetsliceOp", f"({idx},)", expr=f"ops.GetsliceOp({idx})",
                          mcls="GetsliceMeta", dyn=(nm != "el"), core=nm in ("rev", "rev0"),
                          pk=("reflect",) if nm in ("rev", "rev0", "c1", "el_rev0") else (),
                          blob=nm in ("rev", "rev0", "s3", "s03", "i2")))
    out.append(Recipe("gs_revk", "funsor.ops.GetsliceOp", "(slice(None, None, -1),)",
                      expr="ops.GetsliceOp(index=slice(None, None, -1))", mcls="GetsliceMeta", dyn=True))
    # (Reals[4,6]: none of the sliced shapes is a dynamic domain of the pool, so they are all pinned)
    out.append(Recipe("vg", T + "Variable", "('vg', Reals[4, 6])"))
    for nm in GS_TERMS:
        out.append(Recipe(f"ugs_{nm}", T + "Unary", f"(H['gs_{nm}'], H['vg'])", needs=(f"gs_{nm}", "vg"),
                          interps=("reflect", "lazy"), pk=("reflect", "lazy") if nm in ("rev", "rev0") else (),
                          ri=("reflect",) if nm in ("rev", "rev0") else ()))
    for suf, args, expr in [("m1", "(-1,)", "ops.UnsqueezeOp(-1)"), ("m2", "(-2,)", "ops.UnsqueezeOp(dim=-2)"),
                            ("0", "(0,)", "ops.UnsqueezeOp(0)"), ("0f", "(False,)", "ops.UnsqueezeOp(False)")]:
        out.append(Recipe(f"unsq_{suf}", "funsor.ops.UnsqueezeOp", args, expr=expr, mcls="OpMeta", dyn=True))
    for suf, args, expr in [("m1", "(-1,)", "ops.StackOp(-1)"), ("m2", "(-2,)", "ops.StackOp(dim=-2)"),
                            ("0", "(0,)", "ops.StackOp()")]:
        out.append(Recipe(f"stk_{suf}", "funsor.ops.StackOp", args, expr=expr, mcls="OpMeta", dyn=True))
    for suf, args, expr in [("m1", "((-1,),)", "ops.ReshapeOp((-1,))"), ("m2", "((-2,),)", "ops.ReshapeOp((-2,))"),
                            ("23", "((2, 3),)", "ops.ReshapeOp((2, 3))"), ("23f", "((2.0, 3),)", "ops.ReshapeOp((2.0, 3))"),
                            ("32", "((3, 2),)", "ops.ReshapeOp((3, 2))")]:
        out.append(Recipe(f"rs_{suf}", "funsor.ops.ReshapeOp", args, expr=expr, mcls="ReshapeMeta", dyn=True))
    return out


OP_RECIPES = []
RECIPES = [
    Recipe("x", T + "Variable", "('x', Real)", core=True, blob=True, pk=("reflect", "lazy", "eager"), ri=("reflect",)),
    Recipe("xb", T + "Variable", "('x', Bint[2])"),
    Recipe("i", T + "Variable", "('i', Bint[2])"),
    Recipe("ib", T + "Variable", "('i__BOUND_9', Bint[2])"),
    Recipe("y", T + "Variable", "('y', Reals[3])"),
    Recipe("n1", T + "Number", "(1,)", core=True, pk=("eager",), blob=True),
    Recipe("n1f", T + "Number", "(1.0,)"),
    Recipe("n1t", T + "Number", "(True, 'real')"),
    Recipe("n1n", T + "Number", "(1, None)"),
    Recipe("nz", T + "Number", "(0.0,)"),
    Recipe("nnz", T + "Number", "(-0.0,)"),
    Recipe("nhalf", T + "Number", "(0.5,)"),
    # NumPy scalars (np.generic) are hashable and == the Python numbers: keyed by value like them
    Recipe("nhalf_g", T + "Number", "(np.float64(0.5),)"),
    Recipe("n1_g32", T + "Number", "(np.float32(1.0),)"),
    Recipe("n1b3_g", T + "Number", "(np.int64(1), 3)"),
    Recipe("n1b3", T + "Number", "(1, 3)"),
    Recipe("n1b3f", T + "Number", "(1.0, 3)"),
    Recipe("nan_s", T + "Number", "(NAN,)"),
    Recipe("nan_f", T + "Number", "(float('nan'),)"),
    Recipe("ninf", T + "Number", "(float('inf'),)"),
    Recipe("t0", "funsor.tensor.Tensor", "(A[0], OrderedDict(i=Bint[2]))", needs=("A0",), core=True,
           pk=("reflect", "eager"), ri=("reflect", "lazy")),
    Recipe("t0t", "funsor.tensor.Tensor", "(A[0], (('i', Bint[2]),), 'real')", needs=("A0",), core=True),
    Recipe("t0n", "funsor.tensor.Tensor", "(A[0],)", needs=("A0",)),
    Recipe("t0nn", "funsor.tensor.Tensor", "(A[0], None)", needs=("A0",)),
    Recipe("t1", "funsor.tensor.Tensor", "(A[1], OrderedDict(i=Bint[2]))", needs=("A1",), core=True),
    Recipe("t0b", "funsor.tensor.Tensor", "(A[0], OrderedDict(j=Bint[2]))", needs=("A0",)),
    Recipe("u", T + "Unary", "(ops.exp, H['x'])", needs=("x",), ri=("reflect",), pk=("lazy",)),
    Recipe("b", T + "Binary", "(ops.lt, H['x'], H['t0'])", needs=("x", "t0"), core=True,
           pk=("reflect", "lazy", "eager"), ri=("reflect", "lazy")),
    Recipe("b1", T + "Binary", "(ops.lt, H['x'], H['t1'])", needs=("x", "t1")),
    Recipe("bltr", T + "Binary", "(ops.lt, H['t0'], H['x'])", needs=("x", "t0"), core=True, pk=("reflect",)),
    Recipe("y0", T + "Variable", "('y0', Real)"),
    Recipe("bsub", T + "Binary", "(ops.sub, H['x'], H['y0'])", needs=("x", "y0"), interps=("reflect", "lazy"),
           pk=("reflect", "lazy"), ri=("reflect",)),
    Recipe("bsubr", T + "Binary", "(ops.sub, H['y0'], H['x'])", needs=("x", "y0"), interps=("reflect", "lazy"),
           pk=("reflect",)),
    Recipe("bxx", T + "Binary", "(ops.mul, H['x'], H['x'])", needs=("x",), interps=("reflect", "lazy"),
           pk=("reflect",), ri=("reflect",)),
    Recipe("btt", T + "Binary", "(ops.lt, H['t0'], H['t0b'])", needs=("t0", "t0b"), interps=("reflect", "lazy"),
           pk=("reflect", "lazy")),
    Recipe("bg", T + "Binary", "(ops.getitem, H['y'], H['i'])", needs=("y", "i"), pk=("eager",)),
    Recipe("bg1", T + "Binary", "(H['g1'], H['y'], H['i'])", needs=("g1", "y", "i"), interps=("reflect", "lazy"),
           pk=("reflect",)),
    Recipe("s0", T + "Subs", "(H['x'], ())", needs=("x",), interps=("reflect",)),
    Recipe("al0", T + "Align", "(H['x'], ())", needs=("x",), interps=("reflect", "lazy")),
    Recipe("st", T + "Stack", "('k', (H['x'], H['u']))", needs=("x", "u"), pk=("lazy",)),
    Recipe("tu", T + "Tuple", "((H['x'], H['t0']),)", needs=("x", "t0"), core=True,
           pk=("reflect", "lazy", "eager"), ri=("reflect",)),
    Recipe("tu2", T + "Tuple", "((H['t0'], H['t0b'], H['t0']),)", needs=("t0", "t0b"), pk=("reflect", "eager")),
    Recipe("body", T + "Binary", "(ops.lt, H['x'], H['ib'])", needs=("x", "ib")),
    Recipe("red", T + "Reduce", "(ops.add, H['body'], frozenset({H['ib']}))", needs=("body", "ib"),
           interps=("reflect", "lazy"), pk=("reflect", "lazy"), ri=("reflect",)),
    Recipe("lam", T + "Lambda", "(H['ib'], H['body'])", needs=("ib", "body"), interps=("reflect", "lazy"),
           pk=("reflect",)),
    Recipe("sl", T + "Slice", "('s', 4)", pk=("eager",), blob=True),
    Recipe("sl2", T + "Slice", "('s', 0, 4, 1, 4)"),
    Recipe("sl3", T + "Slice", "('s', 0, 9, 1, 4)"),
    Recipe("sl4", T + "Slice", "('s', 0, 4, 2, 4)"),
    # interned domains (one shared table ArrayType._type_cache) and parametrised ops
    Recipe("d5", "funsor.domains.ArrayType", "(5,)", expr="Bint[5]", mcls="Bint", cyc=True, core=True, dyn=True,
           blob=True,
           pk=("reflect",)),
    Recipe("d5a", "funsor.domains.ArrayType", "(5, ())", expr="Array[5, ()]", mcls="Array", cyc=True, dyn=True),
    Recipe("r5", "funsor.domains.ArrayType", "(5,)", expr="Reals[5]", mcls="Reals", cyc=True, dyn=True),
    Recipe("r5a", "funsor.domains.ArrayType", "('real', (5,))", expr="Array['real', (5,)]", mcls="Array",
           cyc=True, dyn=True, pk=("reflect",)),
    Recipe("r55", "funsor.domains.ArrayType", "(5, 5)", expr="Reals[5, 5]", mcls="Reals", cyc=True, dyn=True),
    Recipe("v5", T + "Variable", "('v', H['d5'])", needs=("d5",), core=True, pk=("eager",)),
    Recipe("vr5", T + "Variable", "('v', H['r5'])", needs=("r5",)),
    Recipe("pd", "funsor.domains.ProductDomain", "(Real, H['d5'])", expr="Product[Real, H['d5']]",
           mcls="Product", needs=("d5",), cyc=True, dyn=True),
    Recipe("g1", "funsor.ops.GetitemOp", "(1,)", expr="ops.GetitemOp(1)", mcls="OpMeta",
           dyn=True, blob=True, pk=("reflect",)),
    Recipe("g1k", "funsor.ops.GetitemOp", "(1,)", expr="ops.GetitemOp(offset=1)", mcls="OpMeta", dyn=True),
    Recipe("g2", "funsor.ops.GetitemOp", "(2,)", expr="ops.GetitemOp(2)", mcls="OpMeta", dyn=True),
    Recipe("g0", "funsor.ops.GetitemOp", "(0,)", expr="ops.GetitemOp(0)", mcls="OpMeta"),
    Recipe("gm1", "funsor.ops.GetitemOp", "(-1,)", expr="ops.GetitemOp(-1)", mcls="OpMeta", dyn=True),
    Recipe("gm2", "funsor.ops.GetitemOp", "(-2,)", expr="ops.GetitemOp(offset=-2)", mcls="OpMeta", dyn=True),
    Recipe("x3", T + "Variable", "('x3', Reals[2, 3, 4])", core=True),
    # (Bint[2,3] itself is the output domain of `b`, hence pinned: the dynamic shaped domain is Bint[2,5])
    # shaped bounded-integer domains (size-1 axes included), Reals of rank 0..3, products, terms over them
    Recipe("bs23", D, "((2, 5),)", expr="Bint[2, 5]", mcls="Bint", cyc=True, dyn=True, core=True,
           pk=("reflect",), blob=True),
    Recipe("bs23a", D, "(2, (5,))", expr="Array[2, (5,)]", mcls="Array", cyc=True, dyn=True, pk=("reflect",)),
    Recipe("bs51", D, "((5, 1),)", expr="Bint[5, 1]", mcls="Bint", cyc=True, dyn=True, pk=("reflect",), blob=True),
    Recipe("bs213", D, "((2, 1, 3),)", expr="Bint[2, 1, 3]", mcls="Bint", cyc=True, dyn=True, pk=("reflect",),
           blob=True),
    Recipe("bs13", D, "((1, 3),)", expr="Bint[1, 3]", mcls="Bint", cyc=True, dyn=True, pk=("reflect",), blob=True),
    Recipe("bs7", D, "(7,)", expr="Bint[7]", mcls="Bint", cyc=True, dyn=True, pk=("reflect",), blob=True),
    Recipe("r0", D, "()", expr="Reals[()]", mcls="Reals", cyc=True, pk=("reflect",), blob=True),
    Recipe("r7", D, "(7,)", expr="Reals[7]", mcls="Reals", cyc=True, dyn=True, pk=("reflect",), blob=True),
    Recipe("r71", D, "(7, 1)", expr="Reals[7, 1]", mcls="Reals", cyc=True, dyn=True, pk=("reflect",), blob=True),
    Recipe("r512", D, "(5, 1, 2)", expr="Reals[5, 1, 2]", mcls="Reals", cyc=True, dyn=True, pk=("reflect",),
           blob=True),
    Recipe("pd2", "funsor.domains.ProductDomain", "(H['bs23'], Real)", expr="Product[H['bs23'], Real]",
           mcls="Product", needs=("bs23",), cyc=True, dyn=True),
    Recipe("vbs23", T + "Variable", "('xs', H['bs23'])", needs=("bs23",), core=True,
           pk=("reflect", "lazy", "eager"), ri=("reflect",)),
    Recipe("vbs51", T + "Variable", "('xs', H['bs51'])", needs=("bs51",), pk=("reflect", "eager")),
    Recipe("vbs213", T + "Variable", "('xs', H['bs213'])", needs=("bs213",), pk=("lazy",)),
    Recipe("vr512", T + "Variable", "('xs', H['r512'])", needs=("r512",), pk=("reflect", "eager")),
    # (no Tuple over a dynamically-typed term: its output Product[...] is interned behind the model's back)
    Recipe("t0d2", "funsor.tensor.Tensor", "(A[0], (), 2)", needs=("A0",), interps=("reflect", "lazy"),
           pk=("reflect",)),
    Recipe("zb", T + "Variable", "('zb', Bint[3])", blob=True, pk=("reflect",)),
    # variables over fresh dynamic domains, to be passed through every typing path (`use` steps) and dropped
    Recipe("pr7", T + "Variable", "('p', H['r7'])", needs=("r7",)),
    Recipe("qr7", T + "Variable", "('q', H['r7'])", needs=("r7",)),
    Recipe("i7", T + "Variable", "('i7', H['bs7'])", needs=("bs7",)),
    # zero-size event shapes (falsy under a `len`-like truth test): must intern like any other domain
    Recipe("z20", D, "((2, 0),)", expr="Bint[2, 0]", mcls="Bint", cyc=True, dyn=True, pk=("reflect",), blob=True),
    Recipe("z20a", D, "(2, (0,))", expr="Array[2, (0,)]", mcls="Array", cyc=True, dyn=True, pk=("reflect",)),
    Recipe("z302", D, "((3, 0, 2),)", expr="Bint[3, 0, 2]", mcls="Bint", cyc=True, dyn=True, pk=("reflect",), blob=True),
    Recipe("z320", D, "((3, 2, 0),)", expr="Bint[3, 2, 0]", mcls="Bint", cyc=True, dyn=True, pk=("reflect",)),
    Recipe("rz0", D, "(0,)", expr="Reals[0]", mcls="Reals", cyc=True, dyn=True, pk=("reflect",), blob=True),
    Recipe("rz0a", D, "('real', (0,))", expr="Array['real', (0,)]", mcls="Array", cyc=True, dyn=True),
    Recipe("rz20", D, "(2, 0)", expr="Reals[2, 0]", mcls="Reals", cyc=True, dyn=True, pk=("reflect",)),
    Recipe("vz20", T + "Variable", "('z', H['z20'])", needs=("z20",), pk=("reflect", "lazy", "eager")),
    Recipe("vz302", T + "Variable", "('z', H['z302'])", needs=("z302",), pk=("reflect",)),
    Recipe("vrz0", T + "Variable", "('z', H['rz0'])", needs=("rz0",), pk=("eager",)),
    Recipe("r77", D, "(7, 7)", expr="Reals[7, 7]", mcls="Reals", cyc=True, dyn=True, pk=("reflect",), blob=True),
    Recipe("m77", T + "Variable", "('m', H['r77'])", needs=("r77",)),
    Recipe("n77", T + "Variable", "('n', H['r77'])", needs=("r77",)),
    Recipe("ein", "funsor.ops.EinsumOp", "('ab,bc->ac',)", expr="ops.EinsumOp('ab,bc->ac')", mcls="OpMeta",
           dyn=True, pk=("reflect",), blob=True),
    Recipe("rs71", "funsor.ops.ReshapeOp", "((7, 1),)", expr="ops.ReshapeOp((7, 1))", mcls="ReshapeMeta", dyn=True),
    # Tensor leaves on VIEWS of one buffer (non-contiguous, negative stride, 0-d, read-only): the key is the
    # identity of the array object passed, so the same view twice is one Tensor, equal-content views are not
    Recipe("tv_VT", TT, "(A[3],)", needs=("VT",), core=True, pk=("reflect", "eager"), ri=("reflect", "lazy")),
    Recipe("tv_VTt", TT, "(A[3], (), 'real')", needs=("VT",)),
    Recipe("tv_VTn", TT, "(A[3], None)", needs=("VT",)),
    Recipe("tv_VTi", TT, "(A[3], OrderedDict(i=Bint[4]))", needs=("VT",)),
    Recipe("tv_VM", TT, "(A[4],)", needs=("VM",)),
    Recipe("tv_VC", TT, "(A[5],)", needs=("VC",), pk=("lazy",)),
    Recipe("tv_VCi", TT, "(A[5], OrderedDict(i=Bint[3]))", needs=("VC",)),
    Recipe("tv_VCt", TT, "(A[5], (('i', Bint[3]),), 'real')", needs=("VC",)),
    Recipe("tv_VS", TT, "(A[6],)", needs=("VS",)),
    Recipe("tv_VSt", TT, "(A[6], ())", needs=("VS",)),
    Recipe("tv_VR", TT, "(A[7],)", needs=("VR",), pk=("reflect",)),
    Recipe("tv_VRi", TT, "(A[7], OrderedDict(i=Bint[3]))", needs=("VR",)),
    Recipe("tv_VRt", TT, "(A[7], (), 'real')", needs=("VR",)),
    Recipe("tv_VZ", TT, "(A[8],)", needs=("VZ",)),
    Recipe("tv_VZt", TT, "(A[8], (), 'real')", needs=("VZ",)),
    Recipe("tv_VO", TT, "(A[9],)", needs=("VO",), pk=("reflect",)),
    Recipe("tv_VOt", TT, "(A[9], None, 'real')", needs=("VO",)),
    Recipe("tv_B", TT, "(A[2],)", needs=("B",)),
    Recipe("bvt", T + "Binary", "(ops.lt, H['x'], H['tv_VT'])", needs=("x", "tv_VT"),
           pk=("reflect", "lazy"), ri=("reflect", "lazy")),
    Recipe("bvr", T + "Binary", "(ops.lt, H['x'], H['tv_VR'])", needs=("x", "tv_VR"), ri=("reflect",)),
    Recipe("tuv", T + "Tuple", "((H['tv_VT'], H['tv_VM'], H['tv_VT']),)", needs=("tv_VT", "tv_VM"),
           pk=("reflect", "eager")),
    Recipe("lamz", T + "Lambda", "(H['ib'], H['zb'])", needs=("ib", "zb"), pk=("reflect", "lazy", "eager"),
           ri=("reflect",)),
]
OP_RECIPES.extend(_op_recipes())
RECIPES = RECIPES + OP_RECIPES

# fields of the plain-FunsorMeta classes whose call forms are exercised (checked against the generated table
# in World.__init__; a mismatch is reported, not assumed)
FIELDS = {T + "Variable": ["name", "output"], T + "Unary": ["op", "arg"], T + "Binary": ["op", "lhs", "rhs"],
          T + "Reduce": ["op", "arg", "reduced_vars"], T + "Lambda": ["var", "expr"], T + "Align": ["arg", "names"],
          T + "Stack": ["name", "parts"], T + "Tuple": ["args"]}
KW_BASES = ["x", "v5", "u", "b", "bltr", "bsub", "bsubr", "bvt", "red", "lam", "al0", "st", "tu"]
KW_CORE = {("b", 1, ("rhs", "lhs")), ("b", 0, ("rhs", "lhs", "op")), ("bltr", 1, ("rhs", "lhs"))}


def _kw_recipes():
    """Every call form of a term: all-keyword in every order, and every positional prefix followed by the
    remaining fields as keywords in every order.  (All-positional is the base recipe.)"""
    out = []
    for bn in KW_BASES:
        b = next(r for r in RECIPES if r.name == bn)
        fields = FIELDS[b.cls]
        n = 0
        for npos in range(len(fields)):
            for order in itertools.permutations(fields[npos:]):
                n += 1
                out.append(Recipe(f"{bn}@{npos}{''.join(f[0] for f in order)}", b.cls, b.args, needs=b.needs,
                                  interps=b.interps, kw=(npos, tuple(order)), base=bn,
                                  core=(bn, npos, tuple(order)) in KW_CORE,
                                  pk=b.pk[:1] if n % 3 == 0 else ()))
    return out


KW_RECIPES = _kw_recipes()
RECIPES = RECIPES + KW_RECIPES
RBY = {r.name: r for r in RECIPES}

# `use` steps: build a term over held handles under an interpretation, throw it away, run the collector.  Nothing
# new may stay alive (model: a `gc` step).  Each expression keeps to the operands' own domains or pinned ones, so
# that a table entry left behind is a leak and not an untracked by-product.
USE_INTERPS = ("reflect", "lazy", "normalize", "eager")
USES = {
    # name: (handles needed, expression, op class whose find_domain rule types the term)
    "add": (("pr7", "qr7"), "H['pr7'] + H['qr7']", "AddOp"),
    "mul": (("pr7", "qr7"), "H['pr7'] * H['qr7']", "MulOp"),
    "max": (("pr7", "qr7"), "ops.max(H['pr7'], H['qr7'])", "MaxOp"),
    "min": (("pr7", "qr7"), "ops.min(H['pr7'], H['qr7'])", "MinOp"),
    "logaddexp": (("pr7", "qr7"), "ops.logaddexp(H['pr7'], H['qr7'])", "LogaddexpOp"),
    "addself": (("pr7",), "H['pr7'] + H['pr7']", "AddOp"),
    "bint_add": (("i7",), "H['i7'] + H['i7']", "AddOp"),
    "sub": (("pr7", "qr7"), "H['pr7'] - H['qr7']", "SubOp"),
    "lt": (("pr7", "qr7"), "H['pr7'] < H['qr7']", "LtOp"),
    "floordiv": (("i7",), "H['i7'] // H['i7']", "FloordivOp"),
    "mod": (("i7",), "H['i7'] % H['i7']", "ModOp"),
    "matmul": (("m77", "n77"), "H['m77'] @ H['n77']", "MatmulOp"),
    "exp": (("pr7",), "H['pr7'].exp()", "ExpOp"),
    "neg": (("pr7",), "-H['pr7']", "NegOp"),
    "astype": (("pr7",), "ops.astype(H['pr7'], 'float32')", "AstypeOp"),
    "sum": (("pr7",), "H['pr7'].sum()", "SumOp"),
    "sum_axis": (("m77",), "ops.sum(H['m77'], 0)", "SumOp"),
    "sum_op": (("sum_m1", "m77"), "H['sum_m1'](H['m77'])", "SumOp"),
    "amax_axis": (("m77",), "ops.amax(H['m77'], -1, True)", "AmaxOp"),
    "logsumexp": (("m77",), "ops.logsumexp(H['m77'], 1)", "LogsumexpOp"),
    "argmax": (("pr7",), "ops.argmax(H['pr7'], 0)", "ArgmaxOp"),
    "unsqueeze": (("pr7",), "ops.unsqueeze(H['pr7'], -1)", "UnsqueezeOp"),
    "reshape": (("pr7",), "H['pr7'].reshape((7, 1))", "ReshapeOp"),
    "reshape_op": (("rs71", "pr7"), "H['rs71'](H['pr7'])", "ReshapeOp"),
    "getslice": (("pr7",), "H['pr7'][1:5]", "GetsliceOp"),
    "getslice_op": (("gs_rev", "pr7"), "H['gs_rev'](H['pr7'])", "GetsliceOp"),
    "transpose": (("m77",), "ops.transpose(H['m77'], 0, 1)", "TransposeOp"),
    "permute": (("m77",), "ops.permute(H['m77'], (1, 0))", "PermuteOp"),
    "getitem": (("pr7", "i7"), "H['pr7'][H['i7']]", "GetitemOp"),
    "getitem_off": (("gm1", "m77", "i7"), "H['gm1'](H['m77'], H['i7'])", "GetitemOp"),
    "getitem_off2": (("m77", "i7"), "ops.GetitemOp(1)(H['m77'], H['i7'])", "GetitemOp"),
    "reduce": (("pr7", "i7"), "H['pr7'][H['i7']].reduce(ops.add, 'i7')", "AddOp"),
    "reduce_max": (("pr7", "i7"), "H['pr7'][H['i7']].reduce(ops.max, 'i7')", "MaxOp"),
    "subs": (("pr7", "qr7"), "(H['pr7'] + H['qr7'])(p=H['qr7'])", "AddOp"),
    "contraction": (("pr7", "qr7"), "Contraction(ops.null, ops.mul, frozenset(), H['pr7'], H['qr7'])", "MulOp"),
    "tensor_add": (("r7",), "Tensor(np.ones(7)) + Tensor(np.ones(7))", "AddOp"),
    "tensor_var": (("pr7",), "Tensor(np.ones(7)) * H['pr7']", "MulOp"),
    "stack_term": (("pr7", "qr7"), "Stack('k', (H['pr7'], H['qr7']))", None),
    # empty tensors / arithmetic whose output domain is a held zero-size domain
    "empty_int_tensor": (("z20",), "Tensor(np.zeros((3, 0)), (('j', Bint[3]),), 2)", None),
    "empty_real_tensor": (("rz0",), "Tensor(np.zeros((0,)))", None),
    "empty_var_neg": (("vrz0",), "-H['vrz0']", "NegOp"),
    "empty_bint_lt": (("vz20",), "H['vz20'] < H['vz20']", "LtOp"),
    # Finitary ops
    "einsum": (("m77", "n77"), "Einsum('ab,bc->ac', H['m77'], H['n77'])", "EinsumOp"),
    "einsum_op": (("ein", "m77", "n77"), "H['ein']((H['m77'], H['n77']))", "EinsumOp"),
    "stack": (("pr7", "qr7"), "ops.stack((H['pr7'], H['qr7']))", "StackOp"),
    "stack_op": (("stk_m1", "pr7", "qr7"), "H['stk_m1']((H['pr7'], H['qr7']))", "StackOp"),
    "cat": (("pr7", "qr7"), "ops.cat((H['pr7'], H['qr7']))", "CatOp"),
    "cat_m1": (("pr7", "qr7"), "ops.cat((H['pr7'], H['qr7']), -1)", "CatOp"),
}
# op tables observed although no recipe constructs them: the parametrised op instances `use` steps create
USE_TABLES = ["funsor.ops." + c for c in ("EinsumOp", "CatOp", "TransposeOp", "PermuteOp", "AstypeOp", "LogsumexpOp",
                                          "MatmulOp", "AmaxOp", "ArgmaxOp", "UnsqueezeOp", "StackOp", "SumOp",
                                          "ReshapeOp", "GetsliceOp", "GetitemOp", "FloordivOp", "ModOp")]
# memoising decorators / tables of the pinned tree that Props/C07 `reviewedMemos` reviews: (kind, module, name)
REVIEWED_MEMOS = {("decorator", "funsor.distribution", "Distribution._infer_param_domain"),
                  ("decorator", "funsor.distribution", "Distribution._infer_value_domain"),
                  ("decorator", "funsor.typing", "deep_issubclass"),
                  ("table", "funsor.domains", "ArrayType._type_cache"),
                  ("table", "funsor.domains", "ProductDomain._type_cache"),
                  ("table", "funsor.interpretations", "Memoize.__init__.cache"),
                  ("table", "funsor.ops.op", "OpMeta.__init__.cls._instance_cache"),
                  ("table", "funsor.terms", "FunsorMeta.__init__.cls._cons_cache"),
                  ("table", "funsor.typing", "GenericTypeMeta.__init__.cls._type_cache")}


def uses_for_new_memos():
    """When the reviewed-memo obligation breaks: the `use` steps that run through each NEW memoised function.
    A memo on a `find_domain` rule is matched through the live dispatch registry: the op classes that dispatch
    to a function of that name -> the uses whose term is typed by such an op.  Returns (new memos, [use names])."""
    new = [m for m in memo_scan() if (m[0], m[1], m[2]) not in REVIEWED_MEMOS]
    hit = []
    try:
        from funsor.domains import find_domain
        reg = dict(find_domain.registry)
    except Exception:
        reg = {}
    for kind, mod, name, src in new:
        fname = name.rpartition(".")[2]
        classes = [c for c, fn in reg.items() if getattr(fn, "__name__", None) == fname and isinstance(c, type)]
        for u, spec in USES.items():
            oc = getattr(ops, spec[2], None) if spec[2] else None
            if oc is not None and any(issubclass(oc, c) for c in classes) and u not in hit:
                # the most specific rule wins in singledispatch: keep the use only if this function is the one chosen
                try:
                    if getattr(find_domain.dispatch(oc), "__name__", None) == fname:
                        hit.append(u)
                except Exception:
                    hit.append(u)
    return new, hit


ARR_SLOTS = {"A0": 0, "A1": 1, "B": 2, "VT": 3, "VM": 4, "VC": 5, "VS": 6, "VR": 7, "VZ": 8, "VO": 9}
# array group k -> the slots (re-)allocated together: 0, 1 = the two plain buffers; 2 = a third buffer B with
# its VIEWS (distinct ndarray objects sharing B's memory): transpose, moveaxis (same content as the transpose,
# another object), column slice, strided slice, negative-stride slice, 0-d view, read-only view
ARR_GROUPS = {0: [0], 1: [1], 2: [2, 3, 4, 5, 6, 7, 8, 9]}
NO_LIVENESS_SLOTS = {2}      # B is kept alive by its views (ndarray.base), which the model does not represent
SLOT_P = 500                      # result of the last pickle / reinterpret
SLOT_TMP = 900                    # copies of arrays made by unpickling (released right after)
RSLOT = {r.name: 100 + k for k, r in enumerate(RECIPES)}
PIN_SLOT0 = 10
NAN = math.nan


def full_collect():
    """The model's `gc` step = the collector run to completion.  One `gc.collect()` pass can leave cyclic
    garbage behind when finalizers/weakref callbacks run during the pass (observed: a dead domain class
    survives the pass in which the parametrised funsor class pointing to it is finalised); a second pass
    frees it.  "Lets it be reclaimed" is about the fixpoint."""
    for _ in range(5):
        if gc.collect() == 0:
            break


VALS = (0.0, 1.0, 2.0)


def new_group(k, rng):
    """{slot: ndarray} for array group k"""
    if k != 2:
        return {k: new_array(k, rng)}
    b = np.empty((3, 4))
    b[...] = np.arange(12.0).reshape(3, 4) + VALS[rng.randrange(0, 3)]
    ro = b.view()
    ro.flags.writeable = False
    return {2: b, 3: b.T, 4: np.moveaxis(b, 0, 1), 5: b[:, 1:3], 6: b[::2, ::3], 7: b[::-1], 8: b[0, 0, ...], 9: ro}


def new_array(k, rng):
    # same shape/dtype for both slots: the allocator recycles freed blocks of this size readily
    # one allocation, nothing in between: the freed ndarray object of the previous array is what the
    # allocator hands out next
    a = np.empty((2, 3))
    a.fill(VALS[rng.randrange(0, 3)])
    return a


# ----------------------------------------------------------------------------------------------
# the real side
# ----------------------------------------------------------------------------------------------

class World:
    """The real funsor process state the harness drives: held handles, arrays, pinned objects."""

    def __init__(self, rows):
        self.rows = rows
        self.cls_index = {r[0]: k for k, r in enumerate(rows)}
        self.cls_mcls = {r[0]: r[2] for r in rows}
        self.cls_fields = {r[0]: list(r[3]) for r in rows}
        for c, f in FIELDS.items():
            if self.cls_fields.get(c) != f:
                raise RuntimeError(f"{c}: _ast_fields are {self.cls_fields.get(c)}, the call-form recipes assume {f}")
        self.ids = Ids()
        self.H = {}
        self.A = {}
        self.P = None
        self.B = {}                # recipe name -> (pickle bytes, model tokens, class index, cyc, mcls)
        self.data_is_arg = {True: 0, False: 0}
        self.pinned_raw = set()
        self.pinned_per_table = {}
        self.declined = {}         # recipe -> exception text, if its construction raised during the warm-up
        self.pinned = []           # [(slot, table name, mcls, args tuple, obj)]
        self.tables = {}           # table name -> dict object
        import importlib
        for name in sorted({r.cls for r in RECIPES} | {T + "Funsor"} | set(USE_TABLES)):
            mod, _, cn = name.rpartition(".")
            c = getattr(importlib.import_module(mod), cn)
            if isinstance(c, OpMeta):
                self.tables[name] = c.__dict__["_instance_cache"] if "_instance_cache" in c.__dict__ else c._instance_cache
            elif name.startswith("funsor.domains."):
                self.tables[name] = c._type_cache
            else:
                self.tables[name] = c._cons_cache
        self.funsor_classes = [c for c in _all_funsor_classes()]
        self.env = {"A": self.A, "H": self.H, "ops": ops, "Bint": Bint, "Real": Real, "Reals": Reals,
                    "Array": Array, "Product": Product, "OrderedDict": OrderedDict, "NAN": NAN}
        from funsor.cnf import Contraction
        self.env["Contraction"] = Contraction
        from funsor.tensor import Einsum
        self.env["Einsum"] = Einsum
        self.env["np"] = np
        for c in (Variable, Number, Tensor, Unary, Binary, Subs, Align, Stack, Tuple, Reduce, Lambda, Slice):
            self.env[c.__name__] = c

    # -- construction -----------------------------------------------------------------------
    def args_of(self, r):
        return eval(r.args, self.env)

    def build(self, r, interp, args=None):
        """the real construction; `args` (already evaluated) are reused so that a fresh object inside the
        arguments (float('nan')) is the one the model was told about"""
        with INTERPS[interp]:
            if r.expr is not None:
                return eval(r.expr, self.env)
            if args is None:
                args = eval(r.args, self.env)
            c = self.env[r.cls.rpartition('.')[2]]
            if r.kw is not None:
                npos, order = r.kw
                fields = self.cls_fields[r.cls]
                return c(*args[:npos], **{f: args[fields.index(f)] for f in order})
            return c(*args)

    def use(self, uname, interp):
        """build and throw away (own frame: nothing of the term survives the return)"""
        with INTERPS[interp]:
            eval(USES[uname][1], self.env)

    def table_snapshot(self):
        """{table name: sorted [(key tokens, value address)]} for every observed table."""
        out = {}
        pinned = self.pinned_raw
        for name, d in self.tables.items():
            if len(d) <= self.pinned_per_table.get(name, 0) and all(id(v) in pinned for v in list(d.values())):
                out[name] = []
                continue
            ent = []
            for k, v in list(d.items()):
                if id(v) in pinned:       # pinned entries never change and are left out on the model side too
                    continue
                toks = []
                if isinstance(k, tuple):
                    for e in k:
                        enc_key_elem(e, self.ids, toks)
                else:
                    enc_key_elem(k, self.ids, toks)
                ent.append((sx(toks), self.ids(v)))
                del v
            ent.sort()
            out[name] = ent
        return out

    def total_funsor_entries(self):
        return sum(len(c._cons_cache) for c in self.funsor_classes if "_cons_cache" in c.__dict__)


PINNED_OPS = ["exp", "lt", "mul", "add", "sub", "getitem", "sum", "amax", "prod", "argmax", "unsqueeze", "stack"]


def _warm_up(w, rng):
    for k in ARR_GROUPS:
        w.A.update(new_group(k, rng))
    for interp in ("reflect", "lazy", "eager"):
        for r in RECIPES:
            if interp in r.interps and all((n in ARR_SLOTS) or (n in w.H) for n in r.needs):
                try:
                    w.H[r.name] = w.build(r, interp)
                except Exception as e:     # a recipe the code (now) declines: the history streams report it
                    w.declined[r.name] = f"{type(e).__name__}: {e}"[:200]
                    e = None


def _collect_pins(w):
    """Everything in the domain tables that no dynamic recipe produced, and the module-level op instances the
    recipes mention.  The model arguments of a pin are read off the *object* (dtype/shape, __args__, the op's
    bound defaults), never off the real table key, whose shape is the code's business."""
    pins = []
    dyn_objs = {id(w.H[r.name]) for r in RECIPES if r.dyn and r.name in w.H}
    # a "dynamic" domain that some term of the pool creates on its own (as its output / an input domain, not
    # through its arguments) cannot be tracked by the model: pin it, its recipe then simply hits the pin
    def closure(r, acc):
        for n in r.needs:
            if n in RBY and n not in acc:
                acc.add(n)
                closure(RBY[n], acc)
        return acc
    for r in RECIPES:
        h = w.H.get(r.name)
        if isinstance(h, Funsor):
            via_args = {id(w.H[n]) for n in closure(r, set()) if n in w.H}
            for dom in [h.output] + list(h.inputs.values()):
                if id(dom) in dyn_objs and id(dom) not in via_args and isinstance(dom, ArrayType):
                    dyn_objs.discard(id(dom))
                    w.implicit_pins = getattr(w, "implicit_pins", []) + [str(dom)]
    del h
    for dom in list(ArrayType._type_cache.values()):
        if id(dom) not in dyn_objs:
            pins.append(("funsor.domains.ArrayType", "Array", (dom.dtype, dom.shape), dom))
    for dom in list(ProductDomain._type_cache.values()):
        if id(dom) not in dyn_objs and not any(id(a) in dyn_objs for a in dom.__args__):
            pins.append(("funsor.domains.ProductDomain", "Product", tuple(dom.__args__), dom))
    seen = set()
    cands = [getattr(ops, nm) for nm in PINNED_OPS]
    for name, d in w.tables.items():
        if name.startswith("funsor.ops."):
            cands += [v for v in list(d.values()) if id(v) not in dyn_objs]
    for op in cands:
        if id(op) in seen:
            continue
        seen.add(id(op))
        c = type(op)
        mc = type(c).__name__ if type(c).__name__ in ("ReshapeMeta", "GetsliceMeta") and op.defaults else "OpMeta"
        pins.append((f"{c.__module__}.{c.__qualname__}", mc, tuple(op.defaults.values()), op))
    del cands
    return [(PIN_SLOT0 + k, t, m, a, o) for k, (t, m, a, o) in enumerate(pins)]


def _truthiness(w):
    """{table kind: {truthy|falsy|raises: count}} over everything currently stored in the observed intern tables.
    A table whose values may be falsy (or whose truth test raises) must look entries up with `is None` / `in` /
    KeyError — which is what the source-form obligations pin down."""
    out = {}
    for name, d in w.tables.items():
        kind = "funsor" if name.startswith(("funsor.terms.", "funsor.tensor.")) else \
            "domain" if name.startswith("funsor.domains.") else "op"
        c = out.setdefault(kind, {"truthy": 0, "falsy": 0, "raises": 0})
        for v in list(d.values()):
            try:
                c["truthy" if bool(v) else "falsy"] += 1
            except Exception:
                c["raises"] += 1
        v = None
    return out


def warm_up_and_pin(w, rng):
    """Run every recipe once under every allowed interpretation so that every domain / op the recipes can
    touch exists, then hold the non-dynamic *domains and ops* forever (they are the 'pinned prelude' of every
    model history) and let everything else go.  (Helpers keep loop variables out of this frame: a stray local
    holding the last domain would keep it alive across the collection below.)"""
    _warm_up(w, rng)
    w.truthiness = _truthiness(w)
    w.pinned = _collect_pins(w)
    w.pinned_raw = {id(o) for (_, _, _, _, o) in w.pinned}
    w.pinned_per_table = {}
    for (_, t, _, _, _) in w.pinned:
        w.pinned_per_table[t] = w.pinned_per_table.get(t, 0) + 1
    assert len(w.pinned) < 90, len(w.pinned)
    w.H.clear()
    w.A.clear()
    full_collect()


# ----------------------------------------------------------------------------------------------
# histories
# ----------------------------------------------------------------------------------------------
# symbolic step: ("mk", recipe, interp) | ("drop", recipe) | ("dropP",) | ("arr", k) | ("gc",)
#              | ("pk", recipe, interp) | ("ri", recipe, interp)

def enabled(step, held):
    kind = step[0]
    if kind == "mk":
        return all(n in held for n in RBY[step[1]].needs)
    if kind in ("drop", "pk", "ri", "cp", "dc", "dumps"):
        return step[1] in held
    if kind == "loads":
        return ("B:" + step[1]) in held
    if kind == "use":
        return all(n in held for n in USES[step[1]][0])
    if kind == "dropP":
        return "P" in held
    return True


def apply_sym(step, held):
    kind = step[0]
    held = set(held)
    if kind == "mk":
        held.add(step[1])
    elif kind == "drop":
        held.discard(step[1])
    elif kind in ("pk", "ri", "cp", "dc", "loads"):
        held.add("P")
    elif kind == "dumps":
        held.add("B:" + step[1])
    elif kind == "dropP":
        held.discard("P")
    return frozenset(held)


def alphabet(recipes, full=False):
    """`full`: also copy / deepcopy and 'dump the pickle, (drop, gc,) load it later' — random stream only."""
    al = []
    for r in recipes:
        al.append(("mk", r.name, None))
        al.append(("drop", r.name))
        if r.pk:
            al.append(("pk", r.name, None))
            if full:
                al.append(("cp", r.name, None))
                al.append(("dc", r.name, None))
        if full and r.blob:
            al.append(("dumps", r.name))
            al.append(("loads", r.name, None))
        if r.ri:
            al.append(("ri", r.name, None))
    al += [("arr", 0), ("arr", 1), ("gc",), ("dropP",)]
    if full:
        al.append(("arr", 2))
        al += [("use", u, None) for u in USES]
    return al


def enumerate_histories(depth, recipes):
    al = alphabet(recipes)
    init = frozenset(ARR_SLOTS)
    out = []

    def rec(prefix, held, d):
        if d == 0:
            out.append(prefix)
            return
        any_ext = False
        for st in al:
            if enabled(st, held):
                any_ext = True
                rec(prefix + [st], apply_sym(st, held), d - 1)
        if not any_ext:
            out.append(prefix)
    rec([], init, depth)
    return out


def random_history(rng, length, recipes):
    al = alphabet(recipes, full=True)
    held = frozenset(ARR_SLOTS)
    hist = []
    weights = {"mk": 6, "drop": 2, "pk": 2, "ri": 1, "arr": 1, "gc": 1, "dropP": 1, "cp": 1, "dc": 1,
               "dumps": 2, "loads": 4, "use": 3}
    for _ in range(length):
        en = [s for s in al if enabled(s, held)]
        # favour composite constructions (their arguments are held right now), so deep terms get built
        st = rng.choices(en, weights=[weights[s[0]] * (4 if s[0] == "mk" and len(RBY[s[1]].needs) >= 2 else
                                                        2 if s[0] == "mk" and RBY[s[1]].needs else 1)
                                      for s in en])[0]
        hist.append(st)
        held = apply_sym(st, held)
    return hist


def _needs_chain(name, acc):
    for n in RBY[name].needs:
        if n in RBY and n not in acc:
            _needs_chain(n, acc)
    if name not in acc:
        acc.append(name)
    return acc


def callform_histories(rng):
    """Every call form of every base term, alive together with the base (and, for Binary, with the term whose
    equally-typed fields are swapped): base first then all forms, all forms first then the base, and both bases
    of a swapped pair interleaved with each other's forms; a drop + gc of the base in the middle of one variant."""
    out = []
    forms = {}
    for r in KW_RECIPES:
        forms.setdefault(r.base, []).append(r.name)
    for bn, fs in forms.items():
        chain = _needs_chain(bn, [])[:-1]
        pre = [("mk", n, None) for n in chain]
        f1 = list(fs)
        rng.shuffle(f1)
        out.append(pre + [("mk", bn, None)] + [("mk", f, None) for f in f1])
        f2 = list(fs)
        rng.shuffle(f2)
        out.append(pre + [("mk", f, None) for f in f2] + [("mk", bn, None), ("drop", bn), ("gc",), ("mk", f2[0], None)])
    for a, b in (("b", "bltr"), ("bsub", "bsubr")):
        chain = [n for n in _needs_chain(a, []) + _needs_chain(b, []) if n not in (a, b)]
        chain = list(dict.fromkeys(chain))
        mix = [a, b] + forms[a] + forms[b]
        rng.shuffle(mix)
        out.append([("mk", n, None) for n in chain] + [("mk", m, None) for m in mix])
    return out


def passed_through_histories(rng, first=()):
    """Fresh dynamic domains / variables are created, passed through one typing path under one interpretation,
    then everything is dropped and the collector runs: the weak table entries must be gone (the model compares
    the domain table after every step).  One history per (use, interpretation); a second round re-creates and
    re-drops the domain, sometimes with an unrelated construction in between."""
    out = []
    for u, (needs, _, _) in USES.items():
        chain = []
        for n in needs:
            _needs_chain(n, chain)
        for interp in USE_INTERPS:
            h = [("mk", n, None) for n in chain] + [("use", u, interp)]
            if rng.random() < 0.5:
                h.append(("use", u, rng.choice(USE_INTERPS)))
            drops = [("drop", n) for n in reversed(chain)]
            if rng.random() < 0.3:
                rng.shuffle(drops)
            h += drops + [("gc",)]
            h += [("mk", chain[0], None), ("drop", chain[0]), ("gc",)]
            out.append((u, h))
    # uses named in `first` (derived from a new memo) lead
    out.sort(key=lambda uh: 0 if uh[0] in first else 1)
    return [h for _, h in out]


def zero_shape_histories(rng):
    """each zero-size domain requested repeatedly while alive (directly, through its alias, through pickle, as a
    Variable's domain, as an empty Tensor's output), then dropped and collected"""
    out = []
    for dom, alias, var, use in (("z20", "z20a", "vz20", "empty_int_tensor"), ("z302", None, "vz302", None),
                                 ("z320", None, None, None), ("rz0", "rz0a", "vrz0", "empty_real_tensor"),
                                 ("rz20", None, None, None)):
        h = [("mk", dom, None), ("mk", dom, None), ("pk", dom, None)]
        if alias:
            h += [("mk", alias, None), ("mk", dom, None)]
        if var:
            h += [("mk", var, None), ("pk", var, None), ("mk", var, None)]
        if use:
            h += [("use", use, None), ("mk", dom, None)]
        h += [("dumps", dom), ("drop", dom)] if RBY[dom].blob else [("drop", dom)]
        if alias:
            h.append(("drop", alias))
        if var:
            h.append(("drop", var))
        h += [("dropP",), ("gc",)]
        if RBY[dom].blob:
            h += [("loads", dom, None), ("mk", dom, None)]
        out.append(h)
    return out


def fill_interps(hist, rng):
    out = []
    for st in hist:
        if st[0] == "mk":
            out.append(("mk", st[1], st[2] or rng.choice(RBY[st[1]].interps)))
        elif st[0] == "pk":
            out.append(("pk", st[1], st[2] or rng.choice(RBY[st[1]].pk)))
        elif st[0] == "ri":
            out.append(("ri", st[1], st[2] or rng.choice(RBY[st[1]].ri)))
        elif st[0] == "dc":
            out.append(("dc", st[1], st[2] or rng.choice(RBY[st[1]].pk)))
        elif st[0] == "cp":
            out.append(("cp", st[1], st[2] or "reflect"))
        elif st[0] == "use":
            out.append(("use", st[1], st[2] or rng.choice(USE_INTERPS)))
        elif st[0] == "loads":
            out.append(("loads", st[1], st[2] or rng.choice(RBY[st[1]].pk or ("reflect",))))
        else:
            out.append(st)
    return out


# ----------------------------------------------------------------------------------------------
# running one history on the real side, producing the model request alongside
# ----------------------------------------------------------------------------------------------

def walk_pairs(old, new, ids, objmap, arrmap, newarrs):
    """Parallel walk of an object and its reconstruction: old address -> new address."""
    if isinstance(old, np.ndarray):
        if not isinstance(new, np.ndarray):
            raise ValueError("shape")
        arrmap[ids(old)] = ids(new)
        if new is not old:
            newarrs[id(new)] = new
        return
    if isinstance(old, Funsor):
        if not isinstance(new, Funsor) or type(old).__origin__ is not type(new).__origin__ \
                or len(old._ast_values) != len(new._ast_values):
            raise ValueError("shape")
        objmap[ids(old)] = ids(new)
        for a, b in zip(old._ast_values, new._ast_values):
            walk_pairs(a, b, ids, objmap, arrmap, newarrs)
        return
    if isinstance(old, tuple):
        if not isinstance(new, tuple) or len(old) != len(new):
            raise ValueError("shape")
        for a, b in zip(old, new):
            walk_pairs(a, b, ids, objmap, arrmap, newarrs)
        return
    if isinstance(old, frozenset):
        if old != new and {id(x) for x in old} != {id(x) for x in new}:
            raise ValueError("frozenset members rebuilt (outside the model's rebuild)")
        return
    if is_interned(old):
        objmap[ids(old)] = ids(new)


class Run:
    """One history: executes the real steps, records observations and builds the model request."""

    def __init__(self, w, rng):
        self.w = w
        self.rng = rng
        self.req = []              # model steps (s-expression data)
        self.real_obs = []         # per symbolic step
        self.tracked = []          # [(obs index at creation, slot, weakref)]  objects
        self.tracked_arr = []      # [(obs index at creation, slot, weakref)]  arrays
        self.nobs = 0
        self.error = None
        self.cyclic_ok = False     # set by a `use` step, see step()
        self.stale = None          # (history index, description): a constructor handed back a stale object

    # the pinned prelude + the two arrays
    def prelude(self):
        w = self.w
        for slot, table, mcls, args, obj in w.pinned:
            toks = []
            for a in args:
                enc(a, w.ids, toks)
            self.req.append(["mk", slot, w.cls_index[table], table.startswith("funsor.domains."), Q(mcls),
                             toks, w.ids(obj)])
        self.min_stamp = len(w.pinned)
        for k in ARR_GROUPS:
            self.alloc_array(k)
        self.observe(("prelude",))

    def alloc_array(self, k):
        """(re-)allocate array group k: release every array of the group, then allocate them anew"""
        w = self.w
        slots = ARR_GROUPS[k]
        had = slots[0] in w.A
        if had:
            for sl in slots:
                del w.A[sl]
        w.A.update(new_group(k, self.rng))      # right after the release: provoke address reuse
        if had:
            for sl in slots:
                self.req.append(["drop", sl])
            self.req.append(["sweep"])
        for sl in slots:
            self.req.append(["alloc", sl, w.ids(w.A[sl])])
            if sl not in NO_LIVENESS_SLOTS:
                self.tracked_arr.append((self.nobs, sl, weakref.ref(w.A[sl])))

    def observe(self, sym):
        w = self.w
        self.req.append(["obs", self.min_stamp])
        roots = {}
        for k, a in w.A.items():
            roots[k] = w.ids(a)
        for name, h in w.H.items():
            roots[RSLOT[name]] = w.ids(h)
        if w.P is not None:
            roots[SLOT_P] = w.ids(w.P)
        alive = [wr() is not None for (_, _, wr) in self.tracked]
        alive_arr = [wr() is not None for (_, _, wr) in self.tracked_arr]
        self.real_obs.append(dict(sym=sym, roots=roots, tables=w.table_snapshot(), alive=alive,
                                  alive_arr=alive_arr, total=w.total_funsor_entries()))
        self.nobs += 1

    def step(self, sym):
        w = self.w
        kind = sym[0]
        if kind == "mk":
            r = RBY[sym[1]]
            args = w.args_of(r)
            toks = []
            for a in args:
                enc(a, w.ids, toks)
            try:
                obj = w.build(r, sym[2], args)
            except Exception as e:
                # the code declines this call: note it, leave the handle as it was, go on with the history
                if self.error is None:
                    self.error = f"step {len(self.real_obs) - 1} {call_src(r)}: {type(e).__name__}: {e}"[:400]
                e = None
                del args
                self.observe(sym)
                return
            w.H[r.name] = obj
            if self.stale is None:
                self.stale = stale_request(r, args, obj, w)
                if self.stale is not None:
                    self.stale = (len(self.real_obs) - 1, self.stale)
            mcls = r.mcls or w.cls_mcls[r.cls]
            if r.kw is not None:
                npos, order = r.kw
                fields = w.cls_fields[r.cls]
                ptoks = []
                for a in args[:npos]:
                    enc(a, w.ids, ptoks)
                kws = [[Q(f), enc(args[fields.index(f)], w.ids, [])] for f in order]
                self.req.append(["mkkw", RSLOT[r.name], w.cls_index[r.cls], r.cyc, Q(mcls), ptoks, kws,
                                 w.ids(obj)])
            else:
                self.req.append(["mk", RSLOT[r.name], w.cls_index[r.cls], r.cyc, Q(mcls), toks, w.ids(obj)])
            self.req.append(["sweep"])
            self.tracked.append((self.nobs, RSLOT[r.name], weakref.ref(obj)))
            del obj, args
        elif kind == "drop":
            del w.H[sym[1]]
            self.req.append(["drop", RSLOT[sym[1]]])
            self.req.append(["sweep"])
        elif kind == "dropP":
            w.P = None
            self.req.append(["drop", SLOT_P])
            self.req.append(["sweep"])
        elif kind == "arr":
            self.alloc_array(sym[1])
        elif kind == "gc":
            full_collect()
            self.req.append(["gc"])
        elif kind == "use":
            w.use(sym[1], sym[2])
            full_collect()
            self.req.append(["gc"])
            self.cyclic_ok = True
        elif kind == "dumps":
            r = RBY[sym[1]]
            toks = []
            for a in w.args_of(r):
                enc(a, w.ids, toks)
            w.B[r.name] = (pickle.dumps(w.H[r.name]), toks, w.cls_index[r.cls], r.cyc,
                           r.mcls or w.cls_mcls[r.cls])
        elif kind == "loads":
            # unpickling when the original may be long gone: the reducer's constructor call, from scratch
            blob, toks, ci, cyc, mcls = w.B[sym[1]]
            w.P = None
            with INTERPS[sym[2]]:
                new = pickle.loads(blob)
            self.req.append(["drop", SLOT_P])
            self.req.append(["sweep"])
            self.req.append(["mk", SLOT_P, ci, cyc, Q(mcls), toks, w.ids(new)])
            self.req.append(["sweep"])
            w.P = new
            self.tracked.append((self.nobs, SLOT_P, weakref.ref(new)))
            del new
        elif kind in ("pk", "ri", "cp", "dc"):
            src = w.H[sym[1]]
            w.P = None
            with INTERPS[sym[2]]:
                if kind == "pk":
                    new = pickle.loads(pickle.dumps(src))
                elif kind == "cp":
                    new = copy.copy(src)
                elif kind == "dc":
                    new = copy.deepcopy(src)
                else:
                    new = reinterpret(src)
            objmap, arrmap, newarrs = {}, {}, {}
            walk_pairs(src, new, w.ids, objmap, arrmap, newarrs)
            self.req.append(["drop", SLOT_P])
            self.req.append(["sweep"])
            tmp = []
            for k, (_, arr) in enumerate(sorted(newarrs.items(), key=lambda kv: w.ids(kv[1]))):
                self.req.append(["alloc", SLOT_TMP + k, w.ids(arr)])
                tmp.append(SLOT_TMP + k)
            remap = sorted(set(list(objmap.items()) + list(arrmap.items())))
            remap = [[a, b] for a, b in remap if a != b]
            self.req.append(["rebuild", RSLOT[sym[1]], SLOT_P, remap])
            for t in tmp:
                self.req.append(["drop", t])
            self.req.append(["sweep"])
            w.P = new
            self.tracked.append((self.nobs, SLOT_P, weakref.ref(new)))
            del src, new, newarrs, objmap, arrmap
        else:
            raise ValueError(sym)
        if self.cyclic_ok and kind not in ("gc", "use"):
            # after a `use` step held terms may have become cyclic garbage-to-be (Variable.input_vars is a
            # lazily cached frozenset containing the variable itself), so dropping them frees them only at the
            # next collection: from here on every step is followed by a collection on both sides
            full_collect()
            self.req.append(["gc"])
        self.observe(sym)

    def reset(self):
        w = self.w
        w.H.clear()
        w.P = None
        w.B.clear()
        w.A.clear()
        full_collect()
        # no cyclic garbage is left: park this run's bookkeeping (observations, requests) in the permanent
        # generation so later collections do not traverse it (it is still freed by reference counting)
        gc.freeze()


def call_src(r):
    """python source of the real construction of recipe r"""
    if r.expr is not None:
        return r.expr
    c = r.cls.rpartition('.')[2]
    if r.kw is None:
        return f"{c}(*{r.args})"
    npos, order = r.kw
    fields = FIELDS[r.cls]
    kws = ", ".join(f"{f}=({r.args})[{fields.index(f)}]" for f in order)
    return f"{c}(*({r.args})[:{npos}], {kws})"


def stale_request(r, args, obj, w):
    """"a later request never receives a stale object built from different arguments": what the returned object
    says it was built from must be == the request (arrays and interned objects by identity).  Ops record their
    bound parameters in `.defaults`; Tensors carry their array."""
    if isinstance(obj, ops.Op):
        have = tuple(obj.defaults.values())
        have = tuple(tuple(h) if isinstance(h, list) else h for h in have)
        if r.mcls == "GetsliceMeta":
            # GetsliceMeta keys x[i] and x[(i,)] alike (the index is made a tuple): compare in that form
            have = tuple(h if isinstance(h, tuple) else (h,) for h in have)
            args = tuple(a if isinstance(a, tuple) else (a,) for a in args)
        if have != tuple(args):
            return f"{r.expr} returned an op whose bound parameters are {have!r}, requested {tuple(args)!r}"
    elif isinstance(obj, Tensor) and r.needs and r.needs[0] in ARR_SLOTS:
        # fidelity fact, counted not gated: the funsor stores the very array it was keyed by.  (The gate is
        # identity: same array object <=> same Tensor, through the model comparison.)
        w.data_is_arg[obj.data is w.A[ARR_SLOTS[r.needs[0]]]] += 1
    if isinstance(obj, Funsor) and r.expr is None and w.cls_mcls.get(r.cls) == "FunsorMeta" \
            and f"{type(obj).__origin__.__module__}.{type(obj).__origin__.__qualname__}" == r.cls:
        # the term handed back stores the requested values in FIELD order, whatever the call form
        vals = obj._ast_values
        if len(vals) != len(args) or not all(
                (v is a) if (is_interned(a) or isinstance(a, np.ndarray)) else (v == a) for v, a in zip(vals, args)):
            return (f"{r.name}: {r.cls.rpartition('.')[2]} called as {call_src(r)} returned a term whose "
                    f"_ast_values are {vals!r}, requested (field order) {tuple(args)!r}")
    if isinstance(obj, Unary) and r.cls.endswith("Unary") and r.expr is None:
        if obj.op is not args[0] or obj.arg is not args[1]:
            return f"{r.name}: Unary(op, arg) returned a term with op {obj.op!r} / another arg, requested {args[0]!r}"
        if r.name.startswith("ugs_") and r.name[4:] in GS_IDX:
            want = np.empty((4, 6))[GS_IDX[r.name[4:]]].shape
            if tuple(obj.output.shape) != want:
                return f"{r.name}: v[{GS_IDX[r.name[4:]]}] has shape {tuple(obj.output.shape)}, numpy says {want}"
    return None


def parse_obs(o):
    """model observation s-expression -> dict"""
    if o[0] == "err":
        return {"err": o[1], "at": int(o[2])}
    d = {"err": None}
    for part in o[1:]:
        d[part[0]] = part[1:]
    roots = {int(a): int(b) for a, b in d["roots"]}
    objs = {int(i): (int(c), int(s)) for i, c, s in d["objs"]}
    arrs = {int(i): int(s) for i, s in d["arrs"]}
    keys = {}
    for e in d["keys"]:
        keys.setdefault(int(e[0]), []).append((sx(e[2:]), int(e[1])))
    for v in keys.values():
        v.sort()
    return {"err": None, "roots": roots, "objs": objs, "arrs": arrs, "keys": keys,
            "ncache": (int(d["ncache"][0]), int(d["ncache"][1]))}


def compare(w, run, model_obs):
    """-> None if everything agrees, else (what, step index, expected(model), got(real))."""
    pinned_ids = {w.ids(o) for (_, _, _, _, o) in w.pinned}
    stamp_of = {}        # tracked index -> stamp
    serial_of = {}
    for k, real in enumerate(run.real_obs):
        if k >= len(model_obs):
            return ("model-stopped", k, None, None)
        m = model_obs[k]
        if m["err"] is not None:
            return (f"model-guard:{m['err']}", k, f"model step #{m['at']} refused: {m['err']}", str(real["sym"]))
        # (1) which object every handle is
        mroots = {s: i for s, i in m["roots"].items() if s < PIN_SLOT0 or s >= 100 and s < SLOT_TMP}
        if mroots != real["roots"]:
            return ("handles", k, mroots, real["roots"])
        # (2) intern tables: same keys, same values
        for name, ent in real["tables"].items():
            ci = w.cls_index[name]
            ent = [(ks, v) for ks, v in ent if v not in pinned_ids]
            ment = m["keys"].get(ci, [])
            if ent != ment:
                return (f"table:{name}", k, ment, ent)
        known = {w.cls_index[n] for n in real["tables"]}
        for ci in m["keys"]:
            if ci not in known:
                return ("table:unobserved-class", k, ci, None)
        nfun = sum(len(v) for ci, v in m["keys"].items() if w.rows[ci][1] == "funsor")
        if nfun != real["total"]:
            return ("total-funsor-entries", k, nfun, real["total"])
        if m["ncache"][0] != m["ncache"][1]:
            return ("model-cache-len", k, m["ncache"], None)
        # (3) liveness of everything ever held
        for t, (k0, slot, _) in enumerate(run.tracked):
            if k0 == k:
                i = m["roots"].get(slot)
                stamp_of[t] = m["objs"].get(i, (None, -1 - i if i is not None else None))[1]
        for t, (k0, slot, _) in enumerate(run.tracked_arr):
            if k0 == k:
                serial_of[t] = m["arrs"].get(m["roots"].get(slot))
        live_stamps = {s for (_, s) in m["objs"].values()}
        for t, alive in enumerate(real["alive"]):
            st = stamp_of.get(t)
            if st is None or st < 0:
                continue   # pinned object (never reclaimed) — hits on the prelude
            if alive != (st in live_stamps):
                return ("liveness", k, f"object #{t} (stamp {st}) alive={st in live_stamps}", f"alive={alive}")
        live_serials = set(m["arrs"].values())
        for t, alive in enumerate(real["alive_arr"]):
            se = serial_of.get(t)
            if se is None:
                continue
            if alive != (se in live_serials):
                return ("array-liveness", k, f"array #{t} alive={se in live_serials}", f"alive={alive}")
    return None


# ----------------------------------------------------------------------------------------------
# Python-side oracle (search / replay): needs no Lean
# ----------------------------------------------------------------------------------------------

def py_hash_key(obj):
    """Our own reading of the structural identity of a live funsor: class + args, arrays by identity."""
    def atom(a):
        if isinstance(a, np.ndarray):
            return ("arr", id(a))
        if isinstance(a, float) and a != a:
            return ("nan", id(a))
        if isinstance(a, tuple):
            return ("tup",) + tuple(atom(x) for x in a)
        if isinstance(a, frozenset):
            return ("fs", frozenset(id(x) for x in a))
        if is_interned(a):
            return ("obj", id(a))
        return a
    return (type(obj).__origin__, tuple(atom(a) for a in obj._ast_values))


def reachable(handles):
    seen = {}

    def walk(o):
        if isinstance(o, Funsor):
            if id(o) in seen:
                return
            seen[id(o)] = o
            for a in o._ast_values:
                walk(a)
        elif isinstance(o, (tuple, frozenset)):
            for a in o:
                walk(a)
    for h in handles:
        walk(h)
    return list(seen.values())


def oracle_violation(w, expect_same):
    """identity <=> structure over everything reachable from the held handles; declared aliases."""
    objs = reachable(list(w.H.values()) + ([w.P] if w.P is not None else []))
    by_key = {}
    for o in objs:
        k = py_hash_key(o)
        if k in by_key and by_key[k] is not o:
            return f"two live {type(o).__origin__.__name__} objects with equal arguments: {o!r}"
        by_key[k] = o
    for a, b in expect_same:
        if a in w.H and b in w.H and w.H[a] is not w.H[b] and w.built_from.get(a) == w.built_from.get(b):
            return f"{a} and {b} are built from equal arguments but are different objects"
    return None


ALIASES = [("z20", "z20a"), ("rz0", "rz0a"), ("nhalf", "nhalf_g"), ("n1", "n1_g32"), ("n1b3", "n1b3_g"), ("n1", "n1f"), ("n1", "n1t"), ("n1", "n1n"), ("nz", "nnz"), ("n1b3", "n1b3f"), ("t0", "t0t"),
           ("t0n", "t0nn"), ("sl", "sl2"), ("sl", "sl3"), ("d5", "d5a"), ("r5", "r5a"),
           ("g1", "g1k"), ("tv_VT", "tv_VTt"), ("tv_VT", "tv_VTn"), ("tv_VS", "tv_VSt"),
           ("tv_VCi", "tv_VCt"), ("tv_VR", "tv_VRt"), ("tv_VZ", "tv_VZt"), ("tv_VO", "tv_VOt"), ("bs23", "bs23a"), ("gs_rev", "gs_revk"), ("gs_s3", "gs_s3n"), ("gs_i2", "gs_i2t"), ("sum_m1", "sum_m1k"), ("sum_m2", "sum_m2k"), ("sum_1", "sum_1f"), ("sum_1", "sum_1t"),
           ("sum_1", "sum_1z"), ("sum_0", "sum_0f"), ("sum_0", "sum_0n"), ("sum_m1kd", "sum_m1kd1"),
           ("amax_m2", "amax_m2k"), ("prod_m2", "prod_m2k"), ("argmax_m2", "argmax_m2k"), ("rs_23", "rs_23f"),
           ("unsq_0", "unsq_0f")]
DISTINCT = [("n1", "n1b3"), ("x", "xb"), ("t0", "t0b"), ("t0", "t0n"), ("sl", "sl4"), ("d5", "r5"),
            ("r5", "r55"), ("g1", "g2"), ("s0", "al0"), ("n1", "nhalf"), ("nz", "n1"),
            ("sum_m1", "sum_m2"), ("amax_m1", "amax_m2"), ("prod_m1", "prod_m2"), ("argmax_m1", "argmax_m2"),
            ("usum_m1", "usum_m2"), ("uamax_m1", "uamax_m2"), ("uprod_m1", "uprod_m2"),
            ("uargmax_m1", "uargmax_m2"), ("unsq_m1", "unsq_m2"), ("stk_m1", "stk_m2"), ("rs_m1", "rs_m2"),
            ("gm1", "gm2"), ("rs_23", "rs_32"), ("sum_m1", "sum_m1kd"), ("sum_m2", "sum_m3"), ("sum_1", "sum_0"),
            ("sum_m1", "amax_m1"), ("bs23", "bs7"), ("bs51", "d5"), ("bs213", "bs23"), ("r7", "r71"),
            ("r7", "bs7"), ("vbs51", "v5"), ("tv_VT", "tv_VM"), ("tv_VT", "tv_VTi"), ("tv_VO", "tv_B"),
            ("tv_VR", "tv_B"), ("tv_VC", "tv_VCi"), ("bvt", "bvr"), ("gs_rev", "gs_rev0"), ("ugs_rev", "ugs_rev0"), ("gs_s3", "gs_s03"),
            ("gs_s03", "gs_s031"), ("ugs_s3", "ugs_s03"), ("gs_st2", "gs_s0st2"), ("ugs_st2", "ugs_s0st2"),
            ("gs_full", "gs_full4"), ("gs_full", "gs_full1"), ("ugs_full", "ugs_full4"), ("gs_i2", "gs_s23"),
            ("ugs_i2", "ugs_s23"), ("gs_c1", "gs_c01"), ("gs_el_rev", "gs_el_rev0"),
            ("ugs_el_rev", "ugs_el_rev0"), ("gs_nn", "gs_n0"), ("gs_full", "gs_el")]
ALIASES = ALIASES + [(r.base, r.name) for r in KW_RECIPES]
DISTINCT = DISTINCT + [("z20", "z302"), ("z302", "z320"), ("rz0", "rz20"), ("z20", "rz0"), ("vz20", "vz302"), ("b", "bltr"), ("bsub", "bsubr")] + \
    [(o, r.name) for r in KW_RECIPES for (bb, o) in (("b", "bltr"), ("bltr", "b"), ("bsub", "bsubr"), ("bsubr", "bsub"))
     if r.base == bb]
VALUE_REF = {"usum": np.sum, "uamax": np.amax, "uprod": np.prod, "uargmax": np.argmax}
VALUE_DATA = np.arange(24, dtype=np.float64).reshape(2, 3, 4) / 7.0


def lazy_value_wrong(name, obj):
    """the lazy reduction term, once its variable is bound to data, must compute *its own* axis"""
    head, _, suf = name.partition("_")
    if head == "ugs" and suf in GS_IDX:
        data = np.arange(24.0).reshape(4, 6)
        want = data[GS_IDX[suf]]
        if tuple(obj.output.shape) != want.shape:
            return f"{name}: v[{GS_IDX[suf]}] has shape {tuple(obj.output.shape)}, numpy says {want.shape}"
        got = obj(vg=Tensor(data))
        if not isinstance(got, Tensor) or got.data.shape != want.shape or not np.array_equal(got.data, want):
            return f"{name}: v[{GS_IDX[suf]}] evaluates to another slice ({obj})"
        return None
    if head not in VALUE_REF or suf not in ("m1", "m2"):
        return None
    axis = -1 if suf == "m1" else -2
    want = VALUE_REF[head](VALUE_DATA, axis=axis)
    got = obj(x3=Tensor(VALUE_DATA))
    if not isinstance(got, Tensor) or got.data.shape != want.shape or not np.allclose(got.data, want):
        return f"{name}: the term built for axis {axis} evaluates to another reduction ({obj})"
    return None


def run_py_oracle(w, hist, rng):
    """Execute `hist` on the real side only, checking the Python oracle after each step.
    Returns a description of the first violation or None."""
    w.built_from = {}
    w.last_raised = None
    arr_gen = {sl: 0 for sl in ARR_SLOTS.values()}
    for k in ARR_GROUPS:
        w.A.update(new_group(k, rng))
    dropped = []
    try:
        for n, sym in enumerate(hist):
            kind = sym[0]
            if kind == "mk":
                r = RBY[sym[1]]
                prev = w.H.get(r.name)
                try:
                    obj = w.build(r, sym[2])
                except Exception as e:
                    if w.last_raised is None:
                        w.last_raised = f"step {n}: the legal call {call_src(r)} raised {type(e).__name__}: {e}"[:300]
                    e = None
                    continue
                gen = tuple(arr_gen[ARR_SLOTS[x]] if x in ARR_SLOTS else id(w.H[x]) for x in r.needs)
                if prev is not None and w.built_from.get(r.name) == gen and prev is not obj and r.name != "nan_f":
                    return f"step {n}: {r.name} rebuilt from identical arguments gave a different object"
                if prev is not None and w.built_from.get(r.name) != gen and prev is obj:
                    return f"step {n}: {r.name} rebuilt from different arguments returned the old (stale) object"
                st = stale_request(r, w.args_of(r), obj, w) or lazy_value_wrong(r.name, obj)
                if st:
                    return f"step {n}: stale object: {st}"
                w.H[r.name] = obj
                w.built_from[r.name] = gen
                del obj, prev
            elif kind == "drop":
                dropped.append(weakref.ref(w.H[sym[1]]))
                del w.H[sym[1]]
            elif kind == "dropP":
                w.P = None
            elif kind == "arr":
                for sl in ARR_GROUPS[sym[1]]:
                    del w.A[sl]
                    arr_gen[sl] += 1
                w.A.update(new_group(sym[1], rng))
            elif kind == "gc":
                full_collect()
            elif kind == "use":
                w.use(sym[1], sym[2])
                full_collect()
            elif kind == "dumps":
                w.B[sym[1]] = pickle.dumps(w.H[sym[1]])
            elif kind == "loads":
                r = RBY[sym[1]]
                with INTERPS[sym[2]]:
                    new = pickle.loads(w.B[sym[1]])
                ref = w.build(r, "reflect")      # the object built (again) from the recipe's own arguments
                if new is not ref:
                    return (f"step {n}: unpickling {r.expr or r.name} gave {new!r}, not the object its "
                            f"constructor arguments denote ({ref!r})")
                w.P = new
                del new, ref
            elif kind in ("pk", "ri", "cp", "dc"):
                src = w.H[sym[1]]
                with INTERPS[sym[2]]:
                    new = (pickle.loads(pickle.dumps(src)) if kind == "pk" else copy.copy(src) if kind == "cp"
                           else copy.deepcopy(src) if kind == "dc" else reinterpret(src))
                has_arr = any(isinstance(o, Tensor) for o in reachable([src]))
                if kind in ("ri", "cp") and new is not src:
                    return f"step {n}: {kind}({sym[1]}) under {sym[2]} is a different object"
                if kind in ("pk", "dc") and not has_arr and new is not src:
                    return (f"step {n}: {'pickle round trip' if kind == 'pk' else 'deepcopy'} of array-free "
                            f"{sym[1]} under {sym[2]} is a different object: {new!r} vs {src!r}")
                if kind in ("pk", "dc") and has_arr and new is src:
                    return f"step {n}: {kind} of {sym[1]} (arrays are copied) returned the same object"
                w.P = new
                del src, new
            v = oracle_violation(w, ALIASES)
            if v:
                return f"step {n}: {v}"
            for a, b in DISTINCT:
                if a in w.H and b in w.H and w.H[a] is w.H[b]:
                    return f"step {n}: {a} and {b} are built from different arguments but are the same object"
        # weak holding: drop everything, collect, nothing of ours may survive
        # (recipes such as `g0` / `sum_dflt` hand back pinned module-level objects: those are meant to live)
        refs = [weakref.ref(h) for h in w.H.values() if id(h) not in w.pinned_raw] + \
            [d for d in dropped if d() is None or id(d()) not in w.pinned_raw]
        if w.P is not None and id(w.P) not in w.pinned_raw:
            refs.append(weakref.ref(w.P))
        w.H.clear()
        w.P = None
        w.A.clear()
        full_collect()
        if any(r() is not None for r in refs):
            return "after dropping every handle and full_collect() a term is still alive"
        pinned_ids = {id(o) for (_, _, _, _, o) in w.pinned}
        for name, d in w.tables.items():
            left = [k for k, v in list(d.items()) if id(v) not in pinned_ids]
            if left:
                return f"after dropping every handle and full_collect() table {name} still has {len(left)} entries"
        return None
    finally:
        w.H.clear()
        w.P = None
        w.B.clear()
        w.A.clear()
        full_collect()


# ----------------------------------------------------------------------------------------------
# replay snippets
# ----------------------------------------------------------------------------------------------

def python_snippet(hist, note):
    lines = ["# replay for C07: " + note.replace("\n", " "),
             "import copy, gc, math, pickle, weakref",
             "import numpy as np",
             "from collections import OrderedDict",
             "import funsor, funsor.ops as ops",
             "from funsor.domains import Array, Bint, Product, Real, Reals",
             "from funsor.interpretations import eager, lazy, normalize, reflect",
             "from funsor.cnf import Contraction",
             "from funsor.tensor import Einsum",
             "from funsor.interpreter import reinterpret",
             "from funsor.tensor import Tensor",
             "from funsor.terms import Align, Binary, Lambda, Number, Reduce, Slice, Stack, Subs, Tuple, Unary, Variable",
             "funsor.set_backend('numpy')",
             "NAN = math.nan",
             "def group(k):",
             "    if k != 2: return {k: np.arange(6.).reshape(2, 3) + k}",
             "    b = np.arange(12.).reshape(3, 4); ro = b.view(); ro.flags.writeable = False",
             "    return {2: b, 3: b.T, 4: np.moveaxis(b, 0, 1), 5: b[:, 1:3], 6: b[::2, ::3], 7: b[::-1], 8: b[0, 0, ...], 9: ro}",
             "GROUPS = {0: [0], 1: [1], 2: [2, 3, 4, 5, 6, 7, 8, 9]}",
             "A = {}",
             "for k in GROUPS: A.update(group(k))",
             "H = {}; P = None; B = {}; log = []"]
    for n, sym in enumerate(hist):
        kind = sym[0]
        if kind == "mk":
            r = RBY[sym[1]]
            lines.append(f"with {sym[2]}: H[{r.name!r}] = {call_src(r)}")
        elif kind == "drop":
            lines.append(f"del H[{sym[1]!r}]")
        elif kind == "dropP":
            lines.append("P = None")
        elif kind == "arr":
            lines.append(f"for s in GROUPS[{sym[1]}]: del A[s]")
            lines.append(f"A.update(group({sym[1]}))")
        elif kind == "gc":
            lines.append("while gc.collect(): pass")
        elif kind == "use":
            lines.append(f"with {sym[2]}: _ = {USES[sym[1]][1]}")
            lines.append("del _")
            lines.append("while gc.collect(): pass")
        elif kind == "pk":
            lines.append(f"with {sym[2]}: P = pickle.loads(pickle.dumps(H[{sym[1]!r}]))")
        elif kind == "ri":
            lines.append(f"with {sym[2]}: P = reinterpret(H[{sym[1]!r}])")
        elif kind == "cp":
            lines.append(f"with {sym[2]}: P = copy.copy(H[{sym[1]!r}])")
        elif kind == "dc":
            lines.append(f"with {sym[2]}: P = copy.deepcopy(H[{sym[1]!r}])")
        elif kind == "dumps":
            lines.append(f"B[{sym[1]!r}] = pickle.dumps(H[{sym[1]!r}])")
        elif kind == "loads":
            lines.append(f"with {sym[2]}: P = pickle.loads(B[{sym[1]!r}])")
    return "\n".join(lines) + "\n"


def sym_json(hist):
    return [list(s) for s in hist]



# ----------------------------------------------------------------------------------------------
# beyond the model: fresh binders (alpha-mangling aliases a second key to the mangled object)
# ----------------------------------------------------------------------------------------------

def _binder_round(rng):
    """One round of direct identity checks on Reduce/Lambda with *unmangled* bound names.
    Returns None or a description of what failed.  All locals die with the frame."""
    interp = rng.choice([reflect, lazy])
    name = rng.choice(["i", "j", "k"])
    op = rng.choice([ops.add, ops.mul, ops.max])
    with reflect:
        x = Variable("x", Real)
        i = Variable(name, Bint[2])
        body = Binary(ops.lt, x, i)
    with interp:
        r1 = Reduce(op, body, frozenset({i}))
        r2 = Reduce(op, body, frozenset({i}))
        l1 = Lambda(i, body)
        l2 = Lambda(i, body)
    if r1 is not r2 or l1 is not l2:
        return "binder term built twice from the same arguments gave two objects"
    if not all("__BOUND" in n for n in r1.bound) or name in r1.inputs:
        return "bound name was not mangled"
    with reflect:
        if pickle.loads(pickle.dumps(r1)) is not r1:
            return "pickle round trip of a mangled Reduce is a different object"
        if reinterpret(r1) is not r1 or reinterpret(l1) is not l1:
            return "reinterpret of a mangled binder term is a different object"
        if Reduce(*r1._ast_values) is not r1:
            return "Reduce(*r._ast_values) is not r"
    n_entries = len(Reduce._cons_cache)
    if n_entries != 2:
        return f"expected 2 Reduce entries (requested key + mangled key) for one object, found {n_entries}"
    return None


def binder_stream(ctx, n):
    for _ in range(n):
        v = _binder_round(ctx.rng)
        full_collect()
        if v is None:
            left = len(Reduce._cons_cache) + len(Lambda._cons_cache) + len(Binary._cons_cache) \
                + len(Variable._cons_cache)
            if left:
                v = f"{left} cons-cache entries survive dropping every binder term + gc"
        if v:
            ctx.fail("input", "C07.binder", witness={"stream": "binder", "what": v}, got=v,
                     expected="identity for equal arguments / weak entries (alpha-mangled binders)",
                     python="# see fv/harness/c07.py:_binder_round\nFAILS = True\n")
            return
        ctx.count("beyond-model:binder-round-ok")


def observations(ctx):
    """Design-phase observations, re-measured every run and *counted*, not gated (they concern calls the
    constructors would reject, or are the documented 'arrays by identity' reading)."""
    obs = {}
    a = np.empty((2, 3))
    t = Tensor(a)
    try:
        obs["Tensor(id(arr)) is Tensor(arr)"] = Tensor(id(a)) is t
    except Exception as e:
        obs["Tensor(id(arr)) is Tensor(arr)"] = f"raises {type(e).__name__}"
    d = Bint[7]
    try:
        obs["Array[7.0, ()] while Bint[7] is live"] = "is Bint[7]" if Array[7.0, ()] is d else "other"
    except Exception as e:
        obs["Array[7.0, ()] while Bint[7] is live"] = f"raises {type(e).__name__}"
    obs["pickle round trip of a Tensor is the same object"] = pickle.loads(pickle.dumps(t)) is t
    g = np.float64(1.5)
    obs["Tensor(np.float64 scalar) twice is one object (generic -> fresh ndarray each call)"] = Tensor(g) is Tensor(g)
    vt = a.T
    obs["Tensor(a.T) twice (same view object) is one object"] = Tensor(vt) is Tensor(vt)
    obs["Tensor(a.T).data is the view passed"] = Tensor(vt).data is vt
    obs["Tensor(a.T) is Tensor(a.T) (two view objects)"] = Tensor(a.T) is Tensor(a.T)
    del vt, g
    obs["Number(-0.0) is Number(0.0)"] = Number(-0.0) is Number(0.0)
    obs["Number(1) is Number(1.0) is Number(True)"] = Number(1) is Number(1.0) and Number(1) is Number(True)
    obs["Number(float('nan')) is Number(float('nan'))"] = Number(float("nan")) is Number(float("nan"))
    obs["Number(math.nan) is Number(math.nan)"] = Number(math.nan) is Number(math.nan)
    del a, t, d
    full_collect()
    try:
        Array[7.0, ()]
        obs["Array[7.0, ()] after Bint[7] died"] = "returns a domain"
    except Exception as e:
        obs["Array[7.0, ()] after Bint[7] died"] = f"raises {type(e).__name__}"
    ctx.extra["observations"] = obs
    full_collect()

# ----------------------------------------------------------------------------------------------
# correspond
# ----------------------------------------------------------------------------------------------

def check_generated_table(ctx, rows):
    """The same obligations Props/C07 proves over the generated table, decided in Python so that a broken
    obligation comes with its concrete counter-entry (used by search as well)."""
    bad = []
    seen = {}
    for (name, kind, mcls, fields, af, found, cacheid, own, weak) in rows:
        if not own:
            bad.append((name, "does not own its intern table (shares an inherited dict)"))
        if not weak:
            bad.append((name, "intern table is not a WeakValueDictionary"))
        if cacheid in seen:
            bad.append((name, f"shares its intern table with {seen[cacheid]}"))
        seen.setdefault(cacheid, name)
        if kind == "funsor" and found and fields != af:
            bad.append((name, f"_ast_fields {fields} != __init__ parameters {af}"))
    return bad


def run_batch(ctx, w, hists, label):
    """Execute histories on the real side, then ask the model about all of them, then compare."""
    runs = []
    full_collect()
    gc.freeze()     # everything alive now is the harness's own bookkeeping: keep the collector's work small
    for hist in hists:
        run = Run(w, ctx.rng)
        run.prelude()
        try:
            for sym in hist:
                run.step(sym)
        except Exception as e:   # a construction raised: not a model question; record and move on
            run.error = f"{type(e).__name__}: {e}"
            e = None
        run.hist = hist
        runs.append(run)
        run.reset()
    reqs = ["C07 run " + sx(r.req) for r in runs]
    answers = ctx.driver.ask(reqs)
    for run, ans in zip(runs, answers):
        hist = run.hist
        if run.error is not None:
            # the code declines a call the model constructs: a broken correspondence, not (by itself) a wrong
            # identity — no witness here, `search` looks for one and falls back to this history
            ctx.count("real-step-raised")
            ctx.fail("correspondence", "C07.real-step-raised", got=run.error,
                     expected="every step of a generated history is a legal funsor call",
                     detail=json.dumps({"history": sym_json(hist), "stream": label}))
        if not ans.startswith("ok "):
            ctx.infra_errors.append(f"driver: {ans} for history {hist}")
            continue
        mobs = [parse_obs(o) for o in parse_sx(ans[3:])] if ans != "ok ()" else []
        if run.stale is not None:
            k, what = run.stale
            ctx.fail("input", "C07.stale-object", witness={"history": sym_json(hist[:k + 1]), "stream": label,
                                                            "what": what},
                     expected="the object returned was built from the requested arguments", got=what,
                     python=python_snippet(hist[:k + 1], what) + f"print({what!r})\nFAILS = True\n")
            continue
        diff = compare(w, run, mobs)
        for sym in hist:
            ctx.count(f"step:{sym[0]}")
            if sym[0] == "mk":
                ctx.count(f"mk:{sym[1]}")
                ctx.count(f"interp:{sym[2]}")
        ctx.count(f"len:{len(hist)}")
        if diff is not None:
            what, k, exp, got = diff
            note = f"{what} after step {k - 1} ({hist[k - 1] if 0 < k <= len(hist) else 'prelude'})"
            ctx.fail("input", f"C07.{what.split(':')[0].replace('table', 'intern-table')}",
                     witness={"history": sym_json(hist[:k]), "stream": label, "what": what},
                     expected=f"model: {exp}", got=f"funsor: {got}",
                     python=python_snippet(hist[:k], note) +
                     f"print({note!r})\nFAILS = True  # re-run with ./check C07 --replay for the model comparison\n")
            continue
        nontrivial = len({s[1] for s in hist if s[0] == "mk"}) >= 2 or any(s[0] in ("pk", "ri", "arr", "cp", "dc", "loads", "use") for s in hist)
        ctx.case(sample={"stream": label, "history": sym_json(hist)},
                 nontrivial_key=("h", tuple(hist)) if nontrivial else None)
    recycling_stats(ctx, w, runs)
    return len(runs)


def recycling_stats(ctx, w, runs):
    """How often did the allocator really hand an address out again?  (measured input distribution)"""
    n = na = 0
    for run in runs:
        seen = set()
        for st in run.req:
            if st[0] in ("alloc", "mk"):
                i = st[-1] if st[0] == "mk" else st[2]
                if i in seen:
                    n += 1
                    if st[0] == "alloc":
                        na += 1
                seen.add(i)
    ctx.count("address-reused-within-history", n)
    ctx.count("array-address-reused-within-history", na)


def correspond(ctx):
    """A funsor change must never end as an infrastructure error: whatever the harness trips over while driving
    the real code is a broken correspondence (recorded, then `search` hunts for the concrete witness)."""
    try:
        _correspond(ctx)
    except Exception:
        import traceback
        ctx.fail("correspondence", "C07.harness-exception", got=traceback.format_exc()[-1500:],
                 expected="the harness can drive and observe the real code")
    finally:
        gc.enable()


def _correspond(ctx):
    rows = getattr(ctx, "_c07_rows", None) or class_table()
    ctx.rule = ("histories over %d recipes (Variable/Number/Tensor/Unary/Binary/Subs/Align/Stack/Tuple/Reduce/"
                "Lambda/Slice, interned domains, parametrised ops) that share two re-allocatable backing arrays; "
                "steps: construct under reflect|lazy|eager, drop, gc.collect, pickle round trip, reinterpret, "
                "re-allocate an array.  Exhaustive over the core alphabet up to the stated depth (interpretation "
                "of each step drawn at random), random longer histories over the whole pool.  Non-trivial = at "
                "least two different recipes constructed or a pickle/reinterpret/re-allocation step; distinct by "
                "the whole history." % len(RECIPES))
    bad = check_generated_table(ctx, rows)
    for name, why in bad:
        ctx.fail("input", "C07.table", witness={"class": name, "why": why}, expected="own weak intern table",
                 got=why, python=f"# {name}: {why}\nFAILS = True\n")
    full_collect()
    gc.disable()
    try:
        gc.freeze()
        w = World(rows)
        warm_up_and_pin(w, ctx.rng)
        base = w.total_funsor_entries()
        if base != 0:
            # every handle of the warm-up was dropped and the collector ran: entries that are still there
            # are not weakly held (or something else keeps terms alive) — let `search` pin it down
            ctx.fail("correspondence", "C07.warmup-not-reclaimed",
                     expected="all funsor cons caches empty after dropping every handle + gc",
                     got=f"{base} entries left")
            return
        core = [r for r in RECIPES if r.core]
        depth = 3 if ctx.tier == "quick" else 4
        hs = [fill_interps(h, ctx.rng) for h in enumerate_histories(3, core)]
        if depth == 4:
            # depth 4 over the term/domain part of the core alphabet (the op part is covered at depth 3)
            opnames = {r.name for r in OP_RECIPES} | {"x3"}
            core4 = [r for r in core if r.name not in opnames]
            hs += [fill_interps(h, ctx.rng) for h in enumerate_histories(4, core4)]
        ctx.count("exhaustive-histories", len(hs))
        all_runs = 0
        for i in range(0, len(hs), 300):
            all_runs += run_batch(ctx, w, hs[i:i + 300], f"exhaustive-depth-{depth}")
            if len([f for f in ctx.failures if f.witness is not None]) >= 5:
                break
        cf = []
        for _ in range(2 if ctx.tier == "quick" else 20):
            cf += [fill_interps(h, ctx.rng) for h in callform_histories(ctx.rng)]
        all_runs += run_batch(ctx, w, cf, "call-forms")
        zs = [fill_interps(h, ctx.rng) for _ in range(3) for h in zero_shape_histories(ctx.rng)]
        all_runs += run_batch(ctx, w, zs, "zero-shape-domains")
        pt = [fill_interps(h, ctx.rng) for h in passed_through_histories(ctx.rng)]
        all_runs += run_batch(ctx, w, pt, "passed-through")
        nrand = 300 if ctx.tier == "quick" else 6000
        maxlen = 36 if ctx.tier == "quick" else 60
        rh = [fill_interps(random_history(ctx.rng, ctx.rng.randint(6, maxlen), RECIPES), ctx.rng)
              for _ in range(nrand)]
        for i in range(0, len(rh), 100):
            all_runs += run_batch(ctx, w, rh[i:i + 100], "random")
            if len([f for f in ctx.failures if f.witness is not None]) >= 5:
                break
        ctx.extra["truthiness_of_interned_objects"] = getattr(w, "truthiness", None)
        for kind, c in (getattr(w, "truthiness", None) or {}).items():
            for k, n in c.items():
                ctx.count(f"truthiness:{kind}:{k}", n)
        ctx.count("fidelity:Tensor.data-is-the-array-passed", w.data_is_arg[True])
        ctx.count("fidelity:Tensor.data-is-another-array", w.data_is_arg[False])
        if not [f for f in ctx.failures if f.witness is not None]:
            binder_stream(ctx, 40 if ctx.tier == "quick" else 400)
            observations(ctx)
        ctx.exhaustive = False
        ctx.extra["exhaustive_depth"] = depth
        ctx.extra["core_alphabet"] = [r.name for r in core]
    finally:
        gc.unfreeze()
        gc.enable()
    ctx.assumptions.append("the window between `key in cache` and `cache[key]` in reflect is modelled as atomic "
                           "(single-threaded histories; gc disabled between the harness's own gc steps)")
    ctx.assumptions.append("CPython's allocator and refcounting are the run time's: the theorems quantify over any "
                           "address recycling and any reclamation order; the harness feeds the addresses it observed")
    ctx.assumptions.append("alpha-mangling of fresh binders (a second table entry aliasing the mangled object) is "
                           "outside the model: binder recipes use pre-mangled names")


def search(ctx, broken):
    """A proof / the table obligation / the correspondence broke: hunt for a concrete failing history with the
    Python-side oracle (no Lean needed), ~10x the quick volume."""
    rows = getattr(ctx, "_c07_rows", None) or class_table()
    for name, why in check_generated_table(ctx, rows):
        ctx.fail("input", "C07.table", witness={"class": name, "why": why}, expected="own weak intern table",
                 got=why, python=f"# {name}: {why}\nFAILS = True\n")
    full_collect()
    gc.disable()
    try:
        w = World(rows)
        warm_up_and_pin(w, ctx.rng)
        core = [r for r in RECIPES if r.core]
        new_memos, first = uses_for_new_memos()
        if new_memos:
            ctx.extra["new_memos"] = [list(m) for m in new_memos]
            ctx.extra["uses_through_new_memos"] = first
        hs = [fill_interps(h, ctx.rng) for h in zero_shape_histories(ctx.rng)]
        hs += [fill_interps(h, ctx.rng) for h in passed_through_histories(ctx.rng, first)]
        hs += [fill_interps(h, ctx.rng) for _ in range(3) for h in callform_histories(ctx.rng)]
        hs += [fill_interps(h, ctx.rng) for h in enumerate_histories(3, core)]
        hs += [fill_interps(random_history(ctx.rng, ctx.rng.randint(4, 30), RECIPES), ctx.rng)
               for _ in range(int(os.environ.get("C07_SEARCH_N", "4000")))]
        raised = None
        for n, hist in enumerate(hs + [None]):
            if hist is None:
                # no wrong identity found: fall back to the first history on which a legal call raised
                if raised is None:
                    return
                hist, v = raised
            else:
                try:
                    v = run_py_oracle(w, hist, ctx.rng)
                    if not v and raised is None and getattr(w, "last_raised", None):
                        raised = (hist, w.last_raised)
                except Exception as e:
                    if raised is None:
                        raised = (hist, f"a legal constructor call raised {type(e).__name__}: {e}"[:300])
                    e = None
                    continue
            if v:
                ctx.fail("input", "C07.oracle", witness={"history": sym_json(hist), "what": v},
                         expected="identity <=> equal arguments; nothing survives drop-all + gc", got=v,
                         python=python_snippet(hist, v) + f"print({v!r})\nFAILS = True\n")
                return
    finally:
        gc.enable()


def replay(ctx, doc):
    """Re-run a stored history: Python oracle first, then (if the driver exists) the model comparison."""
    wit = doc.get("witness") or {}
    if "class" in wit:
        bad = check_generated_table(ctx, class_table())
        return any(n == wit["class"] for n, _ in bad)
    hist = [tuple(s) for s in wit.get("history", [])]
    if not hist:
        return True
    rows = class_table()
    full_collect()
    gc.disable()
    try:
        w = World(rows)
        warm_up_and_pin(w, ctx.rng)
        try:
            v = run_py_oracle(w, hist, ctx.rng)
        except Exception as e:
            v = f"raised {type(e).__name__}: {e}"
        if v:
            print("python oracle:", v)
            return True
        if ctx.driver.available():
            n0 = len(ctx.failures)
            run_batch(ctx, w, [hist], "replay")
            if len(ctx.failures) > n0:
                f = ctx.failures[-1]
                print("model comparison:", f.name, f.expected, f.got)
                return True
        return False
    finally:
        gc.enable()
